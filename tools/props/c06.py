"""C06 one owner: theorems in coq/Props/PropC06.v over Sys/Topic.v; correspondence and monitor
through the topic-history driver."""
import re
from props import statelib
from props.statelib import eff


def owners(rows):
    return sorted(u for u, s in rows.items() if not s.get("deleted") and "O" in eff(s["want"], s["given"]))


def sessions_of(sc):
    """sid -> user; taken from the head lines when the scenario comes from a replay/corpus file."""
    if sc.sessions:
        return sc.sessions
    res = {}
    for l in sc.head:
        w = l.split()
        if w and w[0] == "sess":
            res[int(w[1])] = int(w[2])
    return res


def monitor(sc, views):
    """The laws of C06 on the implementation's trace.  Fault-free prefix: all laws; after the first
    injected store fault only the counting laws, tagged "-after-store-fault"."""
    res = []
    prev = None
    faulted = False
    sessions = sessions_of(sc)
    for k, v in enumerate(views):
        fault, kind, args = sc.ops[k]
        if fault != "N":
            faulted = True
        actor = sessions.get(args[0]) if args else None
        ow = owners(v.subs)
        tag = "-after-store-fault" if faulted else ""
        # exactly one effective owner, equal to the owner field, in the store and in the cache
        if len(ow) != 1:
            res.append(("stored-owner-count-%d%s" % (len(ow), tag), k, "stored subscriptions have %d effective owners %s" % (len(ow), ow)))
        elif v.topic.get("owner") != ow[0]:
            res.append(("stored-owner-field" + tag, k, "topics.owner=%s but the effective owner is %s" % (v.topic.get("owner"), ow[0])))
        if v.loaded:
            cw = owners(v.cusers)
            if len(cw) != 1:
                res.append(("cached-owner-count-%d%s" % (len(cw), tag), k, "cached subscriptions have %d effective owners %s" % (len(cw), cw)))
            elif v.cache.get("owner") != cw[0]:
                res.append(("cached-owner-field" + tag, k, "topic.owner=%s but the cached effective owner is %s" % (v.cache.get("owner"), cw[0])))
        if prev is not None and not faulted:
            po = owners(prev.subs)
            if len(po) == 1:
                o = po[0]
                before, after = prev.subs[o], v.subs.get(o)
                still = o in ow
                moved = len(ow) == 1 and ow[0] != o
                if not moved:
                    if actor != o:
                        # no request by another user removes, bans or demotes the owner
                        lost_j = still and "J" in eff(before["want"], before["given"]) and "J" not in eff(after["want"], after["given"])
                        if not still or lost_j:
                            res.append(("owner-demoted-by-other", k, "owner %d removed/banned/demoted by %s of user %s" % (o, kind, actor)))
                    elif not still:
                        # the owner cannot unsubscribe or give up ownership except by transfer
                        res.append(("owner-gives-up-ownership", k, "owner %d lost ownership by his own %s with no successor" % (o, kind)))
                else:
                    n = ow[0]
                    # ownership moved: only by acceptance of a grant made by the owner
                    if not (kind in ("sub", "setsub") and actor == n and (kind == "sub" or args[1] in (0, n))):
                        res.append(("transfer-by-acceptance-only", k, "ownership moved from %d to %d by %s of user %s" % (o, n, kind, actor)))
                    if "O" not in prev.subs.get(n, {}).get("given", ""):
                        res.append(("transfer-needs-grant", k, "user %d became owner without O in the previous grant" % n))
                    if after is not None and not after["deleted"] and ("O" in after["want"] or "O" in after["given"]):
                        res.append(("previous-owner-loses-ownership", k, "previous owner %d keeps O: %s/%s" % (o, after["want"], after["given"])))
            # O is granted only by the owner (a re-subscription restores the previous grant, deleted row included)
            for u, s in v.subs.items():
                p = prev.subs.get(u)
                had = p is not None and "O" in p["given"]
                if "O" in s["given"] and not s["deleted"] and not had and len(po) == 1:
                    if actor != po[0] and not (actor == u and ow and ow[0] == u):
                        res.append(("grant-ownership-owner-only", k, "O appeared in the grant of user %d by %s of user %s (owner %d)" % (u, kind, actor, po[0])))
            if kind == "leave" and args[1] == 1 and len(po) == 1 and actor == po[0] and prev.loaded and args[0] in prev.csess:
                mine = [t for s, t in v.frames if s == args[0] and t.startswith("ctrl ")]
                if not mine or int(mine[0].split()[1]) < 400:
                    res.append(("owner-cannot-leave", k, "owner's unsubscribe answered %s" % mine))
        prev = v
    return res


def frame_f(t):
    return t.startswith("ctrl ")


def line_f(kind, l):
    if kind == "store":
        if l.startswith("sub "):
            return re.sub(r" read=.*? deleted=", " deleted=", l)
        if l.startswith("topic "):
            return "topic owner=" + l.split("owner=")[1]
        return None
    if l.startswith("user "):
        return re.sub(r" read=.*", "", l)
    if l.startswith("lastid"):
        return "owner=" + l.split("owner=")[1]
    return None


# ---------------------------------------------------------------------------
# owner-only requests ({del topic}, {set desc public|trusted|defacs}, {set tags}): outside the op
# alphabet of Sys/Topic.v; gate model Sys/OwnerGate.v against the real server, exhaustively.

GATE_KINDS = ["deltopic", "public", "trusted", "defacs", "defacso", "tags"]
GATE_ACTORS = {"owner": (1, 1, 1), "admin": (0, 0, 1), "pending": (0, 0, 1), "stranger": (0, 0, 0)}   # owner_c, owner_s, subscribed


def gate_cases():
    res = []
    for kind in GATE_KINDS:
        for actor in GATE_ACTORS:
            for loaded, attached in ((0, 0), (1, 0), (1, 1)):
                if actor == "stranger" and attached:
                    continue    # attaching subscribes
                for root in (0, 1):
                    res.append((kind, actor, loaded, attached, root))
    return res


def gate_check(ctx, cases):
    """-> (number of cases run, mismatches, law failures); violations are recorded in ctx"""
    ok1, _ = ctx.build_runner()
    ok2, _ = ctx.build_main()
    if not (ok1 and ok2):
        return 0, 0, 0     # reported by run_stateful
    ilines = ["gate %s %s %d %d %d" % c for c in cases]
    mlines = ["gate %s %d %d %d %d %d %d" % ((c[0], c[2], c[3]) + GATE_ACTORS[c[1]] + (c[4],)) for c in cases]
    rc, impl, log = ctx.run_main_lines("c06", ilines)
    if rc != 0 or len(impl) != len(cases):
        ctx.violation("monitor", "server-crashed", "the server process died while running the owner-only request cases: " + log[-1500:],
                      {"gate": ilines, "log": log[-4000:]})
        return len(cases), 0, 1
    rc2, model, err = ctx.run_model("c06", mlines)
    if rc2 != 0 or len(model) != len(cases):
        ctx.violation("proof", "runner-crashed", "model runner failed on the gate cases: " + err[-1500:], {"theorem_or_obligation": "model runner c06"})
        return len(cases), 0, 0
    fails, mism = [], []
    for c, il, i, m in zip(cases, ilines, impl, model):
        w = i.split()
        if len(w) < 2 or w[0] not in ("all", "own", "none"):
            fails.append(("owner-only-op-unanswered", il, i))
            continue
        if w[0] == "all" and c[1] != "owner":
            fails.append(("owner-only-op", il, i))
        if "lost=" in i:
            fails.append(("owner-only-op-foreign-subscription-lost", il, i))
        if w[0] == "own" and c[0] != "deltopic":
            fails.append(("owner-only-op", il, i))
        if w[:2] != m.split() or ("loaded=%d" % c[2]) not in w or ("attached=%d" % c[3]) not in w:
            mism.append((il, i, m))
    seen = set()
    for law, il, i in fails:
        if law not in seen:
            seen.add(law)
            ctx.violation("monitor", law, "law %s fails on the real server: request '%s' by a user who is not the owner answered '%s' (%d such cases)"
                          % (law, il, i, len([1 for f in fails if f[0] == law])), {"gate": [il], "law": law, "observed": i})
    if mism and not fails:
        il, i, m = mism[0]
        ctx.violation("corr", "correspondence-owner-gate",
                      "gate model Sys/OwnerGate.v and the server disagree on %d of %d owner-only request cases; first: '%s' server '%s' model '%s'; no non-owner was served in any of the %d cases (the case space is run exhaustively)"
                      % (len(mism), len(cases), il, i, m, len(cases)), {"correspondence": "owner-only gate", "gate": [x[0] for x in mism[:20]]})
    return len(cases), len(mism), len(fails)


def parse_gate_line(l):
    w = l.split()
    return (w[1], w[2], int(w[3]), int(w[4]), int(w[5]))


def run(ctx):
    import json
    if ctx.replay:
        rp = json.load(open(ctx.replay))
        if "gate" in rp.get("replay", {}):
            ctx.coq_props()
            import vlib
            vlib.proof_violation(ctx)
            n, mm, ff = gate_check(ctx, [parse_gate_line(l) for l in rp["replay"]["gate"]])
            ctx.coverage.update({"evaluations": n, "distinct_nontrivial": n, "rule": "replay of owner-only request cases"})
            ctx.finish()
    else:
        n, mm, ff = gate_check(ctx, gate_cases())
        ctx.coverage["owner_only_gate"] = {
            "cases_run_on_real_server": n, "exhaustive_over": "6 request kinds x {owner, administrator without O, pending transferee, stranger} x {not loaded, loaded by another session, attached} x {auth, root}",
            "mismatches_with_gate_model": mm, "law_failures": ff}
    statelib.run_stateful(
        ctx, [("perm", 0.0, 0.75), ("perm", 0.12, 0.25)], monitor,
        dict(ops={"sub", "setsub", "delsub", "leave"}, frame=frame_f, line=line_f, keys=("frames", "store", "cache")),
        rule="seeded random histories over one group topic: subscribe (arbitrary requested modes incl. O, junk), invite / permission change by owner, approvers, sharers, members, pending transferees (seeded O in the grant), strangers; acceptance, self-ban, leave, unsubscribe, eviction, with unload/restart between steps and a share with single store faults; non-trivial = at least one accepted mutating request",
        trusted=["projection compared for C06: ctrl replies of sub/set-sub/del-sub/leave requests, stored want/given/deleted per user and topics.owner, cached want/given per user and Topic.owner",
                 "{del topic}, {set desc public|trusted|defacs}, {set tags}: gate model Sys/OwnerGate.v (decision only: who is served, reply code, whether the effect is topic-wide / own subscription / none), compared with the real server on every case of its input space by harness/overlay/server/zz_verif_c06_test.go; the effects themselves (what is deleted, notifications) are not modelled"])
