"""Topic-history machinery shared by the stateful properties (C01-C04, C06-C09):
scenario generation, running the real server (package-main driver above memverif)
and the extracted Coq model on the same scenarios, parsing the canonical blocks,
projection-wise comparison, shrinking."""
import os
import subprocess
import vlib

MODES = {"JRWPS": 47, "JRWPAS": 63, "FULL": 255, "JR": 3, "JRP": 11, "JRWP": 15, "N": 0, "RWP": 14, "JRWPASD": 127,
         "JW": 5, "JRWPA": 31, "JRWPSO": 175, "JRWPASDO": 255, "JP": 9, "JRS": 35}
MODE_STRS = ["JRWPS", "JRWPAS", "JRWPASDO", "JR", "JRP", "JRWP", "N", "RWP", "JRWPASD", "JW", "JRWPA", "JRWPSO", "JRW",
             "jrwps", "JRWPSD", "JPS", "JRWPO", "O", "JO"]
JUNK_MODES = ["+W", "JX", "-R", "N?", "J R", "NJ"]


def hx(s):
    return s.encode("latin1").hex() if s else "-"


class Scn:
    def __init__(self, sid):
        self.id = sid
        self.head = []      # setup lines
        self.ops = []       # (fault, kind, args list)
        self.nusers = 0
        self.sessions = {}  # sid -> user

    def lines(self):
        return self.head + ["op %s %s %s" % (f, k, " ".join(str(a) for a in args)) if args else "op %s %s" % (f, k)
                            for f, k, args in self.ops] + ["end"]

    def clone(self, ops):
        s = Scn(self.id)
        s.head, s.nusers, s.sessions = self.head, self.nusers, self.sessions
        s.ops = list(ops)
        return s


def gen_setup(rng, sid, profile):
    sc = Scn(sid)
    n = rng.choice([2, 3, 3, 4, 5])
    sc.nusers = n
    auth = rng.choice([47, 47, 63, 3, 0, 7, 15, 46, 127])
    ow = rng.choice([255, 255, 255, 255, 191, 247])   # owner's want always has J and O
    sc.head.append("scn %s owner=1 auth=%d anon=0 ownerwant=%d ownergiven=255" % (sid, auth, ow))
    for i in range(1, n + 1):
        sc.head.append("user %d acc=%d" % (i, rng.choice([47, 47, 63, 31, 15])))
    nsub = 1
    for i in range(2, n + 1):
        if rng.random() < (0.75 if profile != "perm" else 0.5) and nsub < 4:
            nsub += 1
            if profile == "msg":
                want = rng.choice([47, 47, 63, 255 - 128, 3, 11, 15, 5, 0, 46, 47])
                given = rng.choice([47, 47, 63, 127, 3, 15, 47, 46, 7, 47])
            else:
                want = rng.choice([47, 63, 127, 3, 0, 46, 47, 47, 127, 31])
                given = rng.choice([47, 63, 127, 3, 46, 47, 255, 31, 191, 0])
            if want & given & 128:
                # exactly one effective owner in the seeded state: a pending transfer has O in given only
                want &= ~128
            sc.head.append("subrow %d want=%d given=%d" % (i, want, given))
    s = 0
    for i in range(1, n + 1):
        for _ in range(rng.choice([1, 1, 2])):
            s += 1
            sc.sessions[s] = i
            sc.head.append("sess %d %d" % (s, i))
    return sc


def rand_ranges(rng, last):
    k = rng.choice([1, 1, 2, 2, 3, 4])
    rs = []
    for _ in range(k):
        t = rng.random()
        lo = rng.randint(0, last + 2)
        if t < 0.3:
            hi = 0
        elif t < 0.4:
            hi = lo
        elif t < 0.5:
            hi = lo + 1
        elif t < 0.9:
            hi = lo + rng.randint(1, 4)
        else:
            hi = rng.choice([last + 1, last + 5, 100000, max(0, lo - 1)])
        if rng.random() < 0.03:
            lo = -1
        rs.append("%d:%d" % (lo, hi))
    return ",".join(rs)


def gen_ops(rng, sc, profile, nops, faults):
    sids = sorted(sc.sessions)
    last = 0
    ops = []
    # skeleton: most sessions attach first
    for s in sids:
        if rng.random() < 0.8:
            ops.append(("N", "sub", [s, "-", 0]))
    for _ in range(nops):
        s = rng.choice(sids)
        r = rng.random()
        flt = "N"
        if faults and rng.random() < faults:
            flt = rng.choice(["F", "F", "C"]) + str(rng.randint(1, 4))
        if profile == "msg":
            if r < 0.30:
                ops.append((flt, "pub", [s, 100 + len(ops), 1 if rng.random() < 0.2 else 0]))
                last += 1
            elif r < 0.45:
                what = rng.choice(["read", "recv", "read", "recv", "kp", "xx"])
                seq = 0 if what == "kp" and rng.random() < 0.8 else rng.choice([last, last, last - 1, last + 1, 0, -1, 1, rng.randint(0, last + 1)])
                ops.append(("N" if flt[0] == "C" else flt, "note", [s, what, seq]))
            elif r < 0.58:
                a = rng.choice([0, 0, 1, last, last - 1, rng.randint(0, last + 1)])
                b = rng.choice([0, 0, last + 1, last, rng.randint(0, last + 2)])
                ops.append((flt, "getdata", [s, max(a, 0), max(b, 0), rng.choice([0, 0, 1, 2, 3])]))
            elif r < 0.70:
                ops.append((flt, "delmsg", [s, 1 if rng.random() < 0.5 else 0, rand_ranges(rng, last)]))
            elif r < 0.76:
                ops.append((flt, "getdel", [s, rng.choice([0, 0, 1, 2]), rng.choice([0, 0, 2, 3]), rng.choice([0, 0, 1])]))
            elif r < 0.82:
                ops.append((flt, rng.choice(["getdesc", "getsub"]), [s]))
            elif r < 0.88:
                ops.append(("N", "leave", [s, 0]))
            elif r < 0.94:
                ops.append((flt, "sub", [s, "-", 0]))
            elif r < 0.97:
                ops.append(("N", "unload", []))
            else:
                ops.append(("N", "restart", []))
        else:  # perm
            if r < 0.22:
                m = rng.choice(MODE_STRS + [""] * 6) if rng.random() < 0.93 else rng.choice(JUNK_MODES)
                ops.append((flt, "sub", [s, hx(m), 0]))
            elif r < 0.50:
                tgt = rng.choice([0, 0] + list(range(1, sc.nusers + 1)))
                m = rng.choice(MODE_STRS + [""] * 3) if rng.random() < 0.93 else rng.choice(JUNK_MODES)
                ops.append((flt, "setsub", [s, tgt, hx(m)]))
            elif r < 0.58:
                ops.append((flt, "delsub", [s, rng.randint(1, sc.nusers)]))
            elif r < 0.68:
                ops.append((flt, "leave", [s, 1 if rng.random() < 0.5 else 0]))
            elif r < 0.78:
                ops.append((flt, "pub", [s, 100 + len(ops), 0]))
                last += 1
            elif r < 0.88:
                ops.append((flt, rng.choice(["getdesc", "getsub"]), [s]))
            elif r < 0.92:
                ops.append(("N", "note", [s, rng.choice(["read", "recv"]), rng.randint(0, last + 1)]))
            elif r < 0.97:
                ops.append(("N", "unload", []))
            else:
                ops.append(("N", "restart", []))
    sc.ops = ops
    return sc


def gen_scenarios(ctx, count, profile, faults=0.0, nops=(6, 22), prefix="g"):
    res = []
    for i in range(count):
        sc = gen_setup(ctx.rng, "%s%d" % (prefix, i), profile)
        gen_ops(ctx.rng, sc, profile, ctx.rng.randint(*nops), faults)
        res.append(sc)
    return res


# ---------------------------------------------------------------------------

def parse_blocks(lines):
    """-> {scn id: [op dict]} ; op dict: frames [(sid, text)], pres [...], calls, loaded, store [...], cache [...], hang"""
    res = {}
    cur = None
    op = None
    for ln in lines:
        if not ln:
            continue
        w = ln.split(" ", 1)
        if w[0] == "scn":
            cur = []
            res[w[1]] = cur
        elif w[0] == "op":
            op = {"frames": [], "pres": [], "calls": None, "loaded": None, "store": [], "cache": [], "hang": None, "calllog": ""}
            cur.append(op)
        elif w[0] == "end":
            cur = None
        elif op is None:
            continue
        elif w[0][0] == "S" and w[0][1:].isdigit():
            if w[1].startswith("pres "):
                op["pres"].append((int(w[0][1:]), w[1]))
            else:
                op["frames"].append((int(w[0][1:]), w[1]))
        elif w[0] == "calls":
            op["calls"] = int(w[1])
        elif w[0] == "calllog":
            op["calllog"] = w[1] if len(w) > 1 else ""
        elif w[0] == "loaded":
            op["loaded"] = w[1]
        elif w[0] == "store":
            op["store"].append(w[1])
        elif w[0] == "cache":
            op["cache"].append(w[1])
        elif w[0] == "HANG":
            op["hang"] = ln
    return res


def run_impl(ctx, scns, tag="t"):
    fin = os.path.join(ctx.work, "scn_%s.in" % tag)
    fout = os.path.join(ctx.work, "scn_%s.impl" % tag)
    with open(fin, "w") as f:
        for sc in scns:
            f.write("\n".join(sc.lines()) + "\n")
    if os.path.exists(fout):
        os.remove(fout)
    env = dict(vlib.GOENV, VERIF_IN=fin, VERIF_OUT=fout)
    p = subprocess.run([os.path.join(vlib.BUILD, "maindrv.test"), "-test.run", "^TestVerifTopic$", "-test.count=1", "-test.timeout=3000s"],
                       stdout=subprocess.PIPE, stderr=subprocess.STDOUT, env=env, cwd=os.path.join(vlib.REPO, "server"), timeout=3400)
    out = p.stdout.decode("utf8", "replace")
    lines = open(fout).read().split("\n") if os.path.exists(fout) else []
    log = "\n".join(l for l in out.split("\n") if not (len(l) > 3 and l[0] in "IWE" and l[1:3] == "20"))
    return p.returncode, parse_blocks(lines), log


def run_model(ctx, scns, tag="t"):
    lines = []
    for sc in scns:
        lines += sc.lines()
    rc, out, err = ctx.run_model("topic", lines)
    flat = []
    for o in out:
        flat += o.split("\n")
    return rc, parse_blocks(flat), err


def per_session(frames):
    d = {}
    for sid, t in frames:
        d.setdefault(sid, []).append(t)
    return d


PROJ_ALL = ("frames", "calls", "loaded", "store", "cache")


def diff_op(i_op, m_op, proj=PROJ_ALL, frame_filter=None, line_filter=None):
    """Returns a list of (what, impl, model) differences on the chosen projection."""
    res = []
    if "frames" in proj:
        a, b = per_session(i_op["frames"]), per_session(m_op["frames"])
        if frame_filter:
            a = {s: [t for t in v if frame_filter(t)] for s, v in a.items()}
            b = {s: [t for t in v if frame_filter(t)] for s, v in b.items()}
            a = {s: v for s, v in a.items() if v}
            b = {s: v for s, v in b.items() if v}
        if a != b:
            res.append(("frames", a, b))
    if "calls" in proj and i_op["calls"] != m_op["calls"]:
        res.append(("calls", "%s [%s]" % (i_op["calls"], i_op["calllog"]), m_op["calls"]))
    if "loaded" in proj and i_op["loaded"] != m_op["loaded"]:
        res.append(("loaded", i_op["loaded"], m_op["loaded"]))
    for k in ("store", "cache"):
        if k in proj:
            a, b = i_op[k], m_op[k]
            if line_filter:
                a = [line_filter(k, x) for x in a]
                b = [line_filter(k, x) for x in b]
                a = [x for x in a if x]
                b = [x for x in b if x]
            if a != b:
                res.append((k, [x for x in a if x not in b], [x for x in b if x not in a]))
    return res


def compare(scns, impl, model, proj=PROJ_ALL, frame_filter=None, line_filter=None):
    """first differing op per scenario: list of (scn, op index (0-based), diffs)"""
    mism = []
    for sc in scns:
        io, mo = impl.get(sc.id), model.get(sc.id)
        if io is None or mo is None or len(io) != len(mo) or len(io) != len(sc.ops):
            mism.append((sc, -1, [("shape", None if io is None else len(io), None if mo is None else len(mo))]))
            continue
        for k in range(len(io)):
            d = diff_op(io[k], mo[k], proj, frame_filter, line_filter)
            if d:
                mism.append((sc, k, d))
                break
    return mism


def shrink(ctx, sc, still_bad, budget=60):
    """Delta-debug the op list of scenario sc while still_bad(candidate Scn) holds."""
    import time
    t0 = time.time()
    ops = list(sc.ops)
    chunk = max(1, len(ops) // 2)
    while chunk >= 1 and time.time() - t0 < budget:
        i = 0
        changed = False
        while i < len(ops) and time.time() - t0 < budget:
            cand = ops[:i] + ops[i + chunk:]
            if cand and still_bad(sc.clone(cand)):
                ops = cand
                changed = True
            else:
                i += chunk
        if not changed:
            chunk //= 2
    return sc.clone(ops)
