"""C11 sessions act only within their handshake and authentication state.

Theorems: coq/Props/PropC11.v over coq/Sys/SessionAuth.v (dispatch, hello, login, onLogin,
acc entry conditions, as-user resolution, sender-header scrub), for every guard table that
satisfies table_ok.  Per-run obligation: the guard table regenerated from
server/session.go by harness/translators/dispatch (coq/Gen/GenDispatch.v) satisfies
table_ok (coq/Gen/ObC11.v, vm_compute).  Correspondence: random sequences of the ten client
message kinds through the real Session.dispatchRaw with the real authenticators above
memverif (harness/overlay/server/zz_verif_c11_test.go) against the extracted model; the
property's laws are evaluated on the implementation's own trace."""
import json
import os
import re
import subprocess
import time

import vlib
from props import c11x
from props import c11x

ORDER = ["pub", "sub", "leave", "hi", "login", "get", "set", "del", "acc", "note"]   # case order of the switch
TOPIC_KINDS = ["sub", "leave", "pub", "get", "set", "del", "note"]
LVL = {"": 0, "root": 30, "ROOT": 30, "auth": 20, "AUTH": 20, "anon": 10, "bogus": 0, "Root": 0}
# fixture accounts of the driver: level of the basic record, state of the user row
ACCT = {1: (20, "ok"), 2: (20, "ok"), 3: (20, "susp"), 4: (20, "gone"), 5: (20, "ok"), 6: (30, "ok"), 7: (10, "ok")}
VALIDATED = {2, 6}          # accounts holding a validated credential of the required method
GHOST = 99
PANIC_LAW = "c13-acc-tmpscheme-panic"
LOGOUT_LAW = "obo-sub-missing-user-logs-out-session"

REPLY_NAMES = {
    (200, "ok"): "ok200", (201, "created"): "created201", (300, "challenge"): "chal300",
    (300, "validate_credentials"): "valid300", (400, "malformed"): "malf400",
    (401, "authentication_required"): "authreq401", (401, "authentication_failed"): "authfail401",
    (401, "unknown_authentication_scheme"): "unkscheme401", (403, "permission_denied"): "denied403",
    (409, "already_authenticated"): "already409", (409, "command_out_of_sequence"): "outofseq409",
    (505, "version_not_supported"): "ver505",
}
ERR_REPLY = {"failed": "authfail401", "expired": "authfail401", "malformed": "malf400", "internal": "o500",
             "perm": "denied403", "unsupported": "o501", "policy": "o422", "cred": "valid300", "notfound": "o404",
             "plain": "o500"}


def hx(s):
    return s.encode("utf-8").hex() if s else "-"


def state_word(who):
    """user-row state found by userGetState for a uid token"""
    if who in (GHOST, 0):
        return "eo404"
    st = ACCT[who][1]
    return {"ok": "ok", "susp": "susp", "gone": "eo404"}[st]


class Msg:
    def __init__(self, kind, impl, model, extra_impl="", x="x=-", **info):
        self.kind = kind          # kind of the first top-level field
        self.impl = impl          # words after "m <kind>"
        self.model = model        # model words after the x= word; "{PV}" placeholders for {hi}
        self.extra_impl = extra_impl
        self.x = x
        self.info = info
        self.also = info.get("also")

    def sel(self):
        """the kind the switch of dispatch selects"""
        if self.also and ORDER.index(self.also) < ORDER.index(self.kind):
            return self.also
        return self.kind

    def impl_line(self):
        return ("m %s %s %s" % (self.kind, self.impl, self.extra_impl)).strip()

    def to_json(self):
        return {"kind": self.kind, "impl": self.impl, "model": self.model, "extra_impl": self.extra_impl, "x": self.x,
                "info": self.info}

    @staticmethod
    def from_json(d):
        return Msg(d["kind"], d["impl"], d["model"], d["extra_impl"], d["x"], **d["info"])


class Scn:
    def __init__(self, sid, init, vld, msgs):
        self.id = sid
        self.init = init      # (ver, who, lvl)
        self.vld = vld
        self.msgs = msgs

    def impl_lines(self):
        return ["scn %s init=%d,%d,%d vld=%d" % (self.id, self.init[0], self.init[1], self.init[2], self.vld)] + \
               [m.impl_line() for m in self.msgs] + ["end"]

    def clone(self, msgs, sid=None):
        return Scn(sid or self.id, self.init, self.vld, list(msgs))

    def to_json(self):
        return {"id": self.id, "init": list(self.init), "vld": self.vld, "msgs": [m.to_json() for m in self.msgs]}

    @staticmethod
    def from_json(d):
        return Scn(d["id"], tuple(d["init"]), d["vld"], [Msg.from_json(m) for m in d["msgs"]])


# ---------------------------------------------------------------- generator

VERSIONS = ["0.22", "0.22", "0.22", "0.23", "0.22.1", "", "abc", "0.13", "0.19", "0.18", "v0.22", "1", "0.0", "22",
            "0.22abc", "0.19.7", "1.0", "0.8191", "0.8192", "+0.22"]


def gen_extra(rng, ghost=True, p=0.22, kind=None):
    if rng.random() > p:
        return "", "x=-", {}
    choices = ["a1", "a2", "a6", "a7", "lit:" + hx("junk"), "lit:-", "lit:" + hx("usr")]
    if ghost:
        choices += ["az"] * (4 if kind == "sub" else 1)
    a = rng.choice(choices)
    al = rng.choice(["", "", "root", "auth", "anon", "bogus", "ROOT", "Root"])
    tok = {"a1": 1, "a2": 2, "a6": 6, "a7": 7, "az": GHOST}.get(a, 0)
    impl = "as=%s al=%s" % (a, hx(al))
    if a == "lit:-":
        return impl, "x=-", {"as_empty": True}
    return impl, "x=%d:%d" % (tok, LVL[al]), {"as": tok}


def vld_word(sc_vld, who, lvl, cred):
    if not sc_vld or lvl not in (20, 30):
        return "S"
    if cred == "boom":
        return "E,o500"
    if who in VALIDATED or cred == "good":
        return "S"
    return "M"


def gen_login(rng, vld):
    r = rng.random()
    cred = rng.choice(["-", "-", "-", "good", "bad", "boom"]) if vld else rng.choice(["-", "-", "-", "-", "bad"])
    credw = "" if cred == "-" else " cred=" + cred
    if r < 0.34:
        who = rng.choice([1, 1, 2, 2, 3, 4, 5, 6, 6, 7])
        sch = rng.choice(["basic", "basic", "basic", "BASIC"])
        v = rng.random()
        if v < 0.62:
            sec = "acct%d:pw%d" % (who, who)
            if who == 5:
                auth = "F,authfail401"
            else:
                auth = "R,%d,%d,0,0,%s,0" % (who, ACCT[who][0], state_word(who))
        elif v < 0.85:
            sec, auth = "acct%d:nope" % who, "F,authfail401"
        elif v < 0.93:
            sec, auth = "nobody:pw", "F,authfail401"
        else:
            sec, auth = "acct%d" % who, "F,malf400"
        lvl = ACCT[who][0]
        return "sch=%s sec=raw:%s%s" % (sch, hx(sec), credw), ["login", "-", auth, vld_word(vld, who, lvl, cred)]
    if r < 0.60:
        who = rng.choice([1, 1, 2, 3, 4, 6, 7, GHOST])
        lvl = rng.choice([20, 20, 20, 10, 30, 0])
        feat = rng.choice([0, 0, 0, 1, 2, 2, 3])
        exp = rng.choice(["ok", "ok", "ok", "past"])
        sig = rng.choice(["ok", "ok", "ok", "ok", "bad", "short"])
        if sig == "short":
            auth = "F,malf400"
        elif sig == "bad" or exp == "past":
            auth = "F,authfail401"
        else:
            auth = "R,%d,%d,%d,%d,%s,0" % (who, lvl, feat & 1, (feat >> 1) & 1, state_word(who))
        whow = "z" if who == GHOST else str(who)
        return "sch=token sec=token:%s:%d:%d:%s:%s%s" % (whow, lvl, feat, exp, sig, credw), \
               ["login", "-", auth, vld_word(vld, who, lvl, cred)]
    if r < 0.68:
        who = rng.choice([1, 2, 3, 6])
        ok = rng.random() < 0.7
        auth = "R,%d,0,0,1,%s,0" % (who, state_word(who)) if ok else "F,authfail401"
        return "sch=code sec=code:%d:%s%s" % (who, "ok" if ok else "bad", credw), ["login", "-", auth, "S"]
    if r < 0.86:
        who = rng.choice([1, 1, 2, 3, 4, 6, 7, GHOST, 0])
        lvl = rng.choice([20, 20, 10, 30, 0])
        feat = rng.choice([0, 0, 1, 2, 3])
        st = rng.choice([0, 0, 10, 20, 30, 30])
        chal = 1 if rng.random() < 0.2 else 0
        err = rng.choice(["-"] * 6 + list(ERR_REPLY))
        if err != "-":
            auth = "F," + ERR_REPLY[err]
        else:
            stw = {0: "ok", 10: "susp", 20: "del"}.get(st) or state_word(who)
            auth = "R,%d,%d,%d,%d,%s,%d" % (who, lvl, feat & 1, (feat >> 1) & 1, stw, chal)
        whow = "z" if who == GHOST else str(who)
        return "sch=veriffake sec=fake:%s:%d:%d:%d:%d:%s%s" % (whow, lvl, feat, st, chal, err, credw), \
               ["login", "-", auth, vld_word(vld, who, lvl, cred)]
    if r < 0.92:
        sch = rng.choice(["foo", "RESET", "anonymous", ""])
        auth = "F,o501" if sch == "anonymous" else "U"
        return "sch=%s sec=raw:%s" % (sch or "-", hx("acct1:pw1")), ["login", "-", auth, "S"]
    sec, rep = rng.choice([("x", "malf400"), ("foo:email:x", "o501"), ("basic:nosuch:x", "o501"),
                           ("basic:email:nobody@example.com", "o301")])
    return "sch=reset sec=raw:%s" % hx(sec), ["login", rep, "U", "S"]


class Names:
    n = 0


def gen_acc(rng, vld, x):
    r = rng.random()
    target_tok = None
    if r < 0.5:
        # new account
        user = rng.choice(["new", "new", "newabc"])
        login = 1 if rng.random() < 0.6 else 0
        v = rng.random()
        cred = "-"
        if v < 0.55:
            sch, sec, cr = "anonymous", "-", "C,0,10,0,0"
        elif v < 0.70:
            Names.n += 1
            name = "vu%dx%d" % (Names.n, int(time.time() * 1000) % 100000)
            sch, sec = "basic", "raw:" + hx(name + ":secret")
            if vld:
                cred = rng.choice(["-", "val", "good"])
                cr = {"-": "X,o422", "val": "C,0,20,0,1", "good": "C,0,20,0,0"}[cred]
            else:
                cr = "C,0,20,0,0"
        elif v < 0.80:
            sch, sec, cr = "basic", "raw:" + hx("acct1:zzz"), "X,o409"
        elif v < 0.88:
            sch, sec, cr = "basic", "raw:" + hx("nocolon"), "X,malf400"
        elif v < 0.94:
            sch, sec, cr = rng.choice(["foo", "-"]), "-", "X,malf400"
        else:
            sch, sec, cr = "token", "-", "X,o501"
        tmp = ""
        if rng.random() < 0.15:
            tmp = " tmpsch=foo tmpsec=raw:" + hx("x")      # ignored for new accounts
        credw = "" if cred == "-" else " cred=" + cred
        impl = "user=%s sch=%s sec=%s login=%d%s%s" % (user, sch, sec, login, tmp, credw)
        return impl, ["acc", "1", str(login), "N", cr, "-", "0", "malf400"]
    # update of an existing account (side-effect free: unknown scheme "foo" -> 400 once the entry conditions hold)
    tgt = rng.choice(["-", "-", "a1", "a2", "a6", "az", "lit:" + hx("junk")])
    target_tok = {"-": None, "a1": 1, "a2": 2, "a6": 6, "az": GHOST}.get(tgt, 0)
    state = rng.random() < 0.25
    v = rng.random()
    if v < 0.6:
        tmpi, tmpm = "", "N"
    elif v < 0.72:
        tmpi, tmpm = " tmpsch=foo tmpsec=raw:" + hx("x"), "U"
    elif v < 0.82:
        tmpi, tmpm = " tmpsch=token tmpsec=token:1:20:0:ok:bad", "F,authfail401"
    elif v < 0.88:
        tmpi, tmpm = " tmpsch=anonymous tmpsec=raw:" + hx("x"), "F,o501"
    else:
        who = rng.choice([1, 2])
        tmpi, tmpm = " tmpsch=token tmpsec=token:%d:20:2:ok:ok" % who, "R,%d,20" % who
    upd = "o404" if target_tok == GHOST else "malf400"
    impl = "user=%s sch=foo sec=- login=0 state=%s%s" % (tgt, "suspended" if state else "-", tmpi)
    return impl, ["acc", "0", "0", tmpm, "X,malf400", "-" if target_tok is None else str(target_tok), "1" if state else "0", upd]


def gen_topic(rng, kind, as_tok=None):
    topic = rng.choice(["grp", "grp", "grp", "me", "me", "fnd", "lit:" + hx("xyz")])
    sender = "-"
    impl = "topic=" + topic
    if kind == "pub":
        s = rng.choice(["-", "-", "a1", "a2", "a6", "lit:" + hx("usrJunk")])
        sender = {"-": "-", "a1": "1", "a2": "2", "a6": "6"}.get(s, "0")
        impl += " sender=" + s + (" mime=1" if rng.random() < 0.5 else "")
        if topic in ("me", "fnd"):
            impl = impl.replace("topic=" + topic, "topic=grp")
    elif kind == "get":
        impl += " what=" + rng.choice(["desc", "data", "sub"])
    elif kind == "note":
        w = rng.choice(["kp", "read", "recv"])
        impl += " what=%s seq=%d" % (w, 0 if w == "kp" else 1)
    # the topic initialisers of 'me' / 'fnd' zero Session.uid when the ACTING user's account does not exist
    logout = "1" if (kind == "sub" and topic in ("me", "fnd") and as_tok == GHOST) else "0"
    return impl, [kind, sender, logout]


def gen_msg(rng, vld, kind=None):
    if kind is None:
        kind = rng.choice(["hi"] * 5 + ["login"] * 7 + ["acc"] * 4 + ["sub"] * 3 + ["pub"] * 3 + ["get", "set", "del", "leave", "note", "note"])
    ximpl, x, xinfo = gen_extra(rng, ghost=(kind != "acc"), kind=kind)
    also = None
    if kind == "hi":
        v = rng.choice(VERSIONS)
        m = Msg("hi", "ver=" + hx(v), ["hi", "1" if v == "" else "0", "{PV}", "{SUP}"], ximpl, x, **xinfo)
    elif kind == "login":
        impl, model = gen_login(rng, vld)
        m = Msg("login", impl, model, ximpl, x, **xinfo)
    elif kind == "acc":
        impl, model = gen_acc(rng, vld, x)
        m = Msg("acc", impl, model, ximpl, x, **xinfo)
    else:
        impl, model = gen_topic(rng, kind, xinfo.get("as"))
        m = Msg(kind, impl, model, ximpl, x, **xinfo)
    if rng.random() < 0.04 and kind != "hi":
        # a second top-level field {hi}: the switch takes the first matching case
        m.also = "hi"
        m.info["also"] = "hi"
        m.impl += " also=hi"
        if m.sel() == "hi":
            m.model = ["hi", "0", "{PV}", "{SUP}"]
    return m


INITS = [(0, 0, 0)] * 12 + [(5632, 0, 0)] * 3 + [(5632, 1, 20), (5632, 2, 20), (5632, 6, 30), (5632, 6, 30), (5632, 7, 10),
                                                   (0, 1, 20), (0, 6, 30), (5632, 1, 30), (5632, 0, 30), (5888, 1, 20), (5632, 1, 0)]

SKELETONS = [
    ["hi", "login", "sub", "pub"], ["login", "hi", "login"], ["hi", "hi", "hi"], ["hi", "login", "login"],
    ["hi", "acc", "sub"], ["pub", "sub", "note", "hi"], ["hi", "sub", "get", "login", "sub", "pub", "get"],
    ["hi", "login", "sub", "pub", "pub", "get"], ["acc", "hi", "acc", "acc"], ["hi", "note", "login", "note"],
]


def m_hi(v="0.22"):
    return Msg("hi", "ver=" + hx(v), ["hi", "1" if v == "" else "0", "{PV}", "{SUP}"])


def m_login_basic(who):
    auth = "F,authfail401" if who == 5 else "R,%d,%d,0,0,%s,0" % (who, ACCT[who][0], state_word(who))
    return Msg("login", "sch=basic sec=raw:%s" % hx("acct%d:pw%d" % (who, who)), ["login", "-", auth, "S"])


def m_sub_obo(topic, who_word, tok):
    return Msg("sub", "topic=" + topic, ["sub", "-", "1" if (topic in ("me", "fnd") and tok == GHOST) else "0"],
               "as=%s al=-" % who_word, "x=%d:0" % tok, **{"as": tok})


def gen_scenario(rng, sid):
    init = rng.choice(INITS)
    vld = 1 if rng.random() < 0.18 else 0
    n = rng.randint(1, 12)
    msgs = []
    if rng.random() < 0.05:
        # a root session acting on behalf of existing and missing users
        init, vld = (0, 0, 0), 0
        msgs = [m_hi(), m_login_basic(6), m_sub_obo(rng.choice(["me", "fnd", "grp"]), rng.choice(["az", "az", "a2"]), 0)]
        w = msgs[2].extra_impl.split()[0][3:]
        tok = GHOST if w == "az" else 2
        msgs[2] = m_sub_obo(msgs[2].impl.split("=")[1], w, tok)
        msgs.append(m_sub_obo("grp", "a2", 2))
        msgs.append(gen_msg(rng, vld, "pub"))
        msgs.append(m_login_basic(1))
        n = max(n, 6)
    elif rng.random() < 0.55:
        for k in rng.choice(SKELETONS):
            msgs.append(gen_msg(rng, vld, k))
    while len(msgs) < n:
        msgs.append(gen_msg(rng, vld))
    return Scn(sid, init, vld, msgs[:12])


# ---------------------------------------------------------------- running

def run_impl(ctx, scns, tag="main"):
    fin = os.path.join(ctx.work, "c11_%s_in.txt" % tag)
    fout = os.path.join(ctx.work, "c11_%s_out.txt" % tag)
    lines = []
    for sc in scns:
        lines += sc.impl_lines()
    open(fin, "w").write("\n".join(lines) + "\n")
    if os.path.exists(fout):
        os.remove(fout)
    env = dict(vlib.GOENV, VERIF_IN=fin, VERIF_OUT=fout)
    try:
        p = subprocess.run([os.path.join(vlib.BUILD, "maindrv.test"), "-test.run", "^TestVerifC11$", "-test.count=1"],
                           stdout=subprocess.PIPE, stderr=subprocess.STDOUT, timeout=3000, env=env,
                           cwd=os.path.join(vlib.REPO, "server"))
        rc, log = p.returncode, p.stdout.decode("utf-8", "replace")
    except subprocess.TimeoutExpired:
        rc, log = 124, "timeout"
    res, env_kv, cur = {}, {}, None
    if os.path.exists(fout):
        for l in open(fout, errors="replace").read().split("\n"):
            if l.startswith("env "):
                env_kv = dict(w.split("=", 1) for w in l.split()[1:])
            elif l.startswith("scn "):
                cur = []
                res[l.split()[1]] = cur
            elif l.startswith("r ") and cur is not None:
                cur.append(parse_impl_row(l[2:]))
    return rc, res, env_kv, log


def parse_impl_row(l):
    if l == "skipped":
        return None
    f = l.split("|")
    st = tuple(int(x) for x in f[0].split(","))
    reps = []
    for r in [x for x in f[1].split("+") if x]:
        code, rest = r.split(":", 1)
        text, hasid = rest.rsplit(":", 1)
        reps.append((REPLY_NAMES.get((int(code), text), "o" + code), hasid == "1"))
    kv = {}
    for w in f[3:]:
        if "=" in w:
            k, v = w.split("=", 1)
            kv[k] = v
    return {"state": st, "replies": reps, "panic": f[2] != "0" and f[2].startswith("PANIC"), "panic_text": f[2],
            "hang": "HANG" in f[2], "subs": [x for x in kv.get("subs", "").split(",") if x],
            "data": [x for x in kv.get("data", "").split(",") if x], "stored": kv.get("stored", "-"),
            "pv": int(kv["pv"]) if "pv" in kv else None}


def model_line(sc, rows, minver):
    words = ["S", str(sc.init[0]), str(sc.init[1]), str(sc.init[2])]
    for k, m in enumerate(sc.msgs):
        mw = list(m.model)
        if mw[0] == "sub":
            # oracle read from the driver: did the topic initialiser zero Session.uid (the handler is outside the
            # model; whether that side effect is legitimate is judged by the monitor, not by the model)
            prev = rows[k - 1]["state"] if k > 0 and rows[k - 1] is not None else tuple(sc.init)
            cur = rows[k]["state"] if k < len(rows) and rows[k] is not None else prev
            mw[2] = "1" if (prev[1] != 0 and cur[1] == 0 and (cur[0], cur[2]) == (prev[0], prev[2])) else "0"
        if "{PV}" in mw:
            pv = rows[k]["pv"] if k < len(rows) and rows[k] is not None and rows[k]["pv"] is not None else 0
            mw = [("%d" % pv) if w == "{PV}" else (("1" if (pv >> 8) >= (minver >> 8) else "0") if w == "{SUP}" else w) for w in mw]
        words += [";", m.x] + mw
    return " ".join(words)


def parse_model(line):
    rows = []
    for blk in line.split(" ; "):
        f = blk.split("|")
        if len(f) < 5:
            return None
        st = tuple(int(x) for x in f[0].split(","))
        call = None
        if f[2] != "-":
            c = f[2].split(",")
            call = {"kind": c[0], "user": int(c[1]), "level": int(c[2]), "sender": c[3]}
        rows.append({"state": st, "replies": [x for x in f[1].split("+") if x], "call": call, "panic": f[3] == "1",
                     "grants": None if f[4] == "-" else tuple(int(x) for x in f[4].split(","))})
    return rows


DISPATCH_REFUSALS = {("outofseq409", True), ("authreq401", True), ("denied403", False), ("malf400", False)}


def compare(sc, irows, mrows):
    """first disagreement on the projection of C11: state after every message, dispatch-level and
    hi/login/acc replies, handler reached or not, acting user / sender header where observable"""
    if mrows is None or len(mrows) != len(sc.msgs):
        return (-1, "model produced no answer")
    prev_subs = []
    for k, m in enumerate(sc.msgs):
        if k >= len(irows):
            return (k, "implementation produced no row")
        ir, mr = irows[k], mrows[k]
        if ir is None:
            return None
        if ir["panic"]:
            if not mr["panic"]:
                return (k, "implementation panicked, model does not: %s" % ir["panic_text"])
            return None
        if ir["state"] != mr["state"]:
            return (k, "state after message: impl %s model %s" % (ir["state"], mr["state"]))
        names = [n for n, _ in ir["replies"]]
        sel = m.sel()
        if mr["call"] is None or sel in ("hi", "login", "acc"):
            if names != mr["replies"]:
                return (k, "replies: impl %s model %s" % (names, mr["replies"]))
            if mr["call"] is None and any((n in ("denied403", "malf400")) and hasid for n, hasid in ir["replies"]) \
                    and m.x != "x=-":
                return (k, "as-user refusal carries a message id: %s" % ir["replies"])
        else:
            if sel != "note" and len(ir["replies"]) == 1 and ir["replies"][0] in DISPATCH_REFUSALS:
                return (k, "model reaches the handler, implementation refused at dispatch: %s" % ir["replies"])
            if sel == "pub" and ir["stored"] != "-":
                frm, snd = ir["stored"].split(":")
                want_snd = mr["call"]["sender"]
                if int(frm) != mr["call"]["user"] or snd != want_snd:
                    return (k, "stored message from=%s sender=%s, model acting user %d sender %s" % (frm, snd, mr["call"]["user"], want_snd))
            if sel == "sub":
                new = [s for s in ir["subs"] if s not in prev_subs and s.startswith("me")]
                if new and new != ["me%d" % mr["call"]["user"]]:
                    return (k, "attached %s, model acting user %d" % (new, mr["call"]["user"]))
        prev_subs = ir["subs"]
    return None


# ---------------------------------------------------------------- monitors (on the implementation's trace only)

def full_success(m):
    """does the driver KNOW this message presents credentials that must authenticate (oracle knowledge only)"""
    mw = m.model
    if m.sel() == "login" and mw[0] == "login":
        if mw[1] != "-" or not mw[2].startswith("R,"):
            return None
        _, u, l, v, nl, st, ch = mw[2].split(",")
        if st != "ok" or ch == "1" or nl == "1":
            return None
        if v != "1" and mw[3] != "S":
            return None
        return (int(u), int(l))
    if m.sel() == "acc" and mw[0] == "acc" and mw[1] == "1" and mw[2] == "1" and mw[4].startswith("C,"):
        _, u, l, nl, mi = mw[4].split(",")
        if nl == "0" and mi == "0":
            return ("new", int(l))
    return None


def monitor(sc, irows):
    res = []
    st = tuple(sc.init)
    subs = []
    fresh = tuple(sc.init) == (0, 0, 0)
    wf = True
    logins = 1 if sc.init[1] != 0 else 0
    shaken = sc.init[0] != 0
    for k, m in enumerate(sc.msgs):
        if k >= len(irows) or irows[k] is None:
            break
        r = irows[k]
        sel = m.sel()
        has_as = "as" in m.info
        if r["panic"]:
            if sel == "acc" and "tmpsch=foo" in m.impl and "user=new" not in m.impl:
                res.append((PANIC_LAW, k, "panic in Session.acc after an unknown tmpscheme: " + r["panic_text"]))
            else:
                res.append(("dispatch-panics", k, "panic in dispatch: " + r["panic_text"]))
            break
        if r["hang"]:
            res.append(("hang", k, r["panic_text"]))
        after = r["state"]
        names = [n for n, _ in r["replies"]]
        effect = (r["subs"] != subs) or r["stored"] != "-" or bool(r["data"])
        ver, uid, lvl = st
        # handshake as the CLIENT saw it: a {hi} answered with a 2xx reply (independent of the session's own fields)
        if sel == "hi" and any(n in ("created201", "ok200") for n in names):
            shaken = True
        if not shaken and ver != 0 and sel != "hi":
            ok = (not effect) and after == st and (names == [] if (sel == "note" and not has_as) else
                                                   (len(names) == 1 and names[0] in ("outofseq409", "authreq401", "denied403", "malf400")))
            if not ok:
                res.append(("pre-hi-refused", k, "no {hi} was answered with success on this session, yet {%s} got %s, state %s -> %s, effect=%s" % (sel, names, st, after, effect)))
        if ver == 0 and sel != "hi":
            ok = after == st and not effect
            # the property demands a refusal; which 4xx is the code's choice (the exact code is the model's business)
            if sel == "note" and not has_as:
                ok = ok and names == []
            elif not has_as:
                ok = ok and names in (["outofseq409"], ["authreq401"])
            elif sel == "note":
                ok = ok and names in ([], ["denied403"], ["malf400"])
            else:
                ok = ok and len(names) == 1 and names[0] in ("outofseq409", "authreq401", "denied403", "malf400")
            if not ok:
                res.append(("pre-hi-refused", k, "before the handshake {%s} got %s, state %s -> %s, effect=%s" % (sel, names, st, after, effect)))
        elif uid == 0 and lvl != 30 and sel not in ("hi", "login", "acc"):
            ok = after == st and not effect
            if sel == "note" and not has_as:
                ok = ok and names == []
            elif not has_as:
                ok = ok and names in (["authreq401"], ["outofseq409"])
            elif sel == "note":
                ok = ok and names in ([], ["denied403"], ["malf400"])
            else:
                ok = ok and len(names) == 1 and names[0] in ("authreq401", "outofseq409", "denied403", "malf400")
            if not ok:
                res.append(("pre-login-refused", k, "before login {%s} got %s, state %s -> %s, effect=%s" % (sel, names, st, after, effect)))
        if uid != 0 and sel == "login":
            if after != st or any(n in ("ok200",) for n in names) and m.model[1] == "-":
                res.append(("login-once", k, "second login on an authenticated session: %s, state %s -> %s" % (names, st, after)))
        if sel in ("login", "acc") and uid == 0 and full_success(m) is None and (after[1], after[2]) != (uid, lvl):
            res.append(("failed-login-no-auth", k, "credentials that must not authenticate changed the session: %s -> %s (%s)" % (st, after, m.impl)))
        if sel == "sub" and has_as and uid != 0 and after == (ver, 0, lvl):
            # everything after this point is a consequence of the same defect (logged-out session that keeps its level)
            res.append((LOGOUT_LAW, k, "{sub} on behalf of a user whose account does not exist zeroed the uid of the requesting session and kept its level: %s -> %s; the session can then log in a second time" % (st, after)))
            break
        own_logout = sel == "sub" and not has_as and uid != 0 and after == (ver, 0, lvl)
        if own_logout:
            pass        # the session's own account is gone: logging it out is legitimate
        elif sel not in ("hi", "login", "acc") and after != st:
            res.append(("state-changes-only-at-hi-login-acc", k, "{%s} changed the session state %s -> %s" % (sel, st, after)))
        if ver != 0 and after[0] != ver:
            res.append(("version-fixed", k, "protocol version changed after the handshake: %d -> %d" % (ver, after[0])))
        if uid == 0 and after[1] != 0:
            logins += 1
            if logins > 1:
                res.append(("login-at-most-once-per-session", k, "the session was authenticated %d times" % logins))
        if (uid, lvl) != (after[1], after[2]) and not own_logout:
            if uid != 0:
                res.append(("login-once", k, "the user or level of an authenticated session changed: %s -> %s" % (st, after)))
            fs = full_success(m)
            if fs is not None and (fs[0] == 0 or fs[1] == 0):
                wf = False      # the oracle outcome itself names no user / no level (never issued by the server)
            elif after[1] == 0 or after[2] == 0:
                res.append(("auth-outcome-wellformed", k, "authentication produced user %d level %d" % (after[1], after[2])))
        # acting user: effects attributed to another user need a root session
        if has_as and lvl != 30:
            if not (len(names) == 1 and names[0] == "denied403" and not r["replies"][0][1] and not effect and after == st):
                res.append(("as-user-root-only", k, "non-root session (level %d) supplied extra.asUser: replies %s effect=%s" % (lvl, r["replies"], effect)))
        for rec in ([r["stored"]] if r["stored"] != "-" else []) + r["data"]:
            frm, snd = rec.split(":")
            if sel == "pub":
                if frm != str(uid) and lvl != 30:
                    res.append(("acts-as-session-user", k, "message attributed to user %s by a level-%d session of user %d" % (frm, lvl, uid)))
                want = "-" if frm == str(uid) else str(uid)
                if snd != want:
                    res.append(("sender-header-server-owned", k, "head.sender=%s on a message from %s sent by the session of user %d (client supplied %s)"
                                % (snd, frm, uid, m.model[1] if len(m.model) > 1 else "-")))
        for s in r["subs"]:
            if s not in subs and s.startswith("me") and s != "me%d" % uid and lvl != 30:
                res.append(("acts-as-session-user", k, "level-%d session of user %d attached to %s" % (lvl, uid, s)))
        if sel == "sub" and "ok200" in names and (uid == 0 or ver == 0) and not has_as:
            res.append(("privileged-op-needs-auth", k, "{sub} succeeded on a session in state %s" % (st,)))
        if fresh and wf and after[1] != 0 and (after[0] == 0 or after[2] == 0):
            res.append(("invariant-auth-implies-handshake-and-level", k, "state %s reached from a fresh connection" % (after,)))
        st = after
        subs = r["subs"]
    return res


# ---------------------------------------------------------------- translator + per-run obligation

def pregen():
    rc, out = vlib.sh("bash %s" % os.path.join(vlib.ROOT, "tools", "pregen.d", "c11.sh"),
                      env=dict(vlib.GOENV, VERIF_REPO=vlib.REPO))
    return rc, out


def shrink(ctx, sc, law, budget):
    cur = sc
    tries = 0
    changed = True
    while changed and tries < budget:
        changed = False
        for i in range(len(cur.msgs) - 1, -1, -1):
            if tries >= budget or len(cur.msgs) <= 1:
                break
            cand = cur.clone(cur.msgs[:i] + cur.msgs[i + 1:], "shr")
            tries += 1
            rc, im, _, _ = run_impl(ctx, [cand], tag="shrink")
            if rc == 0 and "shr" in im and any(l == law for l, _, _ in monitor(cand, im["shr"])):
                cur = cand
                changed = True
    return cur


def run(ctx):
    quick = ctx.tier == "quick"
    rc, out = pregen()
    gen_ok = rc == 0
    proof = ctx.coq_props(extra_files=[os.path.join("Gen", "ObC11.v")] if gen_ok and os.path.exists(os.path.join(vlib.COQ, "Gen", "ObC11.v")) else [])
    ctx.coverage["extra_obligations"] = 1
    ob_ok = gen_ok and proof["build_ok"] and not proof["failed"]
    ctx.coverage["extra_discharged"] = 1 if ob_ok else 0
    gd = os.path.join(vlib.COQ, "Gen", "GenDispatch.v")
    gen_text = open(gd).read() if os.path.exists(gd) else ""
    if not gen_ok:
        ctx.violation("proof", "translator-failed", "harness/translators/dispatch did not produce coq/Gen/GenDispatch.v: " + out[-1500:],
                      {"theorem_or_obligation": "translation of Session.dispatch"})
    elif not ctx.proof_ok() and proof["failed"] and ("ObC11" in proof["failed"] or "GenDispatch" in proof["failed"]):
        bad = re.findall(r"Unrecognised \"([^\"]*)\"", gen_text) + \
            ["%s does not have the known shape" % f for f in re.findall(r"(gd_\w+) := false", gen_text)]
        ctx.violation("proof", "guard-table-obligation",
                      "the guard table regenerated from server/session.go no longer satisfies table_ok (coq/Gen/ObC11.v): %s; %s"
                      % ("; ".join(bad[:5]) if bad else "an entry differs from the demanded guards", proof["failed"][-600:]),
                      {"theorem_or_obligation": "Gen/ObC11.v: table_ok gen_table = true", "generated": gen_text[-3000:]})
    else:
        vlib.proof_violation(ctx)
    ok, out = ctx.build_runner()
    if not ok:
        ctx.violation("proof", "extraction-broken", "model extraction/runner build failed: " + out[-1500:],
                      {"theorem_or_obligation": "extraction of the model"})
        ctx.finish()
    ok, out = ctx.build_main()
    if not ok:
        ctx.violation("corr", "harness-build-broken", "package-main driver no longer builds against /repo: " + out[-1500:],
                      {"correspondence": "build of harness/overlay against /repo/server"})
        ctx.finish()
    xreplay = None
    if ctx.replay:
        rp = json.load(open(ctx.replay))
        scns = [Scn.from_json(r["scenario"]) for r in [rp["replay"]] + rp.get("more_cases", []) if isinstance(r, dict) and "scenario" in r]
        xreplay = [c11x.XScn.from_json(r["scenario_c11x"]) for r in [rp["replay"]] + rp.get("more_cases", [])
                   if isinstance(r, dict) and r.get("scenario_c11x")]
        if not scns:
            # a replay of the sender-header layer only
            c11x.run_layer(ctx, xreplay)
            ctx.finish()
    else:
        scns = []
        cdir = os.path.join(vlib.ROOT, "corpus", ctx.pid)
        if os.path.isdir(cdir):
            for f in sorted(os.listdir(cdir)):
                sc = Scn.from_json(json.load(open(os.path.join(cdir, f))))
                sc.id = "c_" + f.split(".")[0]
                scns.append(sc)
        total = 700 if quick else 12000
        for i in range(total):
            scns.append(gen_scenario(ctx.rng, "s%d" % i))
    t0 = time.time()
    rc, impl, env_kv, log = run_impl(ctx, scns)
    t_impl = time.time() - t0
    bad = next((sc for sc in scns if sc.id not in impl or len(impl[sc.id]) != len(sc.msgs)), None)
    if rc != 0 or bad is not None:
        ctx.violation("monitor", "server-crashed", "the server process died or stopped answering while running scenario %s: %s"
                      % (bad.id if bad else "?", log[-1500:]),
                      {"scenario": bad.to_json() if bad else None, "log": log[-4000:]})
        ctx.finish()
    minver = int(env_kv.get("minver", "0"))
    rcm, mout, err = ctx.run_model("c11", [model_line(sc, impl[sc.id], minver) for sc in scns])
    if rcm != 0 or len(mout) != len(scns):
        ctx.violation("proof", "runner-crashed", "model runner failed: " + err[-1500:], {"theorem_or_obligation": "model runner"})
        ctx.finish()
    model = {sc.id: parse_model(l) for sc, l in zip(scns, mout)}

    fails = {}
    for sc in scns:
        for law, k, detail in monitor(sc, impl[sc.id]):
            fails.setdefault(law, []).append((sc, k, detail))
    nshr = 0
    for law, lst in fails.items():
        sc, k, detail = min(lst, key=lambda x: x[1])
        small = sc.clone(sc.msgs[:k + 1])
        if nshr < 4 and not ctx.replay:
            nshr += 1
            small = shrink(ctx, small, law, 20 if quick else 80)
        ctx.violation("monitor", law, "law %s fails on the implementation's trace (%d scenarios this run): %s; messages: %s"
                      % (law, len(lst), detail, " | ".join(m.impl_line() for m in small.msgs)),
                      {"scenario": small.to_json(), "law": law, "detail": detail, "scenarios_failing": len(lst)})
    mism = []
    for sc in scns:
        d = compare(sc, impl[sc.id], model[sc.id])
        if d:
            mism.append((sc, d[0], d[1]))
    searched = 0
    real_fails = [l for l in fails if l not in (PANIC_LAW, LOGOUT_LAW)]
    if mism and not real_fails:
        sc, k, d = min(mism, key=lambda x: len(x[0].msgs))
        base = sc.clone(sc.msgs[:k + 1] if k >= 0 else sc.msgs)
        pool = []
        for j in range(60 if quick else 600):
            tail = [gen_msg(ctx.rng, base.vld) for _ in range(ctx.rng.randint(1, 5))]
            keep = list(base.msgs)
            if ctx.rng.random() < 0.5 and len(keep) > 1:
                del keep[ctx.rng.randrange(len(keep))]
            pool.append(Scn("n%d" % j, base.init, base.vld, (keep + tail)[:14]))
        rc2, im2, _, _ = run_impl(ctx, pool, tag="search")
        searched = len(pool)
        found = False
        if rc2 == 0:
            for c in pool:
                if c.id in im2:
                    for law, kk, detail in monitor(c, im2[c.id]):
                        if law in (PANIC_LAW, LOGOUT_LAW):
                            continue
                        ctx.violation("monitor", law, "law %s fails on the implementation's trace: %s; messages: %s"
                                      % (law, detail, " | ".join(m.impl_line() for m in c.msgs[:kk + 1])),
                                      {"scenario": c.clone(c.msgs[:kk + 1]).to_json(), "law": law, "detail": detail,
                                       "found_by": "search near a correspondence mismatch"})
                        found = True
                        break
                if found:
                    break
        if not found:
            ctx.violation("corr", "correspondence-" + (sc.msgs[k].sel() if k >= 0 else "shape"),
                          "model and implementation disagree on %d of %d scenarios on this property's projection; first (prefix): message %d {%s}: %s; messages: %s; no law failure found on %d neighbouring histories"
                          % (len(mism), len(scns), k, sc.msgs[k].sel() if k >= 0 else "", d,
                             " | ".join(m.impl_line() for m in base.msgs), searched),
                          {"correspondence": "projection of C11 (state after each message, dispatch-level and hi/login/acc replies, handler reached, acting user, sender header)",
                           "scenario": base.to_json(), "diff": d})
    # part x: who chooses head.sender, on every route (tools/props/c11x.py)
    if xreplay is None or xreplay:
        c11x.run_layer(ctx, xreplay)
    # coverage
    kinds, replies, states, inits = {}, {}, {}, {}
    nmsgs = 0
    nt = set()
    for sc in scns:
        inits[str(sc.init)] = inits.get(str(sc.init), 0) + 1
        sig = []
        authed = False
        for k, m in enumerate(sc.msgs):
            r = impl[sc.id][k]
            if r is None:
                break
            nmsgs += 1
            kinds[m.sel()] = kinds.get(m.sel(), 0) + 1
            for n, _ in r["replies"]:
                replies[n] = replies.get(n, 0) + 1
            cls = "ver%s-uid%s-lvl%d" % ("0" if r["state"][0] == 0 else "+", "0" if r["state"][1] == 0 else "+", r["state"][2])
            states[cls] = states.get(cls, 0) + 1
            authed = authed or (r["state"][1] != 0 and tuple(sc.init)[1] == 0)
            sig.append((m.impl_line(), tuple(r["replies"]), r["state"]))
        if authed:
            nt.add(hash(tuple(map(repr, sig))))
    ctx.coverage.update({
        "evaluations": len(scns), "distinct_nontrivial": len(nt),
        "rule": "seeded random sequences of 1-12 client messages (all ten kinds; ~55% start from boundary skeletons: login before hi, hi twice, login twice, acc with login, pub/sub before hi) on sessions preset to fresh or arbitrary (ver, uid, level) states incl. unreachable ones; logins through the real basic/token/code/anonymous authenticators (right/wrong/expired/suspended/deleted/ghost accounts, no-login and validated feature bits, forged and truncated tokens) and a fake authenticator spanning the remaining outcomes (challenge, every store error, record-supplied state); 18% of scenarios with a required credential validator; extra.asUser/authLevel on 22% of messages; 4% of messages carry a second top-level field; non-trivial = a session that starts unauthenticated becomes authenticated; distinct by (messages, replies, states)",
        "messages_executed": nmsgs,
        "samples": [{"scenario": sc.to_json()["msgs"][:4], "init": sc.init, "impl_rows": [r and {"state": r["state"], "replies": r["replies"]} for r in impl[sc.id][:4]]} for sc in scns[:2]],
        "traces_validated_against_impl": len(scns), "correspondence_mismatches": len(mism),
        "monitor_failures": sum(len(v) for v in fails.values()), "search_pool": searched,
        "input_distribution": {"selected_kinds": kinds, "reply_names": replies, "states_after_message": states, "initial_states": inits,
                               "min_supported_version": minver},
        "generated_guard_table": re.findall(r"Entry [^;\]]*", gen_text)[:12],
        "impl_wall_s": round(t_impl, 1),
        "trusted_base": [
            "harness/translators/dispatch (go/parser + go/ast): renders the switch of Session.dispatch, the checkVers/checkUser closures, the first guard of Session.note and the as-user branch; fails closed (Unrecognised entry) on any other shape",
            "harness/overlay/server/zz_verif_c11_test.go: real Session.dispatchRaw, real authenticators basic/token/code/anonymous initialised as in main.go above memverif; fake authenticator 'veriffake' and fake validator 'verifcred' are harness code",
            "oracle inputs of the model (what the driver knows about the credentials it sends: account state, password right/wrong, token fields, validator state) are computed in tools/props/c11.py; parseVersion's result and minSupportedVersion are read from the driver",
            "tools/props/c11.py monitors: python restatement of the property's laws on the implementation's trace",
            "harness/overlay/server/zz_verif_c11x_test.go + tools/props/c11x.py (sender-header layer): real dispatchRaw / hub / topics above memverif; stored rows read through memverif.DumpTopic, {data} frames at the publisher and at persistent observer sessions; whether the topic accepted the message (q_gates) and whether the session was attached (q_attached, read as s.getSub(expandTopicName) before the request) are oracle inputs of the model read from the run; nil and empty head maps are not distinguished in the comparison; the blanking of {data}.from for channel readers (prepareBroadcastableMessage) is outside the model: such a frame is judged against the From of the stored row",
            "not modelled: device id / language handling of {hi}, cluster proxying, plugins (pluginFireHose), the bodies of the seven topic handlers (only whether they are reached, with which acting user, and the {pub} sender header)",
        ],
    })
    ctx.finish(extra_assumptions=[
        "history-level 'a session logs in at most once' and 'refused before login on every reachable state' are proved as *_partial under 'no log-out side effect of the me/fnd topic initialisers in the history'; the full statements are refuted in Coq (c11_login_once_history_refuted, c11_pre_login_reachable_refuted) and on the code (finding obo-sub-missing-user-logs-out-session)",
        "c11_hist_level / c11_unauth_level_partial assume wf_msg: a granting outcome names a non-zero user and a level other than none (checked on the implementation by monitor auth-outcome-wellformed for the real authenticators)",
        "c11_pre_login holds for every state whose level is not root (a state with uid = 0 and level root honours extra.asUser; it is reachable only through the finding above)",
    ])
