"""C01, several requests in flight (model coq/Sys/TopicBurstC01.v, runner r_c01b.ml, driver
zz_verif_c01b_test.go): bursts of publishes dispatched back to back with the write loops of some
sessions held until the burst has been handled (frames serialised at dequeue time), and the
idle-unload race between an unregistered topic instance and the instance loaded after it.
Used by tools/props/c01.py (run_flight)."""
import json
import os
import re
import subprocess
import time
import vlib
from props import statelib
from props import topiclib as T
from props.statelib import kvs


class BScn(T.Scn):
    def clone(self, ops):
        s = BScn(self.id)
        s.head, s.nusers, s.sessions = self.head, self.nusers, self.sessions
        s.ops = list(ops)
        return s


# ---------------------------------------------------------------------------------------------
# generator

def gen_flight(rng, sid, faults):
    base = T.gen_setup(rng, sid, "msg")
    sc = BScn(sid)
    sc.head, sc.nusers, sc.sessions = base.head, base.nusers, base.sessions
    sids = sorted(sc.sessions)
    ops = []
    att = set()          # sessions (believed) attached to the registered instance
    zs = []              # per unregistered instance still running: set of sessions attached to it
    pend = [0]
    cnt = [100]
    busy = [False]       # an unregistered instance is held inside a publish (hubunregmid .. zfinish)
    loaded = [False]     # an instance is registered with the hub (any {sub} of a free session loads the topic)

    def hubunreg():
        ops.append(("N", "hubunreg", []))
        if pend[0] > 0:
            pend[0] -= 1
            if loaded[0]:
                zs.append(set(att))       # possibly without sessions: it still runs until it reads its exit message
                att.clear()
                loaded[0] = False

    def timeout():
        ops.append(("N", "timeout", []))
        if loaded[0] and not att:
            pend[0] += 1

    def content():
        cnt[0] += 1
        return cnt[0]

    def free():
        z = set().union(*zs) if zs else set()
        return [s for s in sids if s not in z]

    def sub(s):
        ops.append(("N", "sub", [s, "-", 0]))
        if not any(s in z for z in zs):
            att.add(s)
            loaded[0] = True

    def pub(s, flt="N"):
        ops.append((flt, "pub", [s, content(), 1 if rng.random() < 0.15 else 0]))

    def burst(cands=None):
        cands = cands or free()
        if not cands:
            return
        k = rng.choice([2, 2, 3, 3, 4, 5, 6])
        pool = [s for s in cands if s in att] or cands
        shape = rng.random()
        if shape < 0.3:
            who = [rng.choice(pool)] * k                       # one session
        elif shape < 0.85:
            who = [rng.choice(pool) for _ in range(k)]         # several sessions / users
        else:
            who = [rng.choice(cands) for _ in range(k)]        # possibly not attached
        h = rng.random()
        if h < 0.35:
            held = sorted(set(who))                            # every publisher's socket is slow
        elif h < 0.6:
            held = [who[0]]                                    # the first publisher's
        elif h < 0.75:
            held = list(cands)                                 # everybody's
        elif h < 0.85:
            held = []
        else:
            held = sorted(set(rng.sample(cands, rng.randint(1, len(cands)))))
        args = [",".join(str(x) for x in held) if held else "-"]
        for s in who:
            args += [s, content(), 1 if rng.random() < 0.15 else 0]
        ops.append(("N", "burst", args))

    def leave_all():
        for s in sorted(att):
            ops.append(("N", "leave", [s, 0]))
        att.clear()

    def plain():
        fr = free()
        if not fr:
            return
        s = rng.choice(fr)
        r = rng.random()
        if r < 0.40:
            flt = "N"
            if faults and rng.random() < faults:
                flt = "F" + str(rng.randint(1, 3))
            pub(rng.choice([x for x in fr if x in att] or fr), flt)
        elif r < 0.55:
            ops.append(("N", "getdata", [s, 0, 0, 0]))
        elif r < 0.68:
            ops.append(("N", "getdesc", [s]))
        elif r < 0.80:
            ops.append(("N", "leave", [s, 0]))
            att.discard(s)
        else:
            sub(s)

    def race():
        if not loaded[0]:
            fr = free()
            if not fr:
                return
            sub(rng.choice(fr))
        leave_all()
        timeout()
        late = [s for s in free() if rng.random() < 0.55][:2]
        for s in late:
            sub(s)                                           # still reaches the instance whose timer has fired
        if late and rng.random() < 0.5:
            if rng.random() < 0.5:
                pub(rng.choice(late))
            else:
                burst(late)
        if rng.random() < 0.1:
            return                                           # the unregister request stays pending for a while
        nz = len(zs)
        mid = None
        owners = [s for s in late if sc.sessions[s] == 1]
        if late and not busy[0] and rng.random() < 0.3:
            # the unregistration lands inside a publish handler of the instance (between its isInactive check and its Save)
            mid = rng.choice(owners or late)
            ops.append(("N", "hubunregmid", [mid, content(), 1 if rng.random() < 0.15 else 0]))
            pend[0] -= 1
            zs.append(set(att))
            att.clear()
            loaded[0] = False
            busy[0] = True
        else:
            hubunreg()
        zi = len(zs) - 1 if len(zs) > nz else -1
        steps = []
        others = free()
        if others:
            first = rng.choice(others)
            steps.append(("sub", first))
            for _ in range(rng.randint(1, 3)):
                steps.append(("pub", first))
            if rng.random() < 0.5:
                steps.append(("burst", None))
            if rng.random() < 0.4 and len(others) > 1:
                steps.append(("sub", rng.choice(others)))
        tail = []
        if mid is not None:
            tail.append(("zfinish", None))
        elif zi >= 0 and zs[zi]:
            for _ in range(rng.randint(1, 3)):
                tail.append(("zpub", rng.choice(sorted(zs[zi]))))
            if rng.random() < 0.3:
                tail.append(("zsub", rng.choice(sorted(zs[zi]))))
        # the old instance's queued publishes interleave anywhere after the hub's unregister
        for x in tail:
            steps.insert(rng.randint(0, len(steps)), x)
        if others and rng.random() < 0.7:
            steps.append(("pub", rng.choice([s for s in others if s in att] or others)))
        for what, s in steps:
            if what == "sub":
                sub(s)
            elif what == "pub":
                pub(s if s in att or not att else rng.choice(sorted(att)))
            elif what == "burst":
                burst([x for x in free() if x in att] or None)
            elif what == "zpub":
                ops.append(("N", "zpub", [zi, s, content(), 1 if rng.random() < 0.15 else 0]))
            elif what == "zsub":
                ops.append(("N", "sub", [s, "-", 0]))         # already subscribed: 304
            elif what == "zfinish":
                ops.append(("N", "zfinish", [zi]))
                busy[0] = False
                back = zs.pop(zi)
                zi = -1
                for x in sorted(back):
                    if rng.random() < 0.5:
                        sub(x)
        if zi >= 0 and rng.random() < 0.9:
            ops.append(("N", "zexit", [zi]))
            back = zs.pop(zi)
            for s in sorted(back):
                if rng.random() < 0.6:
                    sub(s)
        fr = free()
        if fr:
            x = rng.choice(fr)
            ops.append(("N", "getdata", [x, 0, 0, 0]) if rng.random() < 0.5 else ("N", "getdesc", [x]))

    for s in sids:
        if rng.random() < 0.85:
            sub(s)
    for _ in range(rng.randint(1, 3)):
        plain()
    for _ in range(rng.randint(2, 5)):
        r = rng.random()
        if r < 0.42:
            burst()
        elif r < 0.80:
            if not zs:
                race()
            else:
                zi = len(zs) - 1
                ops.append(("N", "zexit", [zi]))
                zs.pop(zi)
        elif r < 0.88:
            if not zs:
                leave_all()
                ops.append(("N", "unload", []))
                loaded[0] = False
                fr = free()
                if fr:
                    sub(rng.choice(fr))
        elif r < 0.93:
            ops.append(("N", "restart", []))
            att.clear()
            zs[:] = []
            pend[0] = 0
            loaded[0] = False
            busy[0] = False
            for s in sids:
                if rng.random() < 0.7:
                    sub(s)
        elif r < 0.96 and pend[0] > 0:
            hubunreg()
        for _ in range(rng.randint(0, 3)):
            plain()
    sc.ops = ops
    return sc


# ---------------------------------------------------------------------------------------------
# running, parsing

def parse(lines):
    res = T.parse_blocks(lines)
    # the lines parse_blocks does not know: issued, zombie, invalid
    cur, op = None, None
    for ln in lines:
        if not ln:
            continue
        w = ln.split(" ", 1)
        if w[0] == "scn":
            cur = res.get(w[1])
            k = -1
        elif w[0] == "op" and cur is not None:
            k += 1
            op = cur[k] if k < len(cur) else None
            if op is not None:
                op.setdefault("issued", [])
                op.setdefault("zombies", [])
                op.setdefault("invalid", False)
        elif w[0] == "end":
            cur, op = None, None
        elif op is not None:
            if w[0] == "issued":
                op["issued"] = [(int(x.split(":")[0]), x.split(":")[1] == "1") for x in (w[1].split() if len(w) > 1 else [])]
            elif w[0] == "zombie":
                op["zombies"].append(w[1])
            elif w[0] == "invalid":
                op["invalid"] = True
    return res


def run_impl(ctx, scns, tag="b"):
    fin = os.path.join(ctx.work, "bscn_%s.in" % tag)
    fout = os.path.join(ctx.work, "bscn_%s.impl" % tag)
    with open(fin, "w") as f:
        for sc in scns:
            f.write("\n".join(sc.lines()) + "\n")
    if os.path.exists(fout):
        os.remove(fout)
    env = dict(vlib.GOENV, VERIF_IN=fin, VERIF_OUT=fout)
    cmd = [os.path.join(vlib.BUILD, "maindrv.test"), "-test.run", "^TestVerifC01b$", "-test.count=1", "-test.timeout=3000s"]
    try:
        p = subprocess.run(cmd, stdout=subprocess.PIPE, stderr=subprocess.STDOUT, env=env, cwd=os.path.join(vlib.REPO, "server"),
                           timeout=3400 if ctx.tier != "quick" else 400)
        rc, out = p.returncode, p.stdout.decode("utf8", "replace")
    except subprocess.TimeoutExpired as e:
        # the driver flushes after every request: the scenario without its full output is the one that hung
        rc, out = -9, (e.stdout or b"").decode("utf8", "replace") + "\nTIMEOUT: the driver did not finish"
    lines = open(fout).read().split("\n") if os.path.exists(fout) else []
    log = "\n".join(l for l in out.split("\n") if not (len(l) > 3 and l[0] in "IWE" and l[1:3] == "20"))
    return rc, parse(lines), log


def run_model(ctx, scns):
    lines = []
    for sc in scns:
        lines += sc.lines()
    rc, out, err = ctx.run_model("c01b", lines)
    flat = []
    for o in out:
        flat += o.split("\n")
    return rc, parse(flat), err


def model_valid(model_blocks):
    return not any(b.get("invalid") for b in model_blocks)


# ---------------------------------------------------------------------------------------------
# projection compared with the model

PUB_KINDS = ("pub", "zpub", "burst", "zfinish")


def project(block, kind):
    fr = {}
    for sid, t in block["frames"]:
        if sid == 0:
            continue
        n = None
        if t.startswith("ctrl "):
            d = kvs(t)
            code = t.split()[1]
            if code == "202" and "seq" in d:
                n = "ctrl 202 seq=" + d["seq"]
            elif kind in PUB_KINDS:
                n = "ctrl " + code        # every publish is answered, and how
        elif t.startswith("data "):
            n = t
        elif t.startswith("desc "):
            n = "desc seq=" + kvs(t)["seq"]
        if n:
            fr.setdefault(sid, []).append(n)
    store = []
    for l in block["store"]:
        if l.startswith("topic "):
            store.append(l.split(" delid=")[0])
        elif l.startswith("msg "):
            store.append(re.sub(r" delid=\S+", "", l))
    cache = [l.split(" delid=")[0] for l in block["cache"] if l.startswith("lastid")]
    return {"frames": fr, "issued": block.get("issued", []), "store": store, "cache": cache, "loaded": block["loaded"],
            "calls": block["calls"], "instances": block.get("zombies", [])}


# ---------------------------------------------------------------------------------------------
# the laws, on the implementation's trace

def burst_pubs(args):
    return [(int(args[k]), str(args[k + 1]), int(args[k + 2])) for k in range(1, len(args) - 2, 3)]


def expand(sc, blocks):
    """One pseudo request per publish: a burst block is split into its publishes (reply matched by the
    request id, copies matched by the content token, which is unique in a scenario); the state lines
    are those at the end of the burst.  -> (pseudo scenario, views, index map pseudo -> real)"""
    ps = BScn(sc.id)
    ps.head, ps.nusers, ps.sessions = sc.head, sc.nusers, sc.sessions
    views, back = [], []
    for k, b in enumerate(blocks):
        f, kind, args = sc.ops[k]
        if kind == "burst":
            pubs = burst_pubs(args)
            for j, (sid, content, ne) in enumerate(pubs, 1):
                rid = "%dx%d" % (k + 1, j)
                frames = [(s, t) for s, t in b["frames"] if t.startswith("ctrl ") and kvs(t).get("id") == rid]
                frames += [(s, t) for s, t in b["frames"] if t.startswith("data ") and kvs(t).get("content") == content]
                b2 = dict(b, frames=frames)
                ps.ops.append(("N", "pub", [sid, content, ne]))
                views.append(b2)
                back.append(k)
        elif kind == "zpub":
            ps.ops.append(("N", "pub", [int(args[1]), str(args[2]), int(args[3])]))
            views.append(b)
            back.append(k)
        elif kind == "zfinish":
            # the held publish completes: its frames are in this block; the request was sent at hubunregmid
            m = next((j for j in range(k - 1, -1, -1) if sc.ops[j][1] == "hubunregmid"), None)
            a = sc.ops[m][2] if m is not None else [0, "0", 0]
            ps.ops.append(("N", "pub", [int(a[0]), str(a[1]), int(a[2])]))
            views.append(b)
            back.append(k)
        elif kind in ("timeout", "hubunreg", "zexit", "hubunregmid"):
            ps.ops.append(("N", "noop", []))
            views.append(b)
            back.append(k)
        else:
            ps.ops.append((f, kind, list(args)))
            views.append(b)
            back.append(k)
    vs = []
    for b in views:
        b2 = dict(b)
        b2["cache"] = [l for l in b["cache"]]
        vs.append(statelib.View(b2))
    return ps, vs, back


MID_KEY = "unregistered-mid-publish"


def monitor(sc, blocks, base_monitor):
    """The laws; every failure at or after a `hubunregmid` request (an unregistration that lands inside a
    publish handler - the known finding, KNOWN_FINDINGS key unregistered-mid-publish) is reported under that key."""
    res = monitor0(sc, blocks, base_monitor)
    m = next((k for k, o in enumerate(sc.ops) if o[1] == "hubunregmid"), None)
    if m is None:
        return res
    return [(law if (k < m or law == "hang") else MID_KEY, k, detail if k < m else "%s: %s" % (law, detail)) for law, k, detail in res]


def monitor0(sc, blocks, base_monitor):
    res = []
    ps, views, back = expand(sc, blocks)
    for law, pk, detail in base_monitor(ps, views):
        res.append((law, back[pk], detail))
    saved = set()        # numbers whose Save succeeded
    for k, b in enumerate(blocks):
        f, kind, args = sc.ops[k]
        if b["hang"]:
            res.append(("hang", k, b["hang"]))
        # no number is issued twice: a number whose Save succeeded is never passed to Save again
        for n, ok in b.get("issued", []):
            if n in saved:
                res.append(("number-reissued-after-save", k,
                            "number %d was passed to store.Messages.Save again (%s) after a message had been saved under it"
                            % (n, "saved again" if ok else "refused by the store's unique index")))
            if ok:
                saved.add(n)
        # the publishes of this block: (request id, session, content)
        if kind == "pub":
            pubs = [(str(k + 1), int(args[0]), str(args[1]))]
        elif kind == "zpub":
            pubs = [(str(k + 1), int(args[1]), str(args[2]))]
        elif kind == "burst":
            pubs = [("%dx%d" % (k + 1, j), s, c) for j, (s, c, _) in enumerate(burst_pubs(args), 1)]
        elif kind == "zfinish":
            m = next((j for j in range(k - 1, -1, -1) if sc.ops[j][1] == "hubunregmid"), None)
            pubs = [(str(m + 1), int(sc.ops[m][2][0]), str(sc.ops[m][2][1]))] if m is not None else []
        else:
            pubs = []
        if b.get("invalid"):
            pubs = []
        msgs = {}
        for l in b["store"]:
            if l.startswith("msg "):
                d = kvs(l)
                msgs[int(l.split()[1])] = (d["content"], int(d["from"]))
        for rid, sid, content in pubs:
            replies = [(s, t) for s, t in b["frames"] if t.startswith("ctrl ") and kvs(t).get("id") == rid]
            if len(replies) != 1 or replies[0][0] != sid:
                res.append(("publish-answered-once", k, "publish id=%s of session %d got %d replies: %s" % (rid, sid, len(replies), replies)))
                continue
            t = replies[0][1]
            if not t.startswith("ctrl 202") or "seq" not in kvs(t):
                continue
            n = int(kvs(t)["seq"])
            user = sc.sessions.get(sid)
            # the number acknowledged is the number every recipient and the store show for that message
            if msgs.get(n) != (content, user):
                res.append(("ack-number-is-message-number", k,
                            "publish id=%s (content %s, user %s) was acknowledged as number %d; the stored message %d is %s"
                            % (rid, content, user, n, n, msgs.get(n))))
            for s2, t2 in b["frames"]:
                if t2.startswith("data "):
                    d = kvs(t2)
                    if (d["content"] == content) != (int(d["seq"]) == n):
                        res.append(("ack-number-is-message-number", k,
                                    "publish id=%s (content %s) was acknowledged as number %d; session %d was sent {data seq=%s content=%s}"
                                    % (rid, content, n, s2, d["seq"], d["content"])))
                        break
    return res


# ---------------------------------------------------------------------------------------------
# flow

def scn_from_replay(rp):
    sc = BScn(rp["head"][0].split()[1])
    sc.head = rp["head"]
    sc.ops = [tuple(o) for o in rp["ops"]]
    return statelib.restore_sessions(sc)


def run_flight(ctx, base_monitor):
    quick = ctx.tier == "quick"
    rng = ctx.rng
    if ctx.replay:
        scns = [scn_from_replay(json.load(open(ctx.replay))["replay"])]
    else:
        n = 130 if quick else 3000
        scns = [gen_flight(rng, "b%d" % i, 0.0 if i % 3 else 0.2) for i in range(n)]
    t0 = time.time()
    rc, impl, log = run_impl(ctx, scns)
    t_impl = time.time() - t0
    if rc != 0 or any(sc.id not in impl or len(impl[sc.id]) != len(sc.ops) for sc in scns):
        bad = next((sc for sc in scns if sc.id not in impl or len(impl[sc.id]) != len(sc.ops)), None)
        ctx.violation("monitor", "server-crashed", "the server process died or stopped answering while running burst/race scenario %s: %s"
                      % (bad.id if bad else "?", log[-1500:]),
                      {"part": "flight", "head": bad.head if bad else [], "ops": bad.ops if bad else [], "log": log[-4000:]})
        return
    rc, model, err = run_model(ctx, scns)
    if rc != 0 or any(sc.id not in model or len(model[sc.id]) != len(sc.ops) for sc in scns):
        ctx.violation("proof", "runner-crashed", "model runner (c01b) failed: " + err[-1500:], {"theorem_or_obligation": "model runner c01b"})
        return
    # a history leaves the model where a session the generator believed attached to the old instance
    # was in fact refused by it (no J): the prefix up to that request is kept
    outside, kept = [], []
    for sc in scns:
        upto = next((i for i, b in enumerate(model[sc.id]) if b.get("invalid")), len(sc.ops))
        if upto < len(sc.ops):
            outside.append(sc)
            sc = sc.clone(sc.ops[:upto])
            impl[sc.id], model[sc.id] = impl[sc.id][:upto], model[sc.id][:upto]
        kept.append(sc)
    scns = kept
    fails = []
    for sc in scns:
        for law, k, detail in monitor(sc, impl[sc.id], base_monitor):
            fails.append((sc, law, k, detail))
    seen = {}
    for sc, law, k, detail in fails:
        seen.setdefault(law, []).append((sc, k, detail))
    nshrunk = 0
    for law, lst in seen.items():
        sc, k, detail = min(lst, key=lambda x: len(x[0].ops))
        small = sc.clone(sc.ops[:k + 1])
        if nshrunk < 3 and not ctx.replay:
            nshrunk += 1

            def still_bad(c, law=law):
                rc2, im2, _ = run_impl(ctx, [c], tag="shrink")
                if rc2 != 0 or c.id not in im2 or len(im2[c.id]) != len(c.ops):
                    return False
                rc3, mo3, _ = run_model(ctx, [c])
                if rc3 != 0 or c.id not in mo3 or not model_valid(mo3[c.id]):
                    return False      # a history the model does not cover is not a replay
                return any(l == law for l, _, _ in monitor(c, im2[c.id], base_monitor))
            small = T.shrink(ctx, small, still_bad, budget=15 if quick else 120)
        ctx.violation("monitor", law, "law %s fails on the implementation's trace of a burst/unload-race history (%d scenarios this run): %s"
                      % (law, len(lst), detail),
                      {"part": "flight", "head": small.head, "ops": small.ops, "law": law, "detail": detail, "scenarios_failing": len(lst)})
    known = set(f["key"] for f in ctx.load_findings() if f["property"] == ctx.pid)
    all_fails = list(fails)
    fails = [f for f in fails if f[1] not in known]
    mism = []
    for sc in scns:
        io, mo = impl[sc.id], model[sc.id]
        for k in range(len(io)):
            a, b = project(io[k], sc.ops[k][1]), project(mo[k], sc.ops[k][1])
            if a != b:
                mism.append((sc, k, {key: (a[key], b[key]) for key in a if a[key] != b[key]}))
                break
    if mism and not fails:
        sc, k, d = min(mism, key=lambda x: len(x[0].ops))
        base = sc.clone(sc.ops[:k + 1])
        # failing-input search: continue the disagreeing prefix with publishes on every instance and queries
        pool = []
        sids = sorted(sc.sessions)
        for j in range(40 if quick else 400):
            c = base.clone(list(base.ops))
            c.id = "n%d" % j
            c.head = [re.sub(r"^scn \S+", "scn " + c.id, base.head[0])] + base.head[1:]
            extra = []
            for _ in range(rng.randint(1, 6)):
                x = rng.choice(sids)
                extra.append(rng.choice([("N", "pub", [x, 900 + len(extra), 0]), ("N", "sub", [x, "-", 0]), ("N", "getdata", [x, 0, 0, 0]),
                                         ("N", "zpub", [0, x, 930 + len(extra), 0]), ("N", "pub", [x, 960 + len(extra), 0]),
                                         ("N", "burst", [str(x), x, 980 + len(extra), 0, rng.choice(sids), 990 + len(extra), 0])]))
            c.ops = list(base.ops) + extra
            pool.append(c)
        rc2, im2, _ = run_impl(ctx, pool, tag="search")
        rc3, mo3, _ = run_model(ctx, pool)
        if rc2 == 0 and rc3 == 0:
            for c in pool:
                if c.id in im2 and len(im2[c.id]) == len(c.ops) and c.id in mo3:
                    # only the part of the continuation the model covers
                    upto = next((i for i, b in enumerate(mo3[c.id]) if b.get("invalid")), len(c.ops))
                    c2 = c.clone(c.ops[:upto])
                    hit = monitor(c2, im2[c.id][:upto], base_monitor)
                    if hit:
                        law, kk, detail = hit[0]
                        ctx.violation("monitor", law, "law %s fails on the implementation's trace of a burst/unload-race history: %s" % (law, detail),
                                      {"part": "flight", "head": c.head, "ops": c.ops[:kk + 1], "law": law, "detail": detail,
                                       "found_by": "search near a correspondence mismatch"})
                        fails.append((c, law, kk, detail))
                        break
        if not fails:
            ctx.violation("corr", "correspondence-flight-" + sc.ops[k][1],
                          "model (Sys/TopicBurstC01.v) and implementation disagree on %d of %d burst/unload-race histories on C01's projection; first (prefix): op %d %s: %s; no law failure found on %d neighbouring histories"
                          % (len(mism), len(scns), k, sc.ops[k], json.dumps(d, default=str)[:800], len(pool)),
                          {"part": "flight", "correspondence": "projection of C01 on burst/unload-race histories", "head": base.head, "ops": base.ops, "diff": d})
    # coverage, measured on the implementation's trace
    kinds, nops, acks, refused, nbursts, held_acks, zpubs, races, two_inst = {}, 0, 0, 0, 0, 0, 0, 0, 0
    bsizes = {}
    nt = set()
    for sc in scns:
        sig = []
        for k, o in enumerate(sc.ops):
            nops += 1
            b = impl[sc.id][k]
            kinds[o[1]] = kinds.get(o[1], 0) + 1
            acks += sum(1 for sid, t in b["frames"] if t.startswith("ctrl 202 seq"))
            if o[1] == "burst":
                nbursts += 1
                pubs = burst_pubs(o[2])
                bsizes[len(pubs)] = bsizes.get(len(pubs), 0) + 1
                held = set(int(x) for x in str(o[2][0]).split(",")) if o[2][0] != "-" else set()
                held_acks += sum(1 for sid, t in b["frames"] if t.startswith("ctrl 202 seq") and sid in held)
            if o[1] == "zpub":
                zpubs += 1
                refused += sum(1 for sid, t in b["frames"] if t.startswith("ctrl 503"))
            if o[1] == "hubunreg" and b.get("zombies") and not b["zombies"][-1].endswith("sess="):
                races += 1
            if b.get("zombies") and b["loaded"] == "1":
                two_inst += 1
            sig.append((o, tuple(b["frames"])))
        if any(t.startswith("ctrl 202 seq") for b in impl[sc.id] for sid, t in b["frames"]):
            nt.add(hash(tuple(map(repr, sig))))
    ctx.coverage["in_flight"] = {
        "evaluations": len(scns), "distinct_nontrivial": len(nt), "operations_executed": nops,
        "rule": "seeded random histories on one group topic (2-5 users x 1-2 sessions, assorted modes): single requests (sub, pub - a third of the histories with a failing adapter call F k on some publishes -, leave, get data, get desc, unload, restart), BURSTS of 2-6 publishes dispatched back to back (one session / several sessions and users / sessions that are not attached) with the write loops of a chosen set of sessions (every publisher, the first publisher, everybody, nobody, a random set) held until the burst has been handled and every frame serialised when it is dequeued, and UNLOAD RACES (all sessions leave, kill timer fires, 0-2 sessions still attach and publish, the hub unregisters the instance, another session loads a second instance, publishes queued at the old instance and publishes / bursts at the new one interleave, the old instance exits, its sessions re-attach; in about a third of the races the unregistration lands INSIDE a publish handler of the old instance - its goroutine held at the entry of Save's first adapter call - and that publish completes at a random point among the requests on the second instance); non-trivial = at least one acknowledged number; distinct by (ops, replies)",
        "bursts": nbursts, "burst_sizes": bsizes, "acknowledgements_serialised_after_the_burst": held_acks,
        "unload_races_with_sessions_on_the_old_instance": races, "publishes_handled_by_an_unregistered_instance": zpubs,
        "of_which_refused_503": refused, "requests_handled_while_two_instances_exist": two_inst,
        "unregistrations_inside_a_publish_handler": kinds.get("zfinish", 0),
        "histories_showing_the_known_finding_unregistered_mid_publish": len(set(f[0].id for f in all_fails if f[1] == MID_KEY)),
        "acknowledged_numbers": acks, "op_kinds": kinds, "histories_cut_where_they_leave_the_model": len(outside),
        "correspondence_mismatches": len(mism), "monitor_failures": len(fails), "impl_wall_s": round(t_impl, 1),
        "samples": [{"head": sc.head, "ops": sc.ops} for sc in scns[:1]],
    }
