"""C04.  Layer 2 (history retrieval, permissions, delete transactions, deletion log over the
product model) is in tools/props/c04hist.py and runs after layer 1.

Layer 1 (pure range algebra of deletion): theorems in coq/Props/PropC04.v
about coq/Pure/Ranges.v; correspondence against the real
sort.Sort(types.RangeSorter) + RangeSorter.Normalize (harness/ext/c04.go) and
the real Topic.replyDelMsg (harness/overlay/server/zz_verif_c04_test.go).

Request lines (a range is low:hi, a list is comma-separated, "-" = empty):
  N <list>            sort + Normalize      -> "N <sorted> | <normalised>"
  D <lastID> <list>   replyDelMsg           -> "D err" | "D <ranges given to DeleteList>"

Laws evaluated on the IMPLEMENTATION's answers (meaning of a range: [low,hi),
hi = 0 the single id low):
  normalize-exact  ids(Normalize(sort rs)) == ids(rs)      for rs of well-formed ranges
  delete-exact     ids(ranges given to the store) restricted to existing ids 1..lastID
                   == union of the requested ranges (hi = 0 or hi = low: the single id
                   low) clipped to 1..lastID, and no id above lastID
Only the covered SET is demanded (the property's "exactly the union ... never
any ID outside"); order / disjointness of the output is a theorem about the
model and part of the correspondence, not a law."""
import itertools
import json
import time
from props import purelib
from props import c04hist
from props import c04obo
from props import c04chan

DOM = 7           # low, hi in 0..6 for the exhaustive part
ALL = [(l, h) for l in range(DOM) for h in range(DOM)]


def wf(r):
    return r[0] >= 0 and (r[1] == 0 or r[0] < r[1])


def fmt(rs):
    return ",".join("%d:%d" % r for r in rs) if rs else "-"


def parse(s):
    if s == "-":
        return []
    return [tuple(int(v) for v in p.split(":")) for p in s.split(",")]


def ids(rs):
    s = set()
    for l, h in rs:
        if h == 0:
            s.add(l)
        else:
            s.update(range(l, h))
    return s


def req_ids(last, req):
    """what the property says a request denotes: [low,hi) clipped to existing ids,
    no upper bound or hi == low meaning the single id low"""
    s = set()
    for l, h in req:
        top = l + 1 if (h == 0 or h == l) else h
        s.update(range(max(l, 1), min(top, last + 1)))
    return s


# inputs reproduced by hand on the real function before the check existed
WITNESSES = ["N 1:3,2:4,10:12", "N 1:3,4:5", "N 1:3,3:0", "N 1:0,1:0,5:0",
             "D 12 1:3,2:4,10:12", "D 9 1:3,4:5", "D 9 1:3,3:0", "D 9 1:0,1:0,5:0"]


def random_list(rng, n, span):
    """mostly well-formed; adjacent, nested, duplicate, touching ranges and singles mixed"""
    out = []
    for _ in range(n):
        k = rng.random()
        if out and k < 0.45:
            l0, h0 = rng.choice(out)
            u0 = l0 + 1 if h0 == 0 else h0
            kind = rng.randrange(7)
            if kind == 0:
                r = (l0, h0)                               # duplicate
            elif kind == 1:
                r = (u0, rng.choice([0, u0 + 1, u0 + rng.randrange(1, 5)]))   # touching: starts at the end
            elif kind == 2:
                r = (u0 + 1, rng.choice([0, u0 + 1 + rng.randrange(1, 4)]))   # one id apart
            elif kind == 3 and u0 - l0 > 1:
                a = rng.randrange(l0, u0)                  # nested
                r = (a, rng.choice([0, rng.randrange(a + 1, u0 + 1)]))
            elif kind == 4:
                r = (l0, rng.choice([0, l0 + 1, u0 + rng.randrange(0, 3)]))   # same low
            elif kind == 5 and u0 - l0 > 1:
                a = rng.randrange(l0, u0)                  # partial overlap
                r = (a, u0 + rng.randrange(1, 4))
            else:
                r = (max(0, u0 - 1), 0)                    # single on the last id of a range
        else:
            l = rng.randrange(0, span)
            r = (l, rng.choice([0, 0, l + 1, l + rng.randrange(2, 7), l + rng.randrange(1, 3)]))
        if rng.random() < 0.03:
            r = (r[0], rng.randrange(0, r[0] + 1))         # ill-formed (hi <= low): correspondence only
        out.append(r)
    rng.shuffle(out)
    return out


def gen_cases(ctx):
    rng = ctx.rng
    quick = ctx.tier == "quick"
    cases = list(WITNESSES)
    # ---- N: exhaustive small lists over low,hi in 0..6 ----
    cases.append("N -")
    for n in (1, 2):
        for t in itertools.product(ALL, repeat=n):
            cases.append("N " + fmt(t))
    # length 3: every ordered list.  Length 4: every multiset of well-formed ranges in one seeded
    # random order (Normalize sees the sorted list, so the order only exercises sort.Sort) plus random
    # ordered lists over all 49 values.  The thorough tier sweeps ALL ordered lists of length <= 4 in
    # run() (streamed, not kept in memory).
    for t in itertools.product(ALL, repeat=3):
        cases.append("N " + fmt(t))
    wfs = [r for r in ALL if wf(r)]
    four = list(itertools.combinations_with_replacement(wfs, 4))
    for t in four:
        t = list(t)
        rng.shuffle(t)
        cases.append("N " + fmt(t))
    for _ in range(6000 if quick else 60000):
        t = [rng.choice(ALL) for _ in range(4)]
        cases.append("N " + fmt(t))
    # ---- N: seeded random longer lists ----
    for _ in range(15000 if quick else 120000):
        n = rng.choice([5, 6, 7, 8, 10, 13, 16, 20, 30, 45])
        cases.append("N " + fmt(random_list(rng, n, rng.choice([8, 12, 20, 40, 100]))))
    for _ in range(60 if quick else 1500):                  # long: the non-insertion paths of sort.Sort
        n = rng.choice([60, 100, 200, 400])
        cases.append("N " + fmt(random_list(rng, n, rng.choice([30, 200, 2000]))))
    # ---- D: the whole replyDelMsg pipeline ----
    ent = [(l, h) for l in range(-1, 8) for h in range(-1, 9)]
    for last in range(0, 7):
        for e in ent:
            cases.append("D %d %s" % (last, fmt([e])))
    cases.append("D 5 -")
    for last in ((3, 6) if quick else (0, 1, 2, 3, 4, 5, 6)):
        good = [e for e in ent if 0 <= e[0] <= last and e[1] >= 0]
        for t in itertools.product(good, repeat=2):
            cases.append("D %d %s" % (last, fmt(t)))
    for _ in range(20000 if quick else 150000):
        last = rng.choice([1, 2, 5, 6, 9, 12, 20, 50])
        n = rng.choice([2, 3, 3, 4, 5, 8, 12])
        t = random_list(rng, n, last + 1)
        t = [(l, rng.choice([h, h, h, h + last, l])) for l, h in t]     # hi beyond the last id, hi == low
        if rng.random() < 0.1:
            i = rng.randrange(len(t))
            t[i] = rng.choice([(-1, 0), (0, 0), (last + 1, 0), (3, -1), (4, 2), (last + 1, last + 3)])
        cases.append("D %d %s" % (last, fmt(t)))
    for _ in range(300 if quick else 5000):                 # around defaultMaxDeleteCount = 1024
        last = rng.choice([1023, 1024, 1025, 1500, 3000])
        n = rng.choice([1, 2, 2, 3, 4])
        t = []
        for _ in range(n):
            l = rng.randrange(0, last + 1)
            t.append((l, rng.choice([0, l + rng.randrange(1, 1100), last + rng.randrange(0, 3), l + 1023, l + 1024, l + 1025])))
        if rng.random() < 0.5:
            t.append(t[0])
        cases.append("D %d %s" % (last, fmt(t)))
    return cases


def check_case(c, ans):
    """-> None or (law, detail)"""
    w = c.split()
    o = ans.split()
    if not o or o[0] == "PANIC":
        return ("no-panic", "panic in the implementation")
    if w[0] == "N":
        rs = parse(w[1])
        if not all(wf(r) for r in rs):
            return None
        try:
            out = parse(o[3])
        except Exception:
            return ("driver-answer", "unreadable answer")
        want, got = ids(rs), ids(out)
        if want != got:
            return ("normalize-exact", "ids lost %s, ids added %s" % (sorted(want - got), sorted(got - want)))
    elif w[0] == "D":
        if o[1] == "err":
            return None
        if o[1] == "unexpected":
            return ("delete-reply-consistent", " ".join(o[2:]))
        last = int(w[1])
        req = parse(w[2])
        got = ids(parse(o[1]))
        want = req_ids(last, req)
        beyond = sorted(x for x in got if x > last or x < 0)
        got1 = set(x for x in got if 1 <= x <= last)
        if want != got1 or beyond:
            return ("delete-exact", "ids lost %s, ids added %s" % (sorted(want - got1), sorted(got1 - want) + beyond))
    return None


def monitors(cases, t):
    fails = []
    for c in cases:
        r = check_case(c, t[c])
        if r:
            fails.append((r[0], c, r[1]))
    # smallest inputs first, so the replay file shows the simplest failing input
    fails.sort(key=lambda f: (len(f[1].split()[-1].split(",")), len(f[1])))
    return fails


def neighbours(ctx, case):
    w = case.split()
    rs = parse(w[-1])
    res = []
    for i in range(len(rs)):
        res.append(rs[:i] + rs[i + 1:])
        l, h = rs[i]
        for r in ((l + 1, h), (max(l - 1, 0), h), (l, h + 1), (l, max(h - 1, 0)), (l, 0)):
            res.append(rs[:i] + [r] + rs[i + 1:])
    for i in range(len(rs)):
        for j in range(i + 1, len(rs)):
            res.append([rs[i], rs[j]])
    return [" ".join(w[:-1] + [fmt(r)]) for r in res]


def nontrivial(case, out):
    w = case.split()
    o = out.split()
    if w[0] == "N":
        return len(o) > 3 and w[1] != "-" and len(parse(o[3])) < len(parse(w[1]))
    return len(o) > 1 and o[1] not in ("err", "unexpected") and "," in w[2]


def sweep_all_ordered(ctx, run_impl):
    """thorough tier: EVERY ordered list of <= 4 ranges with low,hi in 0..6 (5.9 million),
    streamed in chunks through implementation, model and the law; returns the failing /
    disagreeing inputs (they then go through the ordinary reporting path) and the count."""
    bad, total = [], 0
    chunk = []

    def flush():
        nonlocal chunk, total
        if not chunk:
            return
        rc, impl, err = run_impl(chunk)
        rc2, model, err2 = ctx.run_model("c04", chunk)
        if rc != 0 or rc2 != 0 or len(impl) != len(chunk) or len(model) != len(chunk):
            bad.append(chunk[0])
        else:
            for c, i, m in zip(chunk, impl, model):
                if i != m or check_case(c, i):
                    if len(bad) < 2000:
                        bad.append(c)
        total += len(chunk)
        chunk = []

    for n in (3, 4):
        for t in itertools.product(ALL, repeat=n):
            chunk.append("N " + fmt(t))
            if len(chunk) >= 250000:
                flush()
    flush()
    return bad, total


def which_normalize(ctx, run_impl):
    """Diagnostic only (no verdict): does the implementation under check behave like the model of
    Normalize as it is in /repo (normalize_unrepaired) or like the repaired one?  Every ordered list
    of <= 2 ranges and every multiset of 3 over low,hi in 0..4, plus the replyDelMsg witnesses."""
    small = [(l, h) for l in range(5) for h in range(5)]
    lines = ["N -"] + ["N " + fmt(t) for n in (1, 2) for t in itertools.product(small, repeat=n)]
    lines += ["N " + fmt(t) for t in itertools.combinations_with_replacement(small, 3)]
    lines += [w for w in WITNESSES]
    lines += ["D 4 " + fmt(t) for t in itertools.product([(l, h) for l in range(5) for h in range(6)], repeat=2)]
    lines = list(dict.fromkeys(lines))
    rc, impl, _ = run_impl(lines)
    if rc != 0:
        return
    unrep = [("U" if l[0] == "N" else "E") + l[1:] for l in lines]
    rc1, m_new, _ = ctx.run_model("c04", lines)
    rc2, m_old, _ = ctx.run_model("c04", unrep)
    if rc1 != 0 or rc2 != 0:
        return
    a_new = sum(1 for i, m in zip(impl, m_new) if i == m)
    a_old = sum(1 for i, m in zip(impl, m_old) if i == m)
    differ = sum(1 for a, b in zip(m_new, m_old) if a != b)
    ctx.notes.append("which Normalize is under check: on %d small requests (the two models differ on %d) the implementation "
                     "agrees with the model of the repaired Normalize on %d and with the model of Normalize as in /repo "
                     "(normalize_unrepaired) on %d" % (len(lines), differ, a_new, a_old))
    ctx.coverage["impl_agrees_with_repaired_model"] = a_new
    ctx.coverage["impl_agrees_with_unrepaired_model"] = a_old
    ctx.coverage["which_normalize_cases"] = len(lines)


class _Layer1Done(Exception):
    pass


RULE2 = ("layer 2: seeded histories over one group topic, 2-4 users x 1-2 sessions; members drawn from the populations "
         "R-without-D / R+D / D given but not wanted / D wanted but not given / D without R / neither; owner with or without D in want; "
         "2-6 initial publishes then 8-22 requests: delete (30%, half hard; 1-4 ranges built from duplicate / adjacent / one-apart / "
         "overlapping / nested / single / open / beyond-lastID moves, 3% invalid), get data with since/before/limit around 0, lastID, "
         "lastID+1 and limit above the maximum, get del with transaction windows, publishes, permission edits by the owner and by the "
         "member, leave with and without unsub, re-attach, unload (after everybody left), restart; every history ends with every "
         "session reading the whole history and (70%) the deletion log; 15% of the histories with single failing/crashing store calls "
         "(inside a delete request only its first call); non-trivial = at least one accepted delete; distinct by (ops, replies)")
TRUSTED2 = [
    "harness/overlay/server/zz_verif_topic_test.go: drives the real Hub/Topic/Session code through Session.dispatchRaw, quiescence by goroutine-state snapshot",
    "harness/overlay/server/db/memverif: in-memory adapter written from db/mysql/adapter.go (store contract modelled, not verified; the SQL engines are not run); its message and dellog rows are what the row laws read",
    "tools/props/c04hist.py monitor: python restatement of hs_step / event_of / req_ids and of the layer-2 theorems on the implementation's trace",
    "projection compared for C04 layer 2: data frames, {meta del}, 20x/40x replies of get data / get del / del msg / pub, message rows, dellog rows, stored and cached delete counters (topic and per user), lastID",
    "model scope: one group topic (non-channel: 'author withheld from channel readers' is not covered), LevelAuth users, timestamps not compared, one topic per history (the store holds the topics of all histories of the run, so a cross-topic leak would show as a foreign message)",
]

RULE3 = ("layer 2, requests on behalf of another user: seeded histories over one group topic, 3-4 users (35%: the last user is a pure "
         "administrator without a subscription) x 1-2 ordinary sessions + 1-2 ROOT sessions; members from the layer-2 mode "
         "populations; every root session attaches with extra.obo (itself or a member; re-attaches as another user after a leave); "
         "3-6 initial publishes (30% by a root session on behalf of a member) then 8-20 steps: delete by an ordinary session (14%), by a "
         "root session on behalf of a member or of itself (18%) or as its own user (5%), READ GROUPS (33%: the same get data / get del "
         "query sent by each root session on behalf of user u, by u's own sessions, by the root session as itself, on behalf of another "
         "user or of a stranger, in random order), extra.obo from an ordinary session (4%, all six request kinds) and malformed extra.obo "
         "from a root session (2%), publishes, permission edits, root re-attachment, leave/unsub/re-attach, restart; every history ends "
         "with every member's history and deletion log read through the root session on his behalf and through his own sessions; 12% of "
         "the histories with single failing/crashing store calls; non-trivial = at least one delete accepted on behalf of another user")
TRUSTED3 = [
    "harness/overlay/server/zz_verif_c04x_test.go (TestVerifC04Obo): the topic-history driver with sessions at auth.LevelRoot and the extra.obo member added to the JSON of sub / leave / pub / get data / get del / del msg; after a restart the root flag is put back on the re-created sessions at quiescence",
    "harness/runner/r_c04obo.ml: runs the extracted ostep_f_c04 (Sys/TopicOboC04.v) on the same lines; a request outside the modelled fragment prints UNMODELLED and the history counts up to that request only",
    "tools/props/c04obo.py: acting user of a request (python restatement of dispatch_as_c04), the layer-2 monitor evaluated with the acting user, the laws obo-needs-root / obo-malformed / obo-same-as-own-session",
    "model scope (obo): a root session's {sub} without extra.obo (level root selects another default access), its {note}/{get desc}/{get sub}/{set sub}/{del sub}, and {leave} on behalf of a user other than the one the session is attached as are outside the model (explicit None) and not generated; cluster proxy (multiplexing) sessions are not modelled or run",
]


def run(ctx):
    if ctx.replay:
        rp = json.load(open(ctx.replay))
        if isinstance(rp.get("replay"), dict) and rp["replay"].get("part") == "chan":
            # a replay of the channel part: one fan-out scenario with history / deletion-log queries
            ctx.coq_props()
            import vlib
            vlib.proof_violation(ctx)
            ok, out = ctx.build_runner()
            if not ok:
                ctx.violation("proof", "extraction-broken", "model extraction/runner build failed: " + out[-1500:],
                              {"theorem_or_obligation": "extraction of the model"})
                ctx.finish()
            ok, out = ctx.build_main()
            if not ok:
                ctx.violation("corr", "harness-build-broken", "package-main driver no longer builds against /repo: " + out[-1500:],
                              {"correspondence": "build of harness/overlay against /repo/server"})
                ctx.finish()
            cov = c04chan.run_chan(ctx)
            ctx.coverage.update(cov)
            ctx.coverage["rule"] = c04chan.RULE4
            ctx.coverage["trusted_base"] = c04chan.TRUSTED4
            ctx.finish()
        if isinstance(rp.get("replay"), dict) and "head" in rp["replay"]:
            # a layer-2 replay: one history
            ctx.coq_props()
            import vlib
            vlib.proof_violation(ctx)
            ok, out = ctx.build_runner()
            if not ok:
                ctx.violation("proof", "extraction-broken", "model extraction/runner build failed: " + out[-1500:],
                              {"theorem_or_obligation": "extraction of the model"})
                ctx.finish()
            if rp["replay"].get("part") == "obo" or any("@" in str(o[1]) for o in rp["replay"].get("ops", [])) \
                    or any(l.split()[0] == "sess" and l.split()[-1] == "r" for l in rp["replay"]["head"]):
                # a history with root sessions / requests on behalf of another user
                ok, out = ctx.build_main()
                if not ok:
                    ctx.violation("corr", "harness-build-broken", "package-main driver no longer builds against /repo: " + out[-1500:],
                                  {"correspondence": "build of harness/overlay against /repo/server"})
                    ctx.finish()
                cov = c04obo.run_obo(ctx)
                ctx.coverage.update(cov)
                ctx.coverage["rule"] = RULE3
                ctx.coverage["trusted_base"] = TRUSTED2 + TRUSTED3
                ctx.finish()
            cov = c04hist.run_layer2(ctx)
            ctx.coverage.update(cov)
            ctx.coverage["rule"] = RULE2
            ctx.coverage["trusted_base"] = TRUSTED2
            ctx.finish()
        run_layer1(ctx)      # a layer-1 replay: finishes there
        return
    real_finish = ctx.finish

    def stop(*a, **kw):
        raise _Layer1Done()
    ctx.finish = stop
    try:
        run_layer1(ctx)
    except _Layer1Done:
        pass
    ctx.finish = real_finish
    if ctx.violations or not ctx.proof_ok():
        ctx.finish()
    l1 = dict(ctx.coverage)
    t1 = time.time()
    cov2 = c04hist.run_layer2(ctx)
    t2 = time.time()
    cov3 = c04obo.run_obo(ctx) if cov2 else {}
    if cov3:
        cov3["wall_s"] = round(time.time() - t2, 1)
    cov4 = c04chan.run_chan(ctx) if cov3 else {}
    if cov2:
        cov2["wall_s"] = round(t2 - t1, 1)
        ctx.coverage["layer1"] = {k: l1[k] for k in ("evaluations", "distinct_nontrivial", "rule", "samples", "traces_validated_against_impl",
                                                     "correspondence_mismatches", "monitor_failures", "search_pool", "input_distribution") if k in l1}
        ctx.coverage["layer2"] = dict(cov2, rule=RULE2)
        ctx.coverage["evaluations"] = l1.get("evaluations", 0) + cov2["evaluations"]
        ctx.coverage["distinct_nontrivial"] = l1.get("distinct_nontrivial", 0) + cov2["distinct_nontrivial"]
        ctx.coverage["traces_validated_against_impl"] = l1.get("traces_validated_against_impl", 0) + cov2["traces_validated_against_impl"]
        ctx.coverage["correspondence_mismatches"] = l1.get("correspondence_mismatches", 0) + cov2["correspondence_mismatches"]
        ctx.coverage["monitor_failures"] = l1.get("monitor_failures", 0) + cov2["monitor_failures"]
        ctx.coverage["rule"] = "layer 1: " + l1.get("rule", "") + " || " + RULE2
        ctx.coverage["trusted_base"] = l1.get("trusted_base", []) + TRUSTED2
        for k in ("samples", "input_distribution", "search_pool"):
            ctx.coverage.pop(k, None)
        if cov3:
            ctx.coverage["layer2_obo"] = dict(cov3, rule=RULE3)
            for k in ("evaluations", "distinct_nontrivial", "traces_validated_against_impl", "correspondence_mismatches", "monitor_failures"):
                ctx.coverage[k] = ctx.coverage.get(k, 0) + cov3.get(k, 0)
            ctx.coverage["rule"] += " || " + RULE3
            ctx.coverage["trusted_base"] = ctx.coverage["trusted_base"] + TRUSTED3
        if cov4:
            ctx.coverage["layer2_chan"] = dict(cov4, rule=c04chan.RULE4)
            for k in ("evaluations", "distinct_nontrivial", "traces_validated_against_impl", "correspondence_mismatches", "monitor_failures"):
                ctx.coverage[k] = ctx.coverage.get(k, 0) + cov4.get(k, 0)
            ctx.coverage["rule"] += " || " + c04chan.RULE4
            ctx.coverage["trusted_base"] = ctx.coverage["trusted_base"] + c04chan.TRUSTED4
    ctx.finish()


def run_layer1(ctx):
    built = {}

    def run_impl(lines):
        """N lines go to the ext driver (types package), D lines to the package-main driver"""
        nl = [l for l in lines if not l.startswith("D ")]
        dl = [l for l in lines if l.startswith("D ")]
        res = {}
        err = ""
        if nl:
            if "ext" not in built:
                built["ext"] = ctx.build_ext()
            if not built["ext"][0]:
                return 1, [], "ext driver build failed: " + built["ext"][1]
            rc, out, e = ctx.run_ext("c04", nl)
            if rc != 0 or len(out) != len(nl):
                return rc or 1, [], e
            res.update(zip(nl, out))
        if dl:
            if "main" not in built:
                built["main"] = ctx.build_main()
            if not built["main"][0]:
                return 1, [], "package-main driver build failed: " + built["main"][1]
            rc, out, e = ctx.run_main_lines("c04", dl)
            if rc != 0 or len(out) != len(dl):
                return rc or 1, [], e
            res.update(zip(dl, out))
        return 0, [res[l] for l in lines], err

    corpus = []
    ok, _ = ctx.coq_build()
    ok2, _ = ctx.build_runner() if ok else (False, "")
    if ok and ok2 and not ctx.replay:
        which_normalize(ctx, run_impl)
    if ctx.tier != "quick" and not ctx.replay:
        if ok and ok2:
            t0 = time.time()
            bad, total = sweep_all_ordered(ctx, run_impl)
            ctx.notes.append("exhaustive sweep of all %d ordered lists of 3 and 4 ranges with low,hi in 0..6: %d failing or disagreeing inputs, %.0fs"
                             % (total, len(bad), time.time() - t0))
            ctx.coverage["exhaustive_sweep_cases"] = total
            corpus = bad[:500]

    purelib.run_pure(
        ctx, "c04", gen_cases, monitors, neighbours, nontrivial,
        rule="Normalize pipeline (sort.Sort + Normalize): every ordered list of <=3 ranges with low,hi in 0..6 (ill-formed hi<=low included; the law is evaluated on well-formed input, the rest is compared with the model only), every well-formed multiset of 4 (thorough: plus a streamed sweep of ALL 5.9M ordered lists of 3 and 4), seeded random lists of 5..45 ranges and 60..400 ranges built from duplicate / touching / one-apart / nested / same-low / overlapping / single-on-last-id moves; replyDelMsg pipeline: every single entry with low in -1..7, hi in -1..8 for lastID 0..6, every valid pair for lastID 3 and 6 (thorough 0..6), seeded random requests of 2..12 entries with hi beyond lastID / hi == low / invalid entries, and requests around defaultMaxDeleteCount; non-trivial = at least one merge happened / multi-entry request accepted",
        trusted=["harness/ext/c04.go (calls the real sort.Sort(types.RangeSorter) + RangeSorter.Normalize of the repo under check)",
                 "harness/overlay/server/zz_verif_c04_test.go (calls the real Topic.replyDelMsg on a bare topic with a recording fake of store.Messages; soft delete by a non-presencer so that no hub is needed)",
                 "tools/props/c04.py law monitors (python restatement of normalize_exact / del_ranges_exact on sets of ints)",
                 "store.Messages.GetDeleted's flatten+sort+Normalize is covered through the N requests (same two calls); the adapter rows it flattens are layer 2 (memverif)"],
        run_impl=run_impl, corpus=corpus)
