"""C09 across topic loads (part `load_marks` of the C09 check).

Clause: "neither mark ever decreases ... in every place they are reported and stored", across topic
reloads, for peer-to-peer topics (every branch of initTopicP2P) and for the topics loaded through
loadSubscribers ('sys').  Model: coq/Sys/LoadMarksC09.v (theorems c09_load_* of PropC09.v); driver:
harness/overlay/server/zz_verif_c09l_test.go; runner: harness/runner/r_c09l.ml.

Scenarios are MODEL-GUIDED: the extracted model is stepped alongside generation and the sequence numbers
of the probing notes are aimed at the stored / cached marks of the sender in the model's state.  The laws are
evaluated on the IMPLEMENTATION's trace; the projection (frames, stored and cached marks, attachments, adapter
calls) is compared with the model's after every request."""
import json
import os
import re
import subprocess
import time

from props import topiclib as T
from props.statelib import eff, kvs, View


class LScn(T.Scn):
    kind = "p2p"
    faulty = False

    def clone(self, ops):
        s = LScn(self.id)
        s.head, s.nusers, s.sessions, s.kind = self.head, self.nusers, self.sessions, self.kind
        s.ops = list(ops)
        return s


class LView(View):
    """View of a block of the c09l driver / runner: the entries marked deleted ("pdel" lines) are kept apart"""
    def __init__(self, b):
        b2 = dict(b)
        b2["cache"] = [l for l in b["cache"] if not l.startswith("pdel")]
        View.__init__(self, b2)
        self.b = b
        self.pdel = {int(l.split()[1]) for l in b["cache"] if l.startswith("pdel")}


# ---------------------------------------------------------------------------
# the laws, on the implementation's trace

def lm_live(v, u):
    r = v.subs.get(u)
    return r if (r is not None and not r["deleted"]) else None


def lm_note_class(prev, origin, actor, what, seq):
    """What the property demands for a {note read|recv|kp}, judged on the implementation's own state before the
    request.  A read / recv note is STALE when its seq is not above the sender's mark - the cached one or the
    one in the sender's stored subscription row, whichever is higher: a mark that reached the store is a mark
    the user has, whatever a reload made of the cache."""
    if what not in ("read", "recv", "kp"):
        return "invalid", "unknown kind"
    if what in ("read", "recv") and seq <= 0:
        return "invalid", "seq <= 0"
    if what == "kp" and seq != 0:
        return "invalid", "typing note with a seq"
    attached = prev.loaded and origin in prev.csess
    if not attached:
        if what != "recv":
            return "reply", "not attached"
        if not prev.loaded:
            return "invalid", "topic not loaded"
    if seq > max(prev.cache.get("lastid", 0), prev.topic.get("seqid", 0)):
        return "invalid", "seq beyond the latest message"
    pud = prev.cusers.get(actor)
    row = lm_live(prev, actor)
    if pud is None or actor in prev.pdel:
        return ("unpermitted", "not subscribed") if row is None else ("other", "")
    if row is None:
        return "other", ""          # cache and store disagree about the subscription: C08's business
    mode, smode = eff(pud["want"], pud["given"]), eff(row["want"], row["given"])
    need = "W" if what == "kp" else "R"
    if need not in mode and need not in smode:
        return "unpermitted", "no " + need
    if (need in mode) != (need in smode):
        return "other", ""
    if what == "kp":
        return "valid", ""
    mark = max(pud[what], row[what])
    if seq <= mark:
        return "stale", "%s mark is %d (cached %d, stored %d)" % (what, mark, pud[what], row[what])
    return "valid", ""


def lm_not_silent(prev, v):
    out = []
    if v.frames or v.pres:
        out.append("output %s" % (v.frames + v.pres))
    if v.b.get("calls"):
        out.append("%s adapter call(s) [%s]" % (v.b["calls"], v.b.get("calllog", "")))
    if v.b["store"] != prev.b["store"]:
        out.append("store changed: %s" % [l for l in v.b["store"] if l not in prev.b["store"]])
    if prev.loaded and v.loaded and lm_cache_marks(v) != lm_cache_marks(prev):
        out.append("cache changed: %s" % [l for l in lm_cache_marks(v) if l not in lm_cache_marks(prev)])
    return out


def lm_cache_marks(v):
    return sorted("user %d read=%d recv=%d" % (u, p["read"], p["recv"]) for u, p in v.cusers.items())


def lm_monitor(sc, views):
    """-> [(law, op index, detail)]"""
    res = []
    prev = None
    rep = {}            # user -> last (read, recv) a {meta desc} reported to the user, within one subscription
    faulted = False     # a store call failed or the process crashed earlier in the history
    for k, v in enumerate(views):
        fault, kind, args = sc.ops[k]
        actor = sc.sessions.get(args[0]) if args else None
        crashed = fault[0] == "C"
        if fault != "N":
            faulted = True
        was_loaded = prev is not None and prev.loaded
        if prev is None and sc.kind == "sys" and kind not in ("restart",) and not crashed:
            was_loaded = True      # 'sys' is loaded by the hub at start; the first request is not a load
        fresh = v.loaded and (not was_loaded or kind == "restart" or crashed)
        seqid = v.topic.get("seqid", 0)
        # ---- a load copies each user's OWN stored marks
        if fresh:
            for u, p in v.cusers.items():
                if u in v.pdel:
                    continue
                r = lm_live(v, u)
                if r is None:
                    res.append(("loaded-marks-equal-stored", k, "after the load by %s %s user %d has a cache entry read=%d recv=%d del=%d but no live "
                                "subscription row" % (kind, args, u, p["read"], p["recv"], p["delid"])))
                elif (p["read"], p["recv"], p["delid"]) != (r["read"], r["recv"], r["delid"]):
                    res.append(("loaded-marks-equal-stored", k, "after the load by %s %s (session of user %s) the cache holds read=%d recv=%d del=%d "
                                "for user %d; that user's stored subscription row has read=%d recv=%d del=%d"
                                % (kind, args, actor, p["read"], p["recv"], p["delid"], u, r["read"], r["recv"], r["delid"])))
        # ---- bounds of the stored and cached marks
        for u, s in v.subs.items():
            if not s["deleted"] and not (0 <= s["read"] <= seqid and 0 <= s["recv"] <= seqid):
                res.append(("stored-marks-bounds", k, "user %d stored read=%d recv=%d latest=%d" % (u, s["read"], s["recv"], seqid)))
        if v.loaded:
            last = v.cache.get("lastid", 0)
            for u, p in v.cusers.items():
                if u not in v.pdel and not (0 <= p["read"] <= last and 0 <= p["recv"] <= last):
                    res.append(("cached-marks-bounds", k, "user %d cached read=%d recv=%d lastid=%d" % (u, p["read"], p["recv"], last)))
        # ---- a subscription that ended: its reports start again from zero
        for u in list(rep):
            if lm_live(v, u) is None:
                rep.pop(u)
        # ---- reports
        for sid, t in v.frames:
            if not t.startswith("desc "):
                continue
            d = kvs(t)
            ru = sc.sessions.get(sid)
            attached = prev is not None and prev.loaded and sid in prev.csess
            if ru is None or not attached or "/" not in d["acs"] or d["acs"] == "-/-":
                continue
            rd, rc, sq = int(d["read"]), int(d["recv"]), int(d["seq"])
            if "R" not in eff(*d["acs"].split("/", 1)):
                continue
            if not (0 <= rd <= rc <= sq):
                res.append(("reported-marks-bounds", k, "{meta desc} to session %d of user %d: %s" % (sid, ru, t)))
            r = lm_live(v, ru)
            if r is not None and "R" in eff(r["want"], r["given"]) and (rd < r["read"] or rc < r["recv"]):
                res.append(("reported-marks-not-below-stored", k, "{meta desc} to session %d of user %d reports read=%d recv=%d; the user's stored "
                            "subscription row has read=%d recv=%d" % (sid, ru, rd, rc, r["read"], r["recv"])))
            old = rep.get(ru)
            if old and not faulted and (rd < old[0] or rc < old[1]):
                res.append(("reported-marks-monotone-across-reload", k, "{meta desc} to session %d of user %d reports read=%d recv=%d after read=%d "
                            "recv=%d had been reported to the same user (same subscription; unloads / restarts in between do not matter)"
                            % (sid, ru, rd, rc, old[0], old[1])))
            if r is not None:
                rep[ru] = (rd, rc)
        if prev is not None:
            # ---- stored marks never decrease; who may move them
            acked = [t for sid, t in v.frames if t.startswith("ctrl 202")]
            for u, s in v.subs.items():
                p = prev.subs.get(u)
                if p is None or s["deleted"] or p["deleted"]:
                    continue
                if s["read"] < p["read"] or s["recv"] < p["recv"]:
                    res.append(("marks-monotone", k, "stored marks of user %d moved back: read %d->%d recv %d->%d by %s %s of user %s"
                                % (u, p["read"], s["read"], p["recv"], s["recv"], kind, args, actor)))
                if (s["read"], s["recv"]) != (p["read"], p["recv"]) and not (actor == u and kind in ("pub", "note")):
                    res.append(("mark-moved-by-other", k, "stored marks of user %d changed %s->%s by %s %s of user %s"
                                % (u, (p["read"], p["recv"]), (s["read"], s["recv"]), kind, args, actor)))
                if (s["read"], s["recv"]) != (p["read"], p["recv"]) and actor == u and kind == "pub" and acked and "seq" in kvs(acked[0]):
                    n = int(kvs(acked[0])["seq"])
                    if (s["read"], s["recv"]) != (n, n) and fault == "N":
                        res.append(("publisher-marks-jump", k, "publisher's stored marks are %d/%d after message %d" % (s["read"], s["recv"], n)))
            # ---- cached marks, while the topic stays loaded
            if prev.loaded and v.loaded and not fresh:
                for u, c in v.cusers.items():
                    p = prev.cusers.get(u)
                    if p is None or u in prev.pdel or u in v.pdel:
                        continue
                    if c["read"] < p["read"] or c["recv"] < p["recv"]:
                        res.append(("cached-marks-monotone", k, "cached marks of user %d moved back: read %d->%d recv %d->%d by %s %s of user %s"
                                    % (u, p["read"], c["read"], p["recv"], c["recv"], kind, args, actor)))
                    if (c["read"], c["recv"]) != (p["read"], p["recv"]) and not (actor == u and kind in ("pub", "note")):
                        res.append(("mark-moved-by-other", k, "cached marks of user %d changed %s->%s by %s %s of user %s"
                                    % (u, (p["read"], p["recv"]), (c["read"], c["recv"]), kind, args, actor)))
            # ---- notes
            infos = [(sid, t) for sid, t in v.frames if t.startswith("info ")]
            if kind == "note":
                origin, what, seq = args[0], args[1], int(args[2])
                cls, why = lm_note_class(prev, origin, actor, what, seq)
                if cls in ("invalid", "stale", "unpermitted"):
                    bad = lm_not_silent(prev, v)
                    if bad:
                        res.append((cls + "-note-silent", k, "%s note %s seq=%d (%s) from session %d of user %s was not dropped silently: %s"
                                    % (cls, what, seq, why, origin, actor, "; ".join(bad)[:600])))
                for sid, t in infos:
                    if sid == origin:
                        res.append(("info-not-to-origin", k, "relayed note echoed to the originating session %d" % sid))
                    if int(kvs(t)["from"]) != actor:
                        res.append(("info-true-sender", k, "relayed note names user %s, sent by %s" % (kvs(t)["from"], actor)))
            elif infos:
                res.append(("info-only-from-notes", k, "info frames produced by %s" % kind))
        prev = v
    return res


# ---------------------------------------------------------------------------
# scenarios

def lm_marks_of(v, u):
    """(stored read, stored recv, cached read, cached recv, latest) of user u in a MODEL view"""
    if v is None:
        return 0, 0, 0, 0, 0
    r = lm_live(v, u) or {"read": 0, "recv": 0}
    p = v.cusers.get(u) if v.loaded and u not in v.pdel else None
    p = p or r
    last = v.cache.get("lastid", 0) if v.loaded else v.topic.get("seqid", 0)
    return r["read"], r["recv"], p["read"], p["recv"], last


def lm_probe(rng, v, sid, u, stale_bias=0.6):
    """a read / recv note of user u whose seq is aimed at the user's marks in the model's state"""
    sr, sv, cr, cv, last = lm_marks_of(v, u)
    what = rng.choice(["read", "recv"])
    hi = max(sr, cr) if what == "read" else max(sv, cv)
    lo = min(sr, cr) if what == "read" else min(sv, cv)
    if rng.random() < stale_bias:
        seq = rng.choice([hi, hi, max(1, hi - 1), max(1, (hi + 1) // 2), 1, max(1, lo), max(1, lo + 1)])
    else:
        seq = rng.choice([hi + 1, last, last, min(last, hi + 2), last + 1, 0, -1, last + 3])
    return ("N", "note", [sid, what, seq])


def lm_head_p2p(rng, sc, shape):
    """stored state of the p2p topic.  shape: both / x-deleted / x-missing / new"""
    seqid = rng.randint(6, 12)
    exists = shape != "new"
    sc.head.append("scn %s kind=p2p exists=%d seqid=%d delid=%d" % (sc.id, 1 if exists else 0, seqid if exists else 0,
                                                                    rng.choice([0, 0, 1, 2]) if exists else 0))
    for i in (1, 2):
        sc.head.append("user %d acc=%d root=0" % (i, rng.choice([47, 47, 47, 63, 31])))
    x = rng.choice([1, 2])
    if exists:
        for i in (1, 2):
            state = "live"
            if i == x and shape in ("x-deleted", "x-missing"):
                state = shape[2:]
            if state == "missing":
                continue
            recv = rng.randint(2, seqid - 1)
            read = rng.randint(1, recv - 1) if rng.random() < 0.8 else recv
            if rng.random() < 0.08:
                read, recv = 0, rng.choice([0, recv])
            mode_w = rng.choice([31, 31, 31, 31, 31, 27, 29])       # JRWPA; no W; no R
            mode_g = rng.choice([31, 31, 31, 31, 47, 29])
            sc.head.append("subrow %d want=%d given=%d deleted=%d read=%d recv=%d del=%d"
                           % (i, mode_w, mode_g, 1 if state == "deleted" else 0, read, recv, rng.choice([0, 0, 0, 1, 2])))
        for n in range(1, seqid + 1):
            if rng.random() < 0.9:
                sc.head.append("msg %d from=%d content=%d" % (n, rng.choice([1, 2]), 10 + n))
    s = 0
    for i in (1, 2):
        for _ in range(rng.choice([1, 2, 2])):
            s += 1
            sc.sessions[s] = i
            sc.head.append("sess %d %d" % (s, i))
    return x


def lm_sids(sc, u):
    return [s for s in sorted(sc.sessions) if sc.sessions[s] == u]


def lm_gen_p2p(rng, i, faults):
    sc = LScn("l%d" % i)
    sc.kind = "p2p"
    sc.nusers = 2
    shape = ["both", "x-deleted", "both", "x-missing", "both", "x-deleted", "new", "both"][i % 8]
    x = lm_head_p2p(rng, sc, shape)
    y = 3 - x
    sx, sy = lm_sids(sc, x), lm_sids(sc, y)
    plan = []

    def flt():
        if faults and rng.random() < faults:
            sc.faulty = True
            return rng.choice(["F", "F", "C"]) + str(rng.randint(1, 4))
        return "N"

    def reports(rng, sc, v):
        ops = []
        for s in rng.sample(sx[:1] + sy[:1], 2):
            if v is not None and v.loaded and s in v.csess:
                ops.append(("N", rng.choice(["getdesc", "getdesc", "getsub"]), [s]))
        return ops

    def probes(n, bias):
        def f(rng, sc, v):
            ops = []
            for _ in range(n):
                s = rng.choice(sx + sy)
                ops.append(lm_probe(rng, v, s, sc.sessions[s], bias))
                if rng.random() < 0.2:
                    ops.append(ops[-1])
            return ops
        return f

    if shape == "both":
        # both parties attach, report, move their marks; one of them unsubscribes; everybody leaves; unload
        plan.append(lambda rng, sc, v: [("N", "sub", [sx[0]]), ("N", "sub", [sy[0]])] + ([("N", "sub", [sy[-1]])] if len(sy) > 1 and rng.random() < 0.5 else []))
        plan.append(reports)
        plan.append(lambda rng, sc, v: [(flt(), "pub", [rng.choice([sx[0], sy[0]]), 100 + j, 0]) for j in range(rng.randint(0, 2))])
        plan.append(probes(rng.randint(1, 3), 0.3))
        plan.append(reports)
        plan.append(lambda rng, sc, v: [(flt(), "leave", [sx[0], 1])] +
                    [("N", "leave", [s, 0]) for s in sorted(sc.sessions) if v is not None and s in v.csess and s != sx[0]] + [("N", "unload", [])])
    # the topic is not loaded; exactly one subscription exists (or both / none): either party comes back first
    first = rng.choice([x, y])
    second = 3 - first

    def come_back(rng, sc, v):
        s1 = lm_sids(sc, first)[0]
        ops = [(flt(), "sub" if rng.random() < 0.93 else "subp", [s1])]
        return ops
    plan.append(come_back)
    plan.append(lambda rng, sc, v: [("N", "getdesc", [lm_sids(sc, first)[0]])] if rng.random() < 0.6 else [])
    plan.append(lambda rng, sc, v: [(flt(), "sub", [lm_sids(sc, second)[0]])] if rng.random() < 0.9 else [])
    plan.append(reports)
    plan.append(probes(rng.randint(2, 4), 0.7))
    plan.append(reports)
    # tail: anything
    for _ in range(rng.randint(1, 4)):
        def tail(rng, sc, v):
            r = rng.random()
            s = rng.choice(sorted(sc.sessions))
            if r < 0.2:
                return [(flt(), "pub", [s, 300 + len(sc.ops), 1 if rng.random() < 0.2 else 0])]
            if r < 0.45:
                return [lm_probe(rng, v, s, sc.sessions[s], 0.5)]
            if r < 0.55:
                return [("N", "note", [s, rng.choice(["kp", "kp", "xx"]), rng.choice([0, 0, 1])])]
            if r < 0.65:
                return [(flt(), "sub", [s])]
            if r < 0.72:
                return [(flt(), "leave", [s, rng.choice([0, 0, 1])])]
            if r < 0.86:
                att = [q for q in sorted(sc.sessions) if v is not None and v.loaded and q in v.csess]
                return [("N", "leave", [q, 0]) for q in att] + [("N", rng.choice(["unload", "unload", "restart"]), [])] + \
                       [(flt(), "sub", [q]) for q in rng.sample(sorted(sc.sessions), min(2, len(sc.sessions)))]
            return [("N", rng.choice(["getdesc", "getsub"]), [s])]
        plan += [tail, reports]
    return sc, plan


def lm_gen_sys(rng, i, faults):
    sc = LScn("y%d" % i)
    sc.kind = "sys"
    n = 3
    sc.nusers = n
    seqid = rng.randint(5, 9)
    sc.head.append("scn %s kind=sys exists=1 seqid=%d delid=%d" % (sc.id, seqid, rng.choice([0, 0, 1])))
    for u in range(1, n + 1):
        sc.head.append("user %d acc=47 root=%d" % (u, 1 if u <= 2 else 0))
    for u in (1, 2):
        if rng.random() < 0.8:
            recv = rng.randint(2, seqid - 1)
            read = rng.randint(1, recv)
            sc.head.append("subrow %d want=%d given=79 deleted=%d read=%d recv=%d del=0"
                           % (u, rng.choice([79, 79, 79, 77]), 1 if rng.random() < 0.15 else 0, read, recv))
    for q in range(1, seqid + 1):
        sc.head.append("msg %d from=%d content=%d" % (q, rng.choice([1, 2, 3]), 10 + q))
    for s, u in ((1, 1), (2, 2), (3, 3), (4, 1)):
        sc.sessions[s] = u
        sc.head.append("sess %d %d" % (s, u))
    plan = []

    def flt():
        if faults and rng.random() < faults:
            sc.faulty = True
            return rng.choice(["F", "F", "C"]) + str(rng.randint(1, 3))
        return "N"
    plan.append(lambda rng, sc, v: [(flt(), "sub", [s]) for s in (1, 2, 4) if rng.random() < 0.85])
    for _ in range(rng.randint(3, 6)):
        def stepf(rng, sc, v):
            r = rng.random()
            s = rng.choice([1, 2, 4, 1, 2, 3])
            if r < 0.3:
                return [lm_probe(rng, v, s, sc.sessions[s], 0.6)]
            if r < 0.5:
                return [("N", "getdesc", [s])]
            if r < 0.62:
                return [(flt(), "pub", [s, 200 + len(sc.ops), 0])]
            if r < 0.8:
                return [("N", "restart", [])] + [(flt(), "sub", [q]) for q in (1, 2) if rng.random() < 0.9] + [("N", "getdesc", [rng.choice([1, 2])])]
            if r < 0.9:
                return [(flt(), "leave", [s, rng.choice([0, 1])])]
            return [(flt(), "sub", [s])]
        plan.append(stepf)
    return sc, plan


def lm_run_impl(ctx, scns, tag="lm"):
    import vlib
    fin = os.path.join(ctx.work, "lscn_%s.in" % tag)
    fout = os.path.join(ctx.work, "lscn_%s.impl" % tag)
    with open(fin, "w") as f:
        for sc in scns:
            f.write("\n".join(sc.lines()) + "\n")
    if os.path.exists(fout):
        os.remove(fout)
    env = dict(vlib.GOENV, VERIF_IN=fin, VERIF_OUT=fout)
    p = subprocess.run([os.path.join(vlib.BUILD, "maindrv.test"), "-test.run", "^TestVerifC09lLoadMarks$", "-test.count=1", "-test.timeout=3000s"],
                       stdout=subprocess.PIPE, stderr=subprocess.STDOUT, env=env, cwd=os.path.join(vlib.REPO, "server"), timeout=3400)
    out = p.stdout.decode("utf8", "replace")
    lines = open(fout).read().split("\n") if os.path.exists(fout) else []
    log = "\n".join(l for l in out.split("\n") if not (len(l) > 3 and l[0] in "IWE" and l[1:3] == "20"))
    return p.returncode, T.parse_blocks(lines), log


def lm_run_model(ctx, scns):
    lines = []
    for sc in scns:
        lines += sc.lines()
    rc, out, err = ctx.run_model("c09l", lines)
    flat = []
    for o in out:
        flat += o.split("\n")
    return rc, T.parse_blocks(flat), err


def lm_generate(ctx, np2p, nsys):
    rng = ctx.rng
    scns, plans = [], {}
    for i in range(np2p):
        sc, plan = lm_gen_p2p(rng, i, 0.0 if i % 3 else 0.15)
        scns.append(sc)
        plans[sc.id] = plan
    for i in range(nsys):
        sc, plan = lm_gen_sys(rng, i, 0.0 if i % 3 else 0.15)
        scns.append(sc)
        plans[sc.id] = plan
    for r in range(max(len(p) for p in plans.values())):
        rc, model, err = lm_run_model(ctx, scns)
        for sc in scns:
            if r < len(plans[sc.id]):
                blocks = model.get(sc.id) or []
                v = LView(blocks[-1]) if blocks else None
                sc.ops += plans[sc.id][r](rng, sc, v)
    # a scenario must start with a request
    for sc in scns:
        if not sc.ops:
            sc.ops = [("N", "sub", [1])]
    return scns


# ---------------------------------------------------------------------------
# projection compared between the implementation and the model

def lm_norm_frame(t):
    if t.startswith("ctrl "):
        w = t.split()
        d = kvs(t)
        if w[1] == "205":
            return None         # eviction notice to the unsubscribing user's other sessions: not C09's projection
        return "ctrl " + w[1] + (" seq=" + d["seq"] if w[1] == "202" and "seq" in d else "")
    if t.startswith(("data ", "desc ", "sub ", "info ")):
        return t
    return None


def lm_project(op, skip_frames):
    fr = {}
    if not skip_frames:
        for sid, t in op["frames"]:
            n = lm_norm_frame(t)
            if n and sid != 0:
                fr.setdefault(sid, []).append(n)
    store = []
    for l in op["store"]:
        if l.startswith("topic "):
            store.append(l.split(" owner=")[0])
        elif l.startswith("sub ") and not l.startswith("sub 0 "):
            store.append(l)         # "sub 0": soft-deleted rows the singleton 'sys' topic keeps from users of earlier scenarios
    cache = []
    for l in op["cache"]:
        if l.startswith("lastid"):
            cache.append(l.split(" owner=")[0])
        elif l.startswith("user "):
            cache.append(re.sub(r" online=\S+", "", l))
        elif l.startswith("sess "):
            cache.append(re.sub(r" bkg=\S+", "", l))
        else:
            cache.append(l)
    return {"frames": fr, "store": store, "cache": sorted(cache), "loaded": op["loaded"], "calls": op["calls"]}


def lm_mon(sc, blocks):
    res = lm_monitor(sc, [LView(b) for b in blocks])
    for k, b in enumerate(blocks):
        if b["hang"]:
            res.append(("hang", k, b["hang"]))
    return res


def lm_replay_scn(rp):
    sc = LScn(rp["head"][0].split()[1])
    sc.head = rp["head"]
    sc.ops = [(o[0], o[1], list(o[2])) for o in rp["ops"]]
    sc.kind = kvs(sc.head[0])["kind"]
    for l in sc.head:
        w = l.split()
        if w[0] == "sess":
            sc.sessions[int(w[1])] = int(w[2])
    sc.nusers = 2
    return sc


def load_marks(ctx):
    quick = ctx.tier == "quick"
    if ctx.replay:
        rp = json.load(open(ctx.replay))["replay"]
        if not (isinstance(rp, dict) and rp.get("loadmarks_part")):
            return
        scns = [lm_replay_scn(rp)]
    else:
        scns = lm_generate(ctx, 150 if quick else 3000, 30 if quick else 600)
    t0 = time.time()
    rc, impl, log = lm_run_impl(ctx, scns)
    t_impl = time.time() - t0
    bad = next((sc for sc in scns if sc.id not in impl or len(impl[sc.id]) != len(sc.ops)), None)
    if rc != 0 or bad is not None:
        ctx.violation("monitor", "server-crashed", "the server process died or stopped answering in the load-marks part (scenario %s): %s"
                      % (bad.id if bad else "?", log[-1500:]),
                      {"loadmarks_part": True, "head": bad.head if bad else [], "ops": [list(o) for o in bad.ops] if bad else []})
        return
    rcm, model, err = lm_run_model(ctx, scns)
    fails = {}
    for sc in scns:
        for law, k, detail in lm_mon(sc, impl[sc.id]):
            fails.setdefault(law, []).append((sc, k, detail))
    known = {f["key"] for f in ctx.load_findings() if f["property"] == ctx.pid}
    nshrunk = 0
    for law, lst in sorted(fails.items()):
        sc, k, detail = min(lst, key=lambda x: (x[1], len(x[0].ops)))
        small = sc.clone(sc.ops[:k + 1])
        if nshrunk < 4 and not ctx.replay and len(small.ops) > 3 and law not in known:
            nshrunk += 1

            def still_bad(c, law=law):
                rc2, im2, _ = lm_run_impl(ctx, [c], tag="lmshrink")
                return rc2 == 0 and c.id in im2 and len(im2[c.id]) == len(c.ops) and any(l == law for l, _, _ in lm_mon(c, im2[c.id]))
            small = T.shrink(ctx, small, still_bad, budget=8 if quick else 60)
            rc2, im2, _ = lm_run_impl(ctx, [small], tag="lmshrink")
            if rc2 == 0 and small.id in im2:
                hit = [(l, kk, d) for l, kk, d in lm_mon(small, im2[small.id]) if l == law]
                if hit:
                    detail = hit[0][2]
        ctx.violation("monitor", law, "law %s fails on the implementation's trace (load-marks part, %s topic, %d cases this run): %s"
                      % (law, sc.kind, len(lst), detail),
                      {"loadmarks_part": True, "head": small.head, "ops": [list(o) for o in small.ops], "law": law, "detail": detail,
                       "cases_failing": len(lst)})
    mism = []
    if rcm != 0:
        ctx.violation("proof", "runner-crashed", "model runner (c09l) failed: " + err[-1200:], {"theorem_or_obligation": "model runner c09l"})
    else:
        for sc in scns:
            io, mo = impl[sc.id], model.get(sc.id, [])
            if len(io) != len(mo):
                mism.append((sc, -1, [("shape", len(io), len(mo))]))
                continue
            att = set()
            for k in range(len(io)):
                kind, args = sc.ops[k][1], sc.ops[k][2]
                # frames of {get desc|sub} from a session that is not attached are answered from the store by the hub
                # (no cached mark involved): outside the projection
                skip = kind in ("getdesc", "getsub") and args[0] not in att
                a, b = lm_project(io[k], skip), lm_project(mo[k], skip)
                if a != b:
                    mism.append((sc, k, {key: (a[key], b[key]) for key in a if a[key] != b[key]}))
                    break
                att = set(LView(io[k]).csess) if io[k]["loaded"] == "1" else set()
        if mism and not [l for l in fails if l not in known]:
            sc, k, d = min(mism, key=lambda x: (x[1], len(x[0].ops)))
            base = sc.clone(sc.ops[:k + 1]) if k >= 0 else sc
            ctx.violation("corr", "correspondence-loadmarks-" + (sc.ops[k][1] if k >= 0 else "shape"),
                          "model (Sys/LoadMarksC09.v) and implementation disagree on %d of %d %s histories (frames, stored and cached marks, "
                          "attachments, adapter calls after every request); first: op %d %s: %s; no law failure on this run's histories"
                          % (len(mism), len(scns), "p2p/sys", k, sc.ops[k] if k >= 0 else "", json.dumps(d, default=str)[:900]),
                          {"correspondence": "C09 projection of the load-marks slice", "loadmarks_part": True, "head": base.head,
                           "ops": [list(o) for o in base.ops], "diff": d})
    # measured coverage, on the implementation's trace
    branches, notes, reports, kinds = {}, {}, 0, {}
    for sc in scns:
        views = [LView(b) for b in impl[sc.id]]
        prev = None
        for k, v in enumerate(views):
            fault, kind, args = sc.ops[k]
            kinds[sc.kind + ":" + kind] = kinds.get(sc.kind + ":" + kind, 0) + 1
            if v.loaded and (prev is None or not prev.loaded) and sc.kind == "p2p":
                cl = v.b["calllog"]
                who = sc.sessions.get(args[0]) if args else None
                if "TopicCreateP2P" in cl:
                    br = "new topic"
                elif "UserGetAll" in cl:
                    mine = prev.subs.get(who) if prev is not None else None
                    if prev is None:
                        mine = None
                        for l in sc.head:
                            w = l.split()
                            if w[0] == "subrow" and int(w[1]) == who and "deleted=0" in l:
                                mine = {"deleted": False}
                    br = "one subscription: the requester's exists, the other party's is recreated" if (mine and not mine["deleted"]) \
                        else "one subscription: the other party's exists, the requester's is recreated"
                else:
                    br = "both subscriptions"
                branches[br] = branches.get(br, 0) + 1
            if kind == "note" and prev is not None:
                cls = lm_note_class(prev, args[0], sc.sessions.get(args[0]), args[1], int(args[2]))[0]
                moved = v.b["store"] != prev.b["store"]
                key = "%s: %s" % (cls, "stored" if moved else ("relayed" if any(t.startswith("info") for s, t in v.frames) else "dropped silently"))
                notes[key] = notes.get(key, 0) + 1
            reports += sum(1 for s, t in v.frames if t.startswith("desc ") or t.startswith("sub "))
            prev = v
    need = ["both subscriptions", "new topic", "one subscription: the requester's exists, the other party's is recreated",
            "one subscription: the other party's exists, the requester's is recreated"]
    empty = [b for b in need if not branches.get(b)]
    if empty and not ctx.replay:
        ctx.notes.append("load-marks part: load branches not visited this run: %s" % empty)
    ctx.coverage["load_marks"] = {
        "scenarios": len(scns), "operations": sum(len(sc.ops) for sc in scns), "histories_with_store_faults": sum(1 for sc in scns if sc.faulty),
        "p2p_load_branches_taken": branches, "notes_by_demanded_handling_and_outcome": notes, "desc_and_sub_reports": reports, "op_kinds": kinds,
        "law_failures": {l: len(v) for l, v in fails.items()}, "correspondence_mismatches": len(mism), "impl_wall_s": round(t_impl, 1),
        "rule": "model-guided histories on one peer-to-peer topic whose stored subscription rows carry different read/recv/del marks for the two "
                "parties (both rows live / one soft-deleted or missing / new topic; 1-2 sessions per party): both attach, {get desc|sub}, publishes, "
                "notes, one party unsubscribes, everybody leaves, idle unload, then EITHER party re-subscribes first (initTopicP2P: requester's row "
                "missing / other party's row missing / both / none), {get desc} / {get sub} by both, read and recv notes whose seq is aimed from the "
                "extracted model's state at the sender's stored and cached marks (mark, mark-1, half, 1, mark+1, lastID, lastID+1, 0, -1), "
                "duplicates, typing and unknown notes, further publishes, leave / unsubscribe / unload / restart / re-attach; and on the 'sys' topic "
                "(root subscribers with stored marks, restart reloads it through loadSubscribers); a third of the histories with single failing or "
                "crashing store calls",
        "trusted_base": ["harness/overlay/server/zz_verif_c09l_test.go (+ xScn of zz_verif_c01x_test.go, vScn of zz_verif_topic_test.go), "
                         "harness/runner/r_c09l.ml, python laws of tools/props/c09load.py lm_monitor"]}
