"""C01, part 'join': two near-simultaneous {sub} to a group topic that is not loaded (the second one is taken by the hub while the
load started by the first one is inside its first store read), then publishes from the sessions.  Model coq/Sys/HubJoinC01.v,
theorems c01_join_* in coq/Props/PropC01.v, driver harness/overlay/server/zz_verif_c01j_test.go (TestVerifC01j), runner
harness/runner/r_c01j.ml.  Called from c01.run; replay files carry part = 'join'."""
import json
import os
import subprocess
import time
import vlib
from props import statelib
from props import topiclib as T
from props.statelib import kvs


def gen_join_scn(rng, sid):
    sc = T.Scn(sid)
    n = rng.choice([2, 2, 3, 4])
    sc.nusers = n
    sc.head.append("scn %s owner=1 auth=47 anon=0 ownerwant=255 ownergiven=255" % sid)
    for i in range(1, n + 1):
        sc.head.append("user %d acc=47" % i)
    for i in range(2, n + 1):
        sc.head.append("subrow %d want=47 given=47" % i)
    s = 0
    for i in range(1, n + 1):
        for _ in range(rng.choice([1, 1, 2])):
            s += 1
            sc.sessions[s] = i
            sc.head.append("sess %d %d" % (s, i))
    sids = sorted(sc.sessions)
    ops = []
    attached = set()      # as the unchanged code answers: the second join of a held load is refused (503) and retried
    loaded = False
    if len(sids) >= 3 and rng.random() < 0.2:
        a = rng.choice(sids)
        ops.append(("N", "sub", [a, "-", 0]))
        attached.add(a)
        loaded = True
    free = [x for x in sids if x not in attached]
    rng.shuffle(free)
    a, b = free[0], free[1]
    ops.append(("N", "join2", [a, b]))
    attached.add(a)
    if loaded:
        attached.add(b)
    # publishes of the two sessions right after the joins (the retry of the refused one sometimes comes first)
    order = [a, b] if rng.random() < 0.5 else [b, a]
    if b not in attached and rng.random() < 0.5:
        ops.append(("N", "sub", [b, "-", 0]))
        attached.add(b)
    for x in order:
        ops.append(("N", "pub", [x, 100 + len(ops), rng.choice([0, 0, 1])]))
    for _ in range(rng.randint(3, 9)):
        x = rng.choice(sids)
        if x not in attached:
            ops.append(("N", "sub", [x, "-", 0]))
            attached.add(x)
        else:
            ops.append(("N", "pub", [x, 100 + len(ops), rng.choice([0, 0, 1])]))
    sc.ops = ops
    return sc


def join_run_impl(ctx, scns, tag="j"):
    fin = os.path.join(ctx.work, "jscn_%s.in" % tag)
    fout = os.path.join(ctx.work, "jscn_%s.impl" % tag)
    with open(fin, "w") as f:
        for sc in scns:
            f.write("\n".join(sc.lines()) + "\n")
    if os.path.exists(fout):
        os.remove(fout)
    env = dict(vlib.GOENV, VERIF_IN=fin, VERIF_OUT=fout)
    p = subprocess.run([os.path.join(vlib.BUILD, "maindrv.test"), "-test.run", "^TestVerifC01j$", "-test.count=1", "-test.timeout=3000s"],
                       stdout=subprocess.PIPE, stderr=subprocess.STDOUT, env=env, cwd=os.path.join(vlib.REPO, "server"), timeout=3400)
    out = p.stdout.decode("utf8", "replace")
    lines = open(fout).read().split("\n") if os.path.exists(fout) else []
    log = "\n".join(l for l in out.split("\n") if not (len(l) > 3 and l[0] in "IWE" and l[1:3] == "20"))
    return p.returncode, T.parse_blocks(lines), log


def join_run_model(ctx, scns):
    lines = []
    for sc in scns:
        lines += sc.lines()
    rc, out, err = ctx.run_model("c01j", lines)
    flat = []
    for o in out:
        flat += o.split("\n")
    return rc, T.parse_blocks(flat), err


def join_project(op):
    """per connection: the reply codes and acknowledged numbers, in order; the numbers passed to Save with the outcome"""
    fr = {}
    saves = []
    for sid, t in op["frames"]:
        if sid == 0:
            if t.startswith("saves "):
                saves = t.split()[1:]
            continue
        if t.startswith("ctrl "):
            d = kvs(t)
            fr.setdefault(sid, []).append(t.split()[1] + (" seq=" + d["seq"] if "seq" in d and t.startswith("ctrl 202") else ""))
    return {"replies": fr, "saves": saves}


def join_monitor(sc, blocks):
    res = []
    acks = []
    saved = set()
    for k, b in enumerate(blocks):
        if b["hang"]:
            res.append(("hang", k, b["hang"]))
        for sid, t in b["frames"]:
            if sid == 0 and t.startswith("saves "):
                for item in t.split()[1:]:
                    n, ok = item.split(":")
                    if int(n) in saved:
                        res.append(("number-reissued-after-save", k, "number %s is passed to store.Messages.Save again after a message was stored under it" % n))
                    if ok == "1":
                        saved.add(int(n))
            elif sid != 0 and t.startswith("ctrl 202") and "seq" in kvs(t):
                n = int(kvs(t)["seq"])
                if n in acks:
                    res.append(("number-issued-twice", k, "number %d acknowledged twice" % n))
                elif n != len(acks) + 1:
                    res.append(("numbers-consecutive", k, "acknowledged %d as the %d. accepted message of the topic (no fault, no reload)" % (n, len(acks) + 1)))
                acks.append(n)
    return res


def restore(rp):
    sc = T.Scn(rp["head"][0].split()[1])
    sc.head = rp["head"]
    sc.ops = [tuple(o) for o in rp["ops"]]
    return statelib.restore_sessions(sc)


def run_join(ctx):
    quick = ctx.tier == "quick"
    rng = ctx.rng
    if ctx.replay:
        scns = [restore(json.load(open(ctx.replay))["replay"])]
    else:
        scns = [gen_join_scn(rng, "j%d" % i) for i in range(40 if quick else 1500)]
    t0 = time.time()
    rc, impl, log = join_run_impl(ctx, scns)
    t_impl = time.time() - t0
    bad = next((sc for sc in scns if sc.id not in impl or len(impl[sc.id]) != len(sc.ops)), None)
    if rc != 0 or bad is not None:
        ctx.violation("monitor", "server-crashed", "the server process died or stopped answering while running concurrent-joins scenario %s: %s"
                      % (bad.id if bad else "?", log[-1500:]),
                      {"part": "join", "head": bad.head if bad else [], "ops": bad.ops if bad else [], "log": log[-4000:]})
        return
    rc, model, err = join_run_model(ctx, scns)
    if rc != 0:
        ctx.violation("proof", "runner-crashed", "model runner (c01j) failed: " + err[-1500:], {"theorem_or_obligation": "model runner c01j"})
        return
    fails = []
    for sc in scns:
        for law, k, detail in join_monitor(sc, impl[sc.id]):
            fails.append((sc, law, k, detail))
    seen = {}
    for sc, law, k, detail in fails:
        seen.setdefault(law, []).append((sc, k, detail))
    for law, lst in seen.items():
        sc, k, detail = min(lst, key=lambda x: (x[1], len(x[0].ops)))
        small = sc.clone(sc.ops[:k + 1])
        ctx.violation("monitor", law, "law %s fails on the implementation's trace of a group topic joined by two connections at once (%d scenarios this run): %s"
                      % (law, len(lst), detail),
                      {"part": "join", "head": small.head, "ops": small.ops, "law": law, "detail": detail, "scenarios_failing": len(lst)})
    mism = []
    for sc in scns:
        io, mo = impl[sc.id], model.get(sc.id, [])
        if len(io) != len(mo):
            mism.append((sc, -1, "shape %d/%d" % (len(io), len(mo))))
            continue
        for k in range(len(io)):
            a, b = join_project(io[k]), join_project(mo[k])
            if a != b:
                mism.append((sc, k, {key: (a[key], b[key]) for key in a if a[key] != b[key]}))
                break
    if mism and not fails:
        sc, k, d = min(mism, key=lambda x: (x[1] if x[1] >= 0 else 10 ** 6, len(x[0].ops)))
        base = sc.clone(sc.ops[:k + 1]) if k >= 0 else sc
        ctx.violation("corr", "correspondence-concurrent-joins-" + (sc.ops[k][1] if k >= 0 else "shape"),
                      "model (Sys/HubJoinC01.v) and implementation disagree on %d of %d histories with two joins at once (reply codes, acknowledged numbers, numbers passed to Save); first (prefix): op %d %s: %s"
                      % (len(mism), len(scns), k, sc.ops[k] if k >= 0 else "", json.dumps(d, default=str)[:800]),
                      {"part": "join", "correspondence": "reply codes, acknowledged numbers and numbers passed to Save on histories with two joins at once", "head": base.head, "ops": base.ops, "diff": d})
    held = sum(1 for sc in scns for b in impl[sc.id] if any(s == 0 and t.startswith("held") for s, t in b["frames"]))
    refused = sum(1 for sc in scns for k, b in enumerate(impl[sc.id]) if sc.ops[k][1] == "join2" and any(t.startswith("ctrl 503") for s, t in b["frames"]))
    acks = sum(1 for sc in scns for b in impl[sc.id] for s, t in b["frames"] if s != 0 and t.startswith("ctrl 202 seq"))
    ctx.coverage["concurrent_joins"] = {
        "evaluations": len(scns), "distinct_nontrivial": len({repr((sc.head[1:], sc.ops)) for sc in scns}), "operations_executed": sum(len(sc.ops) for sc in scns),
        "rule": "group topic, 2-4 subscribed writers x 1-2 connections, not loaded (in a fifth of the histories loaded by an earlier {sub}); join2 a b = both {sub} with the second taken by the real hub while the first one's topicInit is held at the entry of its first store read (memverif call hook on TopicGet); then the publishes of both connections in either order, the retry of the refused join before or after, further joins and publishes",
        "joins_taken_while_a_load_was_held": held, "second_join_refused_503": refused, "acknowledged_numbers": acks,
        "correspondence_mismatches": len(mism), "monitor_failures": len(fails), "impl_wall_s": round(t_impl, 1),
        "samples": [{"head": sc.head, "ops": sc.ops} for sc in scns[:1]],
    }
