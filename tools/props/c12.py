"""C12 secrets: theorems in coq/Props/PropC12.v about Pure/Token.v, Code.v,
ApiKey.v, Basic.v (bcrypt = three-valued oracle over arbitrary stored bytes); correspondence against the REAL token / code / basic
authenticators (harness/ext/c12*.go) and checkAPIKey (package main, overlay
driver), in two phases: the implementation runs first and reports, next to
its answer, the clock readings and the real HMAC values of exactly the data
it had to sign or verify; the extracted model is then evaluated on the same
request with those values as its MAC function.
Token RE-ISSUANCE on {login} (Session.login / onLogin, reset flow, temporary tokens of {acc};
model Sys/Relogin.v, theorems c12_relogin_* / c12_tmp_token_*) is the part in c12relogin.py:
package-main driver zz_verif_c12x_test.go, histories of logins, laws relogin-* / reset-* / tmp-token-*."""
import base64
import hashlib
import hmac
import json
import struct
import vlib
from props import c12relogin

KEY1 = bytes(range(1, 33))
KEY2 = bytes(range(101, 141))
KEY3 = bytes([0xAA] * 32)
SALT1 = bytes(range(50, 82))
SALT2 = b"T713/rYYgW7g4m3vG6zGRh7+FM1t0T8j13koXScOAj4="[:32]
U64 = (1 << 64) - 1
SEC = 10 ** 9


def hx(b):
    return b.hex() if b else "-"


def unhx(h):
    return b"" if h == "-" else bytes.fromhex(h)


# ------------------------------------------------------------------ generation
def tcase(key=KEY1, serial=5, expire_in=3600, uid=12345, level=20, feat=1, lt="n:0", vkey="=", vserial="=", mut="none"):
    return "T %s %d %d %d %d %d %s %s %s %s" % (hx(key), serial, expire_in, uid, level, feat, lt,
                                                vkey if vkey == "=" else hx(vkey), vserial, mut)


def gen_token(ctx, quick):
    rng = ctx.rng
    cs = []
    serials = [5, 0, 65535, 1, 40000]
    odd_serials = [65541, 65536, -3, -65531, 131077, 1 << 40]
    lifetimes_ok = ["n:0", "n:%d" % (5 * SEC), "n:%d" % (86400 * SEC), "n:%d" % (14 * 86400 * SEC + 123456789),
                    "n:%d" % ((1 << 32) * SEC + 3600 * SEC),          # valid after one uint32 wrap, shorter than asked
                    "n:%d" % (2 * (1 << 32) * SEC + 7200 * SEC),      # two wraps
                    "w:1:-100", "w:1:-3600"]                          # just before 2106-02-07
    lifetimes_bad = ["n:1", "n:%d" % (SEC // 2), "n:%d" % (SEC - 1), "n:-1", "n:%d" % (-5 * SEC),
                     "w:1:0", "w:1:100", "w:2:50", "w:1:86400"]       # wrapped into 1970: expired at once
    def rrec():
        uid = rng.choice([0, 1, U64, rng.getrandbits(64), rng.getrandbits(64), rng.getrandbits(40)])
        level = rng.choice([0, 10, 20, 30, 20, 20, 10])
        feat = rng.choice([0, 1, 2, 3, 65535, rng.getrandbits(16)])
        return uid, level, feat
    # round trips over configurations and records
    for _ in range(150 if quick else 3000):
        uid, level, feat = rrec()
        cs.append(tcase(key=rng.choice([KEY1, KEY2, KEY3]), serial=rng.choice(serials),
                        expire_in=rng.choice([3600, 1209600, 5, 100000]), uid=uid, level=level, feat=feat,
                        lt=rng.choice(lifetimes_ok + lifetimes_bad)))
    for lt in lifetimes_ok + lifetimes_bad:
        cs.append(tcase(lt=lt))
    # odd records (truncation on issue) and odd configurations
    for level in [31, 7, 65556, -1, 65535, 40, 1 << 20]:
        cs.append(tcase(level=level))
    for e in [18446744074, 9223372037, 9223372036, 4294967296 + 7200, 2 * 4294967296 + 7200, 1, 0, -5]:
        cs.append(tcase(expire_in=e))
    cs.append(tcase(key=b"short"))
    cs.append(tcase(key=bytes(31)))
    for s in odd_serials:
        cs.append(tcase(serial=s))                                     # own token under an out-of-range serial
        cs.append(tcase(serial=s, vserial=str(s % 65536)))             # alias
        cs.append(tcase(serial=s % 65536, vserial=str(s)))
    # wrong serial / foreign key
    for a in serials:
        for b in serials + [a + 1, a + 65536]:
            if a != b:
                cs.append(tcase(serial=a, vserial=str(b)))
    for k, v in [(KEY1, KEY2), (KEY2, KEY1), (KEY1, KEY3), (KEY1, KEY1[:-1] + b"\x21"), (KEY1, KEY1 + b"\x01")]:
        for _ in range(4):
            uid, level, feat = rrec()
            cs.append(tcase(key=k, vkey=v, uid=uid, level=level, feat=feat))
    # every single-bit flip of the 50 bytes of issued tokens
    for t in range(2 if quick else 20):
        uid, level, feat = rrec()
        key = rng.choice([KEY1, KEY2])
        serial = rng.choice(serials)
        for bit in range(400):
            cs.append(tcase(key=key, serial=serial, uid=uid, level=level, feat=feat, mut="flip:%d" % bit))
    # random multi-bit mutations
    for _ in range(300 if quick else 6000):
        uid, level, feat = rrec()
        m = bytearray(50)
        for _ in range(rng.choice([2, 2, 3, 5, 16, 100])):
            m[rng.randrange(50)] ^= 1 << rng.randrange(8)
        if rng.random() < 0.3:   # data only / signature only
            m = bytearray(m[:18] + bytes(32)) if rng.random() < 0.5 else bytearray(bytes(18) + m[18:])
        if any(m):
            cs.append(tcase(uid=uid, level=level, feat=feat, mut="xor:" + hx(bytes(m))))
    # truncations (every length) and extensions
    for n in range(50):
        cs.append(tcase(mut="trunc:%d" % n))
    for n in [1, 2, 18, 32, 50, 200]:
        cs.append(tcase(mut="ext:" + hx(bytes(rng.getrandbits(8) for _ in range(n)))))
    # correctly signed tokens the server would never issue; wrongly signed ones
    for lvl in [0, 10, 20, 30, 31, 32, 255, 256, 65535]:
        cs.append(tcase(mut="craft:77:3600:%d:5:1:=" % lvl))
    for rel in [-100000, -10, -1, 0, 10, 3600, 100000000]:
        cs.append(tcase(mut="craft:77:%d:20:5:1:=" % rel))
    for ser in [0, 4, 5, 6, 65535]:
        cs.append(tcase(mut="craft:77:3600:20:%d:1:=" % ser))
        cs.append(tcase(serial=65541, mut="craft:77:3600:20:%d:1:=" % ser))
    cs.append(tcase(mut="craft:77:3600:20:5:1:" + hx(KEY2)))
    cs.append(tcase(mut="craft:77:3600:20:5:1:" + hx(KEY1[:-1])))
    # junk
    for n in list(range(0, 60, 7)) + [49, 50, 51, 120]:
        cs.append(tcase(mut="set:" + hx(bytes(rng.getrandbits(8) for _ in range(n)))))
    cs.append(tcase(mut="set:" + hx(bytes(50))))
    cs.append(tcase(mut="set:" + hx(bytes([255] * 50))))
    return cs


def make_apikey(salt, seq, root, version=1, appid=0):
    data = struct.pack("<BIHB", version, appid, seq, root)
    return base64.urlsafe_b64encode(data + hmac.new(salt, data, hashlib.md5).digest())


B64 = b"ABCDEFGHIJKLMNOPQRSTUVWXYZabcdefghijklmnopqrstuvwxyz0123456789-_"


def gen_apikey(ctx, quick):
    rng = ctx.rng
    cs = []
    def K(key, salt=SALT1):
        cs.append("K %s %s" % (hx(salt), hx(key)))
    valid = [make_apikey(SALT1, s, r) for s in (0, 1, 7, 65535) for r in (0, 1)]
    for k in valid:
        K(k)
        K(k, SALT2)                                   # signed with a foreign salt
    for r in (2, 255):
        K(make_apikey(SALT1, 1, r))
    for v in (0, 2, 255):
        K(make_apikey(SALT1, 1, 0, version=v))        # correctly signed, other version byte
    K(make_apikey(SALT2, 3, 1), SALT2)
    # every single-byte mutation of valid keys
    for k in (valid[:1] if quick else valid[:4]):
        for i in range(len(k)):
            for b in range(256):
                if b != k[i]:
                    K(k[:i] + bytes([b]) + k[i + 1:])
    # CR / LF inside and around a valid key; padding; length gate 32..35
    k = valid[1]
    for ins in (b"\n", b"\r", b"\r\n", b"\n\n\n", b"\n\n\n\n", b"=", b"==", b"A", b" "):
        for pos in (0, 1, 4, 16, 31, 32):
            K(k[:pos] + ins + k[pos:])
    for n in range(0, 40):
        K(k[:n])
        K(b"\n" * n)
        K(b"\r" * n)
        K(b"A" * n)
    K(b"\r\n" * 16)
    K(b"AQAA" + b"\n" * 28)
    K(b"AQAAAAAAAAA=" + b"\n" * 20)
    K(b"AQAAAAAAAAAA" + b"\n" * 20)
    K(b"AQ==" + b"\n" * 28)
    K(b"AA==" + b"\r" * 30)
    K(b"AQA=" + b"\n" * 29)
    for _ in range(1500 if quick else 40000):
        n = rng.choice([32, 32, 33, 34, 35, 31, 36, rng.randrange(0, 48)])
        alpha = rng.choice([B64 + b"\r\n" * 20, B64, B64 + b"=\r\n+/ ", bytes(range(256))])
        s = bytes(rng.choice(alpha) for _ in range(n))
        if rng.random() < 0.5 and n >= 4:
            s = b"AQ" + s[2:]
        K(s)
    return cs


def gen_code(ctx, quick):
    rng = ctx.rng
    cs = []
    creds = [b"email:alice@example.com", b"tel:+17025550001", b"email:a%b@x.com", b"email:a/b@x.com", b"x", b""]
    for _ in range(80 if quick else 3000):
        mr = rng.choice([1, 2, 3, 3, 5])
        ops = []
        my = rng.sample(creds, rng.choice([1, 2, 3]))
        for _ in range(rng.randrange(4, 40)):
            c = rng.choice(my)
            x = rng.random()
            if x < 0.22:
                ops.append("G:%s:%d:%d" % (hx(c), rng.choice([1, 77, rng.getrandbits(63), 0]), rng.choice([0, 0, 0, 5 * SEC, -1])))
            elif x < 0.42:
                ops.append("A:r:%s" % hx(c))
            elif x < 0.78:
                ops.append("A:w:%s" % hx(c))
            elif x < 0.84:
                ops.append("A:x%s:%s" % (hx(rng.choice([b"", b"0", b"12345", b"abc", b"000000", b"1:2"])), hx(c)))
            elif x < 0.88:
                ops.append("S:%s" % hx(rng.choice([b"", b"123456", b"nocolon", b":", b"::", b":email:alice@example.com"])))
            else:
                ops.append("ADV:%d" % rng.choice([4, 8, 24]))
        cs.append("C %d %d %d %s" % (rng.choice([4, 6, 6, 8]), rng.choice([10, 30]), mr, " ".join(ops)))
    return cs


def gen_basic(ctx, quick):
    rng = ctx.rng
    cs = []
    spell = {"alice": ["alice", "Alice", "ALICE", "aLiCe"], "bob": ["bob", "Bob", "BOB"],
             "\u00e4lice": ["\u00e4lice", "\u00c4lice", "\u00c4LICE"], "carol.x_1": ["carol.x_1", "Carol.X_1"], "dave": ["dave", "DAVE"]}
    odd = ["a", "bad name", "", "_x", "x_"]
    pws = ["secret", "Secret", "x:y:z", "longer password 123", "secreT"]
    def sec(login, pw):
        return hx((login + ":" + pw).encode("utf8"))
    for _ in range(10 if quick else 200):
        base = rng.sample(sorted(spell), rng.choice([1, 2, 3]))
        pw = {b: rng.choice(pws) for b in base}
        uid = {b: i + 1 for i, b in enumerate(base)}
        ops = []
        for _ in range(rng.randrange(8, 16)):
            b = rng.choice(base)
            login = rng.choice(spell[b])
            x = rng.random()
            if x < 0.25 or len(ops) < 2:
                ops.append("ADD:%d:%d:%s:%d" % (rng.choice([uid[b], uid[b], 9]), rng.choice([0, 10, 20]),
                                              sec(rng.choice([login, login, rng.choice(odd)]), rng.choice([pw[b], pw[b], "pw"])),
                                              rng.choice([0, 0, 10 * SEC])))
            elif x < 0.5:
                ops.append("AUTH:%s" % sec(login, pw[b]))
            elif x < 0.7:
                ops.append("AUTH:%s" % sec(login, rng.choice(pws + [pw[b][:-1], pw[b] + "x", ""])))
            elif x < 0.75:
                ops.append("AUTH:%s" % sec(rng.choice(["zed", "alic", "alicee"] + odd), pw[b]))
            elif x < 0.85:
                npw = rng.choice(pws)
                other = rng.choice(sorted(spell))
                ops.append("UPD:%d:%s:%d" % (uid[b], sec(rng.choice(["", login, rng.choice(spell[other])]), npw), rng.choice([0, 10 * SEC])))
                if rng.random() < 0.7:
                    ops.append("AUTH:%s" % sec(login, npw))
            elif x < 0.9:
                ops.append("AUTH:%s" % hx(rng.choice([b"nocolon", b"", b":", b"alice"])))
            else:
                ops.append("ADV:%d" % rng.choice([4, 8, 24]))
        cs.append("B %d %d %s" % (rng.choice([0, 2, 4]), rng.choice([0, 3, 6]), " ".join(ops)))
    return cs


# ---- login / password above store anomalies (stored secret = ANY bytes) ----
# real bcrypt hashes (golang.org/x/crypto/bcrypt GenerateFromPassword, cost 4 / 5: a comparison takes ~1 ms) of known passwords
BC_KNOWN_C12E = [
    (b"secret", b"$2a$04$QcEaGpbOKH.sIPNmo.7GYeO0NuMU3FqY8b3UMRN8lSSQayiPdRhR6"),
    (b"Tr0ub4dor&3", b"$2a$04$Dt/8fK1ClwiDK6wQlN3XK.Fl/9ZRNvF.JU4QytxO21tBTQRis/Rzm"),
    (b"x", b"$2a$04$bmxWucYIp.EkF3Afj9Pr5.q9u0vhqmVt1tXJpcVXezI2VSlCMH8Qy"),
    (b"pass:word", b"$2a$04$0BueX0saPkGKs2M4sP71duNLTEcdqGeVEa1Y9f0PA1x7j5SUsdzEO"),
    (b"secret", b"$2a$05$g/lpagP2cuh7e04siSWafO9aDSQjrbVMNxeY66miZK.9OH12cjsje"),
]
BC_FOREIGN_C12E = [
    b"$argon2id$v=19$m=65536,t=3,p=4$c29tZXNhbHRzb21lc2FsdA$RdescudvJCsgt3ub+b+dWRWJTmaaJObG",
    b"$6$rounds=5000$usesomesillystringforsalt$D4IrlXatmP7rx3P3InaxBeoomnAihCKRVQP22JkLQ4hBLoQOIKWRr0",
    b"$1$O3JMY.Tw$AdLnLjQ/5jXF9.MTp3gHv/" + b"." * 30,
    b"$5$MnfsQ4iN$ZMTppKN16y/tIsUYs/obHlhdP.Os80yXhTurpBMUbA5",
    b"$pbkdf2-sha256$29000$N2YMIWQsBWBMae09x1jrPQ$1t8iyB2A.WF/Z5JZv.lfCIhXXN33N23OSgQYThBYRfk",
    b"{SSHA}DkMTwBl+a/3DQTxCYEApdUtNXGgdUac3" + b"=" * 24,
    b"5e884898da28047151d0e56f8dc6292773603d0d6aabbdd62a11ef721d1542d8",      # sha256 hex
    b"5baa61e4c9b93f3f0682250b6cf8331b7ee68fd8",                              # sha1 hex (short)
    b"$2a$04$",
    b"$" * 60, bytes(60), b"\xff" * 60, b" " * 64,
]


def bc_header_c12e(s):
    """python restatement of coq/Pure/Basic.v bc_header (= bcrypt newFromHash): error class or ('ok', cost)"""
    if len(s) < 59:
        return "short"
    if s[0] != 0x24:
        return "prefix"
    if s[1] > 0x32:
        return "version"
    cs = s[3:5] if s[2] == 0x24 else s[4:6]
    a, b = cs[0], cs[1]
    dig = lambda c: 0x30 <= c <= 0x39
    if not dig(b):
        return "costsyntax"
    if dig(a):
        cost = 10 * (a - 0x30) + (b - 0x30)
    elif a == 0x2b:
        cost = b - 0x30
    elif a == 0x2d:
        cost = -(b - 0x30)
    else:
        return "costsyntax"
    if cost < 4 or cost > 31:
        return "costrange"
    return ("ok", cost)


def bc_affordable_c12e(s):
    """never plant bytes that bcrypt would parse as an expensive cost (2^cost rounds: cost 31 = hours)"""
    h = bc_header_c12e(s)
    return isinstance(h, str) or h[1] <= 9


def bc_anomalies_c12e(rng, pw, h, quick):
    """(label, stored bytes or None for nil) for one real hash h of the known password pw"""
    out = [("valid", h), ("empty", b""), ("nil", None)]
    lens = list(range(1, 60)) if not quick else sorted(set([1, 2, 3, 4, 5, 6, 7, 8, 28, 29, 30, 58, 59] + rng.sample(range(1, 60), 14)))
    out += [("trunc%d" % n, h[:n]) for n in lens]
    out += [("head-cut%d" % n, h[n:] + b"." * n) for n in (1, 3, 7)]
    for v in (b"$2b$", b"$2x$", b"$2y$", b"$2$", b"$3a$", b"$3$", b"$9z$", b"$1a$", b"$0a$", b"$\xffa$", b"x2a$", b"\x002a$", b"#2a$"):
        out.append(("version-" + v.hex(), v + h[4:]))
    for c in (b"00", b"03", b"32", b"99", b"-4", b"-9", b" 4", b"4$", b"0x", b"x4", b"4 ", b"\x004", b"+4", b"+3", b"05", b"06"):
        out.append(("cost-" + c.hex(), h[:4] + c + h[6:]))
    out += [("trail-" + t.hex(), h + t) for t in (b"x", b"xyz", b"\n", b"\x00", h)]
    out += [("salt-bad", h[:10] + b"!" + h[11:]), ("salt-pad", h[:7] + b"=" * 22 + h[29:]), ("hash-flip", h[:-1] + (b"a" if h[-1:] != b"a" else b"b")),
            ("dollar-moved", h[:6] + b"x" + h[7:]), ("plaintext", pw), ("plaintext-long", (pw * 80)[:72]), ("plaintext-colon", b"alice:" + pw)]
    out += [("foreign%d" % i, f) for i, f in enumerate(BC_FOREIGN_C12E)]
    out += [("random%d" % i, bytes(rng.getrandbits(8) for _ in range(rng.choice([20, 59, 60, 61, 100])))) for i in range(3)]
    out += [("random-dollar%d" % i, b"$2a$" + rng.choice([b"04", b"00", b"zz"]) + b"$" + bytes(rng.choice(B64 + b"./") for _ in range(53))) for i in range(3)]
    return [(l, b) for l, b in out if b is None or bc_affordable_c12e(b)]


def gen_basic_anomaly_c12e(ctx, quick):
    """One row per case, whose secret column is overwritten (RAW) by every anomaly class in turn; after each
    write the login is tried with right / wrong / empty / 72+ byte passwords and with the stored bytes themselves."""
    rng = ctx.rng
    cs = []
    def sec(login, pw):
        return hx(login.encode("utf8") + b":" + pw)
    spell = [("alice", ["alice", "Alice", "ALICE"]), ("bob", ["bob", "BOB"]), ("\u00e4lice", ["\u00e4lice", "\u00c4LICE"])]
    bases = list(BC_KNOWN_C12E) if not quick else [BC_KNOWN_C12E[0], rng.choice(BC_KNOWN_C12E[1:])]
    for rep in range(1 if quick else 6):
        for pw, h in bases:
            login, spellings = rng.choice(spell)
            uid = rng.choice([1, 7, 1 << 40])
            lvl = rng.choice([10, 20, 30])
            other = rng.choice([k for k in BC_KNOWN_C12E if k[0] != pw])
            an = bc_anomalies_c12e(rng, pw, h, quick) + [("other-valid", other[1])]
            rng.shuffle(an)
            an.append(("valid-again", h))
            for chunk in range(0, len(an), 30):
                first_pw = rng.choice([b"secret", b"longer password 123"])
                ops = ["ADD:%d:%d:%s:%d" % (uid, lvl, sec(login, first_pw), rng.choice([0, 0, 3600 * SEC])),
                       "AUTH:" + sec(rng.choice(spellings), first_pw), "AUTH:" + sec(rng.choice(spellings), b"")]
                for label, b in an[chunk:chunk + 30]:
                    ops.append("RAW:%d:%s" % (uid, "nil" if b is None else hx(b)))
                    tries = [pw, b"", rng.choice([b"wrong", pw[:-1], pw + b"x", other[0]]),
                             rng.choice([b"z" * 72, b"z" * 73, pw + b"z" * 70, b"\x00" * 80, bytes(range(1, 201))])]
                    if b and b != pw:
                        tries.append(b)                                 # the stored bytes presented as the password
                    if quick:
                        tries = tries[:2] + rng.sample(tries[2:], min(2, len(tries) - 2))
                    for t in tries:
                        ops.append("AUTH:" + sec(rng.choice(spellings), t))
                if rng.random() < 0.5:
                    ops.append("RAW:%d:%s" % (uid + 1, hx(h)))          # no such row
                    ops.append("UPD:%d:%s:0" % (uid, sec("", b"fresh password")))
                    ops.append("AUTH:" + sec(rng.choice(spellings), b"fresh password"))
                    ops.append("AUTH:" + sec(rng.choice(spellings), pw))
                cs.append("B 0 0 " + " ".join(ops))
    return cs


def gen_cases(ctx):
    quick = ctx.tier == "quick"
    return (gen_token(ctx, quick) + gen_apikey(ctx, quick) + gen_code(ctx, quick) + gen_basic(ctx, quick)
            + gen_basic_anomaly_c12e(ctx, quick)
            + ["LOWER 0 1114112"])


# ------------------------------------------------------------------ running
def split_answer(line):
    r, _, a = line.partition("|")
    return r.strip(), a.strip()


def evaluate(ctx, cases):
    """Phase 1: implementation (two drivers).  Phase 2: model with the aux values.  Returns
    (results, aux, model) lists aligned with cases, or raises RuntimeError(kind, text)."""
    if not cases:
        return [], [], []
    main_idx = [i for i, c in enumerate(cases) if c.startswith("K ")]
    ext_idx = [i for i, c in enumerate(cases) if not c.startswith("K ")]
    raw = [None] * len(cases)
    if ext_idx:
        rc, out, err = ctx.run_ext("c12", [cases[i] for i in ext_idx])
        if rc != 0 or len(out) != len(ext_idx):
            raise RuntimeError("driver-crashed", "ext driver rc=%s: %s" % (rc, err[-1500:]))
        for i, o in zip(ext_idx, out):
            raw[i] = o
    if main_idx:
        rc, out, err = ctx.run_main_lines("c12", [cases[i] for i in main_idx])
        if rc != 0 or len(out) != len(main_idx):
            raise RuntimeError("driver-crashed", "package-main driver rc=%s: %s" % (rc, err[-1500:]))
        for i, o in zip(main_idx, out):
            raw[i] = o
    res, aux = zip(*[split_answer(o) for o in raw]) if raw else ((), ())
    rc, model, err = ctx.run_model("c12", ["%s | %s" % (c, a) for c, a in zip(cases, aux)])
    if rc != 0 or len(model) != len(cases):
        raise RuntimeError("runner-crashed", "model runner failed: " + err[-1500:])
    return list(res), list(aux), [m.strip() for m in model]


def auxd(a):
    d = {}
    for w in a.split():
        k, _, v = w.partition("=")
        d.setdefault(k, []).append(v)
    return d


def serial_out_of_range(case):
    w = case.split()
    ss = [int(w[2])] + ([int(w[9])] if w[9] != "=" else [])
    return any(not (0 <= s < 65536) for s in ss)


def agrees(case, impl, model):
    if case.startswith("K "):
        asis, _, fixed = model[2:].partition(" ; ")
        i = "K panic" if impl.startswith("K panic") else impl
        return i == "K " + asis or i == "K " + fixed
    if case.startswith("C "):
        asis, _, fixed = model.partition(" ;; ")
        return impl == asis or impl == fixed     # fixed: findings/C12_code_expiry.diff applied
    if case.startswith("T ") and ("initerr" in impl or "vinit:err" in impl) and serial_out_of_range(case):
        return True      # repaired Init (findings/C12_token_serial.diff) rejects such configurations
    return impl == model


# ------------------------------------------------------------------ monitors (on the implementation's answers)
def sanitize(cred):
    return (b"code_" + cred).replace(b"%", b"/")


def mon_token(c, r, a, fails):
    w = c.split()
    if "auth:ok" not in r:
        return
    ok = r.split("auth:ok")[1].split()
    d = auxd(a)
    key, serial = w[1], int(w[2])
    vkey = key if w[8] == "=" else w[8]
    vserial = serial if w[9] == "=" else int(w[9])
    mut = w[10].split(":")
    ptok = unhx(d["ptok"][0])
    issued = unhx(r.split()[1]) if r.startswith("gen:ok") else None
    if len(ptok) < 50:
        fails.append(("token-truncated-refused", c, "a %d-byte token authenticated" % len(ptok)))
        return
    # the MAC of the presented data under the verifying key, computed here independently
    sig = hmac.new(unhx(vkey), ptok[:18], hashlib.sha256).digest()
    if ptok[18:50] != sig:
        fails.append(("token-forged-accepted", c, "accepted although bytes 18..50 are not HMAC-SHA256(key, bytes 0..18)"))
        return
    uid, exp, lvl, ser, feat = struct.unpack("<QIHHH", ptok[:18])
    if [str(uid), str(lvl), str(feat)] != ok[:3]:
        fails.append(("token-yields-signed-fields", c, "result %s differs from the signed fields %s" % (ok[:3], (uid, lvl, feat))))
    if lvl > 30:
        fails.append(("token-level-range", c, "level %d accepted" % lvl))
    nowv = int(d["nowv"][0])
    if exp * SEC < nowv:
        fails.append(("token-expired-refused", c, "expiry second %d is before the clock %d" % (exp, nowv)))
    if mut[0] in ("none", "flip", "xor", "trunc", "ext") and issued is not None:
        if ptok[:50] != issued[:50] and vkey == key:
            fails.append(("token-altered-refused", c, "a token differing from the issued one in the first 50 bytes authenticated"))
        if vkey != key:
            fails.append(("token-foreign-key-refused", c, "a token signed with another key authenticated"))
        if vserial != serial:
            law = "token-serial-alias" if (vserial - serial) % 65536 == 0 else "token-wrong-serial-refused"
            fails.append((law, c, "a token issued under serial_num %d authenticated on a server configured with serial_num %d" % (serial, vserial)))
        if ptok[:50] == issued[:50] and vkey == key and vserial == serial:
            # issued, unaltered: yields what it was issued for, never beyond the lifetime asked for
            uid0, lvl0, feat0 = int(w[4]), int(w[5]), int(w[6])
            if 0 <= lvl0 <= 30 and ok[:3] != [str(uid0), str(lvl0), str(feat0)]:
                fails.append(("token-yields-issued", c, "issued for %s, yields %s" % ((uid0, lvl0, feat0), ok[:3])))
            L = int(d["L"][0])
            asked = L if L != 0 else int(w[3]) * SEC
            # GenSecret rounds the expiry instant to the NEAREST millisecond (Round(time.Millisecond)): up to half a
            # millisecond more than asked is the code's stated arithmetic (c12_token_never_outlives has a whole second of
            # slack); without it the law fired when the rounding crossed a second boundary (seen once in ~15 runs)
            if "rl" in d and int(d["rl"][0]) > asked + 500000:
                fails.append(("token-never-outlives", c, "remaining validity %s ns exceeds the %d ns asked for" % (d["rl"][0], asked)))
    elif mut[0] == "craft":
        if ser != vserial:
            fails.append(("token-wrong-serial-refused", c, "signed serial %d accepted by a server configured with %d" % (ser, vserial)))


def mon_apikey(c, r, a, fails):
    w = c.split()
    if r.startswith("K panic"):
        fails.append(("apikey-panic", c, "checkAPIKey panics instead of refusing: " + r[8:]))
        return
    if r.startswith("K valid"):
        salt, key = unhx(w[1]), unhx(w[2])
        try:
            data = base64.urlsafe_b64decode(key.replace(b"\r", b"").replace(b"\n", b""))
        except Exception:
            data = b""
        good = len(data) == 24 and data[0] == 1 and hmac.new(salt, data[:8], hashlib.md5).digest() == data[8:]
        if not good:
            fails.append(("apikey-unsigned-refused", c, "a key that is not version 1 + HMAC-MD5(salt, first 8 bytes) was accepted"))
        elif r.split()[2] != ("1" if data[7] == 1 else "0"):
            fails.append(("apikey-root-flag", c, "root flag differs from the signed byte"))


def mon_code(c, r, a, fails):
    w = c.split()
    mr = int(w[3])
    ops, outs = w[4:], r.split()[1:-1]
    d = auxd(a)
    succ, failed, touched, codeval = {}, {}, {}, {}
    clock, life = 0, int(w[2])
    for i, (op, o) in enumerate(zip(ops, outs)):
        f = op.split(":")
        if f[0] == "ADV":
            clock += int(f[1])
        elif f[0] == "G":
            if o.startswith("G:ok"):
                k = sanitize(unhx(f[1]))
                val = d.get("g%d" % i, [None])[0]
                pending = k in succ and succ[k] == 0 and failed[k] < mr and clock - touched[k] <= life
                if pending and val is not None and val == codeval.get(k) and len(val) >= 8:
                    # the SAME code value handed out again while it is still pending: it is one code, so the wrong
                    # guesses already made against it keep counting ("no longer after the configured number of wrong
                    # guesses"); a fresh code of >= 4 digits coincides with the pending one with probability <= 1e-4
                    touched[k] = clock
                else:
                    succ[k], failed[k], touched[k] = 0, 0, clock
                codeval[k] = val
                if o != "G:ok:%s:1:1" % w[1]:
                    fails.append(("code-format", c, "op %d: code is not %s decimal digits stored with counter 0" % (i, w[1])))
        elif f[0] in ("A", "S"):
            secret = unhx(d["s%d" % i][0])
            if b":" not in secret:
                if o.startswith("A:ok"):
                    fails.append(("code-once", c, "op %d: a secret without credential authenticated" % i))
                continue
            k = sanitize(secret.split(b":", 1)[1])
            if o.startswith("A:ok"):
                if k not in succ:
                    fails.append(("code-once", c, "op %d: a code authenticated although none was generated for the credential" % i))
                elif succ[k] >= 1:
                    fails.append(("code-once", c, "op %d: second successful use of one reset code" % i))
                elif failed[k] >= mr:
                    fails.append(("code-lockout", c, "op %d: success after %d failed attempts (max_retries %d)" % (i, failed[k], mr)))
                elif clock - touched[k] > life:
                    fails.append(("code-outlives-lifetime", c, "op %d: code accepted %d s after it was issued / last touched (expire_in %d s)" % (i, clock - touched[k], life)))
                succ[k] = succ.get(k, 0) + 1
            elif k in failed:
                failed[k] += 1
                if failed[k] <= mr:
                    touched[k] = clock      # a counted wrong guess rewrites the row (REPLACE sets createdat)


def basic_match_fail_c12e(c, i, p, rec, raw, d, known, fails):
    """AUTH:ok at op i for the record rec = (uid, password, expiry): success needs bcrypt's "match" on exactly the
    bytes stored.  Returns True when a law failure was recorded."""
    n = len(fails)
    ref = d.get("ref%d" % i, ["?"])[0]       # the driver's own bcrypt.CompareHashAndPassword on (stored bytes, password)
    if rec[0] in raw:
        # the row's secret was overwritten by RAW: whatever the bytes
        sb = raw[rec[0]] or b""
        cls = bc_header_c12e(sb)
        if isinstance(cls, str):
            fails.append(("basic-never-authenticates-without-match", c,
                          "op %d: password %s authenticated against stored bytes that bcrypt cannot parse (%s: %s)" % (i, hx(p[1]), cls, hx(sb)[:130])))
        elif ref != "m":
            fails.append(("basic-never-authenticates-without-match", c,
                          "op %d: password %s authenticated although bcrypt.CompareHashAndPassword on the stored bytes %s answers %s" % (i, hx(p[1]), hx(sb)[:130], ref)))
        elif sb in known and known[sb] != p[1]:
            fails.append(("basic-wrong-password-never", c, "op %d: wrong password authenticated" % i))
    elif rec[1] != p[1]:
        fails.append(("basic-wrong-password-never", c, "op %d: wrong password authenticated" % i))
    elif ref != "m":
        fails.append(("basic-never-authenticates-without-match", c,
                      "op %d: authenticated although bcrypt.CompareHashAndPassword on the stored hash answers %s" % (i, ref)))
    return len(fails) > n


def mon_basic(c, r, a, fails):
    w = c.split()
    ops, outs = w[3:], r.split()[1:-1]
    low = {}
    for e in auxd(a).get("lo", []):
        sec, lo, _, _ = e.split(":")
        low[sec] = lo
    def parse(sech):
        s = unhx(sech)
        if b":" not in s:
            return None
        lo = low.get(sech)
        return ("" if lo == "-" else lo), s.split(b":", 1)[1]
    recs = {}    # lower login -> (uid, password, logical expiry or None)
    raw = {}     # uid -> bytes written over the secret column by RAW (None = nil); cleared by ADD / UPD
    d = auxd(a)
    known = dict((h, pw) for pw, h in BC_KNOWN_C12E)
    for e in d.get("bc", []):
        # premise of c12_basic_malformed_hash_never_authenticates, on the real library
        hh, _, o = e.split(":")
        cls = bc_header_c12e(unhx(hh))
        if isinstance(cls, str) and o != "e-" + cls:
            fails.append(("hypothesis-bcrypt-header", c, "bcrypt answers %s on bytes its header check rejects as %s: %s" % (o, cls, hh)))
    clock = 0
    def until(lt):
        return clock + int(lt) // SEC if int(lt) > 0 else None
    for i, (op, o) in enumerate(zip(ops, outs)):
        f = op.split(":")
        if f[0] == "ADV":
            clock += int(f[1])
        elif f[0] == "ADD" and o.startswith("ADD:ok"):
            lo, pw = parse(f[3])
            if lo in recs:
                fails.append(("login-unique", c, "op %d: login registered twice (up to letter case)" % i))
            recs[lo] = (f[1], pw, until(f[4]))
            raw.pop(f[1], None)
        elif f[0] == "RAW" and o.startswith("RAW:ok"):
            raw[f[1]] = None if f[2] == "nil" else unhx(f[2])
        elif f[0] == "UPD" and o == "UPD:ok":
            raw.pop(f[1], None)
            lo, pw = parse(f[2])
            old = [k for k, v in recs.items() if v[0] == f[1]]
            name = lo if lo else (old[0] if old else None)
            if name in recs and recs[name][0] != f[1]:
                fails.append(("login-unique", c, "op %d: rename onto an existing login" % i))
            for k in old:
                del recs[k]
            recs[name] = (f[1], pw, until(f[3]))
        elif f[0] == "AUTH" and o.startswith("AUTH:ok"):
            p = parse(f[1])
            if p is None or p[0] not in recs:
                fails.append(("basic-unknown-login-never", c, "op %d: unknown login authenticated" % i))
            elif basic_match_fail_c12e(c, i, p, recs[p[0]], raw, d, known, fails):
                pass
            elif o.split(":")[2] != recs[p[0]][0]:
                fails.append(("basic-yields-owner", c, "op %d: authenticated as another user" % i))
            elif recs[p[0]][2] is not None and clock > recs[p[0]][2]:
                fails.append(("basic-expired-never", c, "op %d: password authenticated %d s after its validity ended" % (i, clock - recs[p[0]][2])))
    st = r.split()[-1]
    if st.startswith("st:") and st != "st:-":
        keys = [e.split("=")[0] for e in st[3:].split(";")]
        if len(set(keys)) != len(keys):
            fails.append(("login-unique", c, "two stored records with one login"))


def monitors(cases, res, aux):
    fails = []
    for c, r, a in zip(cases, res, aux):
        if r.startswith("PANIC"):
            fails.append(("no-panic", c, r))
        elif c.startswith("T "):
            mon_token(c, r, a, fails)
        elif c.startswith("K "):
            mon_apikey(c, r, a, fails)
        elif c.startswith("C "):
            mon_code(c, r, a, fails)
        elif c.startswith("B "):
            mon_basic(c, r, a, fails)
        elif c.startswith("LOWER") and r.split()[1] != "0":
            fails.append(("hypothesis-lower-idempotent", c, "strings.ToLower is not idempotent on " + r))
    return fails


def neighbours(ctx, case):
    w = case.split()
    res = []
    if w[0] == "T":
        for m in ["none", "flip:0", "flip:143", "flip:144", "flip:399", "trunc:49", "ext:00"]:
            res.append(" ".join(w[:10] + [m]))
        for s in (w[2], str(int(w[2]) % 65536), str(int(w[2]) + 65536)):
            res.append(" ".join(w[:9] + [s, w[10]]))
    elif w[0] == "K":
        k = unhx(w[2])
        for i in range(len(k)):
            for b in (10, 13, 61, 65):
                res.append("K %s %s" % (w[1], hx(k[:i] + bytes([b]) + k[i + 1:])))
    elif w[0] in ("C", "B"):
        n = 4 if w[0] == "C" else 3
        for j in range(n + 1, len(w)):
            res.append(" ".join(w[:j]))
            res.append(" ".join(w[:n] + w[j:]))
    return res


def nontrivial(case, r):
    return ("auth:ok" in r or "K valid" in r or "A:ok" in r or "AUTH:ok" in r)


def run(ctx):
    ctx.coq_props()
    vlib.proof_violation(ctx)
    ok, out = ctx.build_runner()
    if not ok:
        ctx.violation("proof", "extraction-broken", "model extraction/runner build failed: " + out[-1500:],
                      {"theorem_or_obligation": "extraction of the model"})
        ctx.finish()
    for what, (ok, out) in (("harness/ext", ctx.build_ext()), ("package-main overlay driver", ctx.build_main())):
        if not ok:
            ctx.violation("corr", "harness-build-broken", "%s no longer builds against the repository: %s" % (what, out[-1500:]),
                          {"correspondence": "build of " + what})
            ctx.finish()
    relogin_scns = None
    if ctx.replay:
        rp = json.load(open(ctx.replay))
        reps = [r for r in [rp["replay"]] + rp.get("more_cases", []) if isinstance(r, dict)]
        cases = [r["case"] for r in reps if "case" in r]
        relogin_scns = [c12relogin.Scn.from_lines(r["scenario"]) for r in reps if "scenario" in r]
        for k, sc in enumerate(relogin_scns):
            sc.id = "%s_r%d" % (sc.id, k)
    else:
        cases = gen_cases(ctx)
    cases = list(dict.fromkeys(cases))
    try:
        res, aux, model = evaluate(ctx, cases)
    except RuntimeError as e:
        kind, text = e.args
        ctx.violation("proof" if kind == "runner-crashed" else "corr", kind, text, {"correspondence": "driver run", "stderr": text})
        ctx.finish()
    fails = monitors(cases, res, aux)
    table = dict(zip(cases, res))
    def record(fs, tbl, found_by=None):
        for law, case, detail in fs:
            rep = {"case": case, "impl": tbl.get(case), "law": law, "detail": detail}
            if found_by:
                rep["found_by"] = found_by
            ctx.violation("monitor", law, "law %s fails on the implementation: %s -> %s (%s)" % (law, case[:300], str(tbl.get(case))[:300], detail), rep)
    record(fails, table)
    flagged = set(c for _, c, _ in fails)
    mism = [(c, i, m) for c, i, m in zip(cases, res, model) if not agrees(c, i, m)]
    # a disagreement already explained by a monitor failure on that very input is reported there
    open_mism = [x for x in mism if x[0] not in flagged]
    searched = 0
    found = []
    if open_mism or not ctx.proof_ok():
        pool = []
        for c, _, _ in open_mism[:100]:
            pool += neighbours(ctx, c)
        pool = [c for c in dict.fromkeys(pool) if c not in table][:5000]
        if pool:
            try:
                r2, a2, _ = evaluate(ctx, pool)
                found = [f for f in monitors(pool, r2, a2)]
                record(found, dict(zip(pool, r2)), "search near a correspondence mismatch")
                searched = len(pool)
            except RuntimeError:
                pass
    if open_mism and not found:
        c, i, m = open_mism[0]
        ctx.violation("corr", "correspondence-" + c.split()[0],
                      "model and implementation disagree on %d of %d cases, e.g. %s: impl=%s model=%s; no law failure found on %d neighbouring inputs"
                      % (len(open_mism), len(cases), c[:400], i[:400], m[:400], searched),
                      {"correspondence": "projection " + c.split()[0], "case": c, "impl": i, "model": m,
                       "more": [{"case": x, "impl": y, "model": z} for x, y, z in open_mism[1:10]]})
    # token re-issuance on {login}: Session.login / onLogin (Sys/Relogin.v), package-main driver
    if relogin_scns is None or relogin_scns:
        ctx.coverage["relogin"] = c12relogin.run(ctx, relogin_scns)
    kinds, outs = {}, {}
    for c in cases:
        k = c.split()[0]
        kinds[k] = kinds.get(k, 0) + 1
        o = k + ":" + ("accepted" if nontrivial(c, table[c]) else "refused")
        outs[o] = outs.get(o, 0) + 1
    ops = sum(len(c.split()) - 4 for c in cases if c[0] == "C") + sum(len(c.split()) - 3 for c in cases if c[0] == "B")
    ctx.coverage.update({
        "evaluations": len(cases), "distinct_nontrivial": len([c for c in cases if nontrivial(c, table[c])]),
        "stateful_ops": ops,
        "rule": "tokens: real GenSecret/Authenticate of fresh authenticator instances (Init with a known key) over configurations "
                "(3 keys, serials in and out of uint16, expire_in incl. int64-wrapping values) x records x lifetimes (0, <1s, >=5s, "
                "negative, beyond the 2106 uint32 wrap; the 1..5 s band is never generated so the wall clock cannot change an answer); "
                "every single-bit flip of the 50 bytes of 2 (quick) / 20 (thorough) issued tokens, random multi-bit xor masks, every "
                "truncation length 0..49, extensions, foreign keys, wrong serials, correctly signed tokens with out-of-range level / "
                "past expiry / other serial, junk; API keys: keys built as keygen does, foreign salt, every single-byte mutation "
                "(32 x 255), CR/LF insertions, every prefix, all-CR/LF strings of every length 0..39, random strings over the alphabet "
                "with CR/LF, '=', '+', '/'; reset codes: seeded random sequences of GenSecret / right / wrong / literal guesses / raw "
                "secrets / time steps over 1..3 credentials (incl. the '%' vs '/' key collision) compared op by op and on the final "
                "cache; basic: sequences of AddRecord / Authenticate / UpdateRecord / time steps over logins differing in case, "
                "compared op by op and on the final table; basic above store anomalies: one row whose secret column is overwritten (RAW) in turn "
                "by real cost-4/5 bcrypt hashes of known passwords and every anomaly class (empty, nil, truncations, version / prefix / cost bytes, "
                "trailing bytes, bad salt, foreign schemes, plaintext, random bytes), each followed by logins with right / empty / wrong / 72+ byte "
                "passwords and the stored bytes themselves; strings.ToLower idempotence on all 0x110000 code points. "
                "non-trivial = accepted by the implementation",
        "samples": [{"case": c[:300], "impl": table[c][:300]} for c in (cases[:2] + ctx.rng.sample(cases, min(6, len(cases))))] if cases else [],
        "traces_validated_against_impl": len(cases), "correspondence_mismatches": len(open_mism),
        "monitor_failures": len(fails) + len(found), "search_pool": searched,
        "input_distribution": {"by_request_kind": kinds, "by_outcome": outs},
        "trusted_base": [
            "HMAC-SHA256 / HMAC-MD5 unforgeability: the theorems reduce every acceptance of a non-issued token or key to a valid (data, MAC) pair the signer never produced; that such a pair cannot be found without the key is assumed, not proved",
            "the MAC is an arbitrary function in Coq; on each run the model is evaluated with the real HMAC values the drivers computed with crypto/hmac for the data the authenticator saw",
            "bcrypt: CompareHashAndPassword is an arbitrary three-valued function cmp (match / mismatch / error class) in Coq; on each run the model is evaluated with the outcomes the driver computed with golang.org/x/crypto/bcrypt for exactly the (stored bytes, password) pairs Authenticate may have to compare, and with the bytes the store holds after each AddRecord / UpdateRecord; that match means right password (bcrypt correctness, passwords below 72 bytes) is assumed; only the header check newFromHash is modelled (bc_header), compared with bcrypt.Cost on every planted secret",
            "strings.ToLower and the login/password policies are arbitrary functions in Coq (idempotence of lower-casing is a premise, checked here on every code point); the run uses the values computed by Go",
            "harness/ext/c12*.go: in-memory fakes of store.PCache and store.Users written from the MySQL adapter's contract (INSERT vs REPLACE, createdat, unique indices); the SQL adapters themselves are not executed",
            "wall clock: read by the driver around each call and passed to the model; expiry decisions are kept >= 1 s away from the boundary by construction of the cases",
            "tools/props/c12.py monitors (python restatement of the theorems incl. an independent HMAC computation, evaluated on the implementation's answers)",
            "net/http per-request panic recovery (the reason the API-key panic is a refusal by crash and not a server crash) is not modelled",
            "token re-issuance part (tools/props/c12relogin.py): the environment of each login - user record in state OK, a required validator left unvalidated - is computed by the plugin from the fixture of zz_verif_c11_test.go / zz_verif_c12x_test.go and given to the model as input; the verdict of the code authenticator on the reset flow's codes is a python restatement of Pure/Code.v (single use, max_retries 3); the fresh authenticator instances are made by reflection from the registered singletons and installed behind store.Store.GetLogicalAuthHandler by a wrapper of store.Store",
            "promptness premise of c12_relogin_restricted_step / c12_relogin_chain (the clock readings of one login less than 0.9995 s apart) cannot be enforced without a clock hook: the laws allow the measured wall time of the dispatch instead, and the model is evaluated at both ends of the measured bracket",
        ],
    })
    ctx.finish()
