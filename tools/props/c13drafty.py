"""C13, Drafty half: client-controlled message content rendered into notification previews.

PROOF: coq/Pure/Drafty.v (statement-by-statement model of server/drafty/drafty.go + grapheme.go from the
decoded document on) with coq/Pure/DraftyProofs.v; theorems c13_drafty_* of coq/Props/PropC13.v.
TIE TO THE CODE: harness/ext/c13.go runs drafty.PlainText / drafty.Preview on generated JSON contents,
each under its own recover, and prints what decodeAsDrafty makes of the content (JSON decoding and the
uniseg segmentation are outside the model); the extracted model (harness/runner/r_c13d.ml) is run on the
same decoded documents; compared: outcome class (ok / err invalid / err unrecognized / PANIC) of both
functions, the plain text (after strings.TrimSpace, applied here) and the preview's txt / fmt / entity types.
LAW on the implementation's trace: no call panics (drafty-panic)."""
import json

from props import c13gen as G

GO_SPACE = "\t\n\v\f\r \u0085\u00a0\u1680\u2000\u2001\u2002\u2003\u2004\u2005\u2006\u2007\u2008\u2009\u200a\u2028\u2029\u202f\u205f\u3000"
BIG = [2 ** 31 - 1, 2 ** 31, 2 ** 62, 2 ** 62 + 1, 2 ** 63 - 2, 2 ** 63 - 1, -2 ** 63, -2 ** 62]
OFFS = [0, 1, 2, -1, -100, 5, 299, 300, 301] + BIG + [1.5, "1", None]
TPS = ["ST", "EM", "DL", "CO", "BR", "LN", "MN", "HT", "HD", "IM", "EX", "FM", "RW", "BN", "VC", "VD", "AU", "QQ", "", "junk", 5, None]
TEXTS = ["", "a", "hello world", "a\U0001F600b\u0301c", "\u0301\u0301", "\U0001F468\u200d\U0001F469\u200d\U0001F467", "x" * 300, "\u0000", "\ud83d",
         "  padded\u00a0\n", "e" + "\u0301" * 150 + "z", "\r\n\r\nab"]
DATAS = [{}, {"mime": "image/png", "val": "AAAA", "name": "x", "width": -1, "height": "x"}, {"val": 5}, 5, None, {"url": "http://x", "ref": 5},
         {"state": "started", "incoming": "x", "duration": -5}, {"name": 5, "act": "url", "val": None}, {"url": "hello", "name": ""}, {"name": "f.txt", "url": 7}]


def enc(d):
    return json.dumps(d, ensure_ascii=False).encode("utf-8", "surrogatepass")


def random_docs(ctx):
    """The random stream (every field from a boundary pool; most documents are rejected early)."""
    rng = ctx.rng
    cases = list(G.DRAFTY + G.ANY)
    for _ in range(500 if ctx.tier == "quick" else 20000):
        txt = G.pick(rng, TEXTS)
        fmt = []
        for _ in range(rng.randrange(0, 5)):
            f = {}
            if rng.random() < 0.9:
                f["at"] = G.pick(rng, OFFS)
            if rng.random() < 0.9:
                f["len"] = G.pick(rng, OFFS)
            if rng.random() < 0.6:
                f["tp"] = G.pick(rng, TPS)
            if rng.random() < 0.5:
                f["key"] = G.pick(rng, OFFS)
            fmt.append(f if rng.random() < 0.95 else G.pick(rng, [5, "x", None, []]))
        ent = []
        for _ in range(rng.randrange(0, 4)):
            e = {"tp": G.pick(rng, TPS)}
            if rng.random() < 0.7:
                e["data"] = G.pick(rng, DATAS)
            ent.append(e if rng.random() < 0.95 else G.pick(rng, [5, "x", None]))
        d = {"txt": txt, "fmt": fmt, "ent": ent}
        if rng.random() < 0.1:
            d["txt"] = G.pick(rng, [5, None, [], {}])
        if rng.random() < 0.05:
            del d["txt"]
        cases.append(d)
    return [(d, ln) for d in cases for ln in (0, 1, 7, 80, -1, 2 ** 31)]


def cross_docs():
    """An otherwise valid document with ONE span whose (at, len) is taken from the full cross product of
    boundary values (a document with several bad spans is rejected at the first one, so the random stream
    rarely reaches the code behind the range checks)."""
    out = []
    ints = [v for v in OFFS if isinstance(v, int)]
    for txt in ("hello", ""):
        for tp in ("ST", "BR", None):
            for at in ints:
                for ln_ in ints:
                    f = {"at": at, "len": ln_}
                    d = {"txt": txt, "fmt": [{"at": 0, "len": len(txt), "tp": "EM"}, f] if txt else [f]}
                    if tp is None:
                        f["key"] = 0
                        d["ent"] = [{"tp": "MN", "data": {"val": "usrX"}}]
                    else:
                        f["tp"] = tp
                    out.append((d, 7 if (at + ln_) % 2 else 0))
    return out


def boundary_docs():
    """Range boundaries relative to the text length and entity-reference boundaries relative to the number
    of entities, each with valid neighbours; with and without "txt" (nil grapheme container)."""
    out = []
    for txt in ("hello", "a\U0001F600b\u0301c", "", None):
        n = {"hello": 5, "a\U0001F600b\u0301c": 4, "": 0, None: 0}[txt]
        ats = sorted({-2, -1, 0, 1, n - 1, n, n + 1})
        for at in ats:
            for end in sorted({at - 1, at, at + 1, n - 1, n, n + 1, 2 ** 63 - 1}):
                for tp in ("ST", "BR", "QQ", "LN"):
                    d = {"fmt": [{"at": at, "len": end - at, "tp": tp}, {"at": 0, "len": n, "tp": "EM"}]}
                    if txt is not None:
                        d["txt"] = txt
                    out.append((d, 3))
    for nent in range(0, 4):
        ents = [{"tp": ["MN", "LN", "EX", "IM"][i], "data": {"url": "u%d" % i, "name": "n%d" % i}} for i in range(nent)]
        for key in sorted({-1, 0, 1, nent - 1, nent, nent + 1, 2 ** 31, 2 ** 62, 2 ** 63 - 1, -2 ** 63}):
            for at, ln_ in ((0, 2), (-1, 0), (0, 0), (1, 0), (2, 3)):
                for second in (None, {"at": 0, "len": 1, "key": 0}, {"at": 1, "len": 1, "tp": "ST"}):
                    fmt = [{"at": at, "len": ln_, "key": key}] + ([second] if second else [])
                    out.append(({"txt": "hello", "fmt": fmt, "ent": ents}, 4))
                    out.append(({"txt": "hello", "fmt": list(reversed(fmt)), "ent": ents}, 80))
    # entity arrays with null / non-object slots between real entities (the decoder drops them, so a reference is
    # judged against the entities that REMAIN, not against the raw array), every key from -1 to the raw length + 1
    real = lambda i: {"tp": ["LN", "MN", "IM"][i % 3], "data": {"url": "u%d" % i, "name": "n%d" % i, "val": "v"}}
    for n in (1, 2, 3):
        for mask in range(1, 2 ** n):          # at least one slot that is not an entity
            for junk in (None, 5, "x"):
                raw = [junk if (mask >> i) & 1 else real(i) for i in range(n)]
                for key in range(-1, n + 2):
                    for second in (None, {"at": 1, "len": 1, "tp": "ST"}):
                        fmt = [{"at": 0, "len": 1, "key": key}] + ([second] if second else [])
                        out.append(({"txt": "ab", "fmt": fmt, "ent": raw}, 4))
                        out.append(({"txt": "ab", "fmt": fmt, "ent": raw}, 80))
    return out


def valid_docs(ctx):
    """Mostly-valid documents: nested / overlapping / tied spans, attachments, void spans, quotes, entity
    references with and without data, multi-byte clusters; previews cut at every interesting length."""
    rng = ctx.rng
    out = []
    pieces = ["a", "b", " ", "\U0001F600", "e\u0301", "\U0001F468\u200d\U0001F469\u200d\U0001F467", "\n", "<", "\u00a0", "\r\n", "z"]
    for _ in range(400 if ctx.tier == "quick" else 20000):
        n = rng.choice([0, 1, 2, 3, 5, 8, 13])
        txt = "".join(rng.choice(pieces) for _ in range(n))
        nent = rng.randrange(0, 4)
        ents = []
        for i in range(nent):
            e = {"tp": rng.choice(["LN", "MN", "HT", "IM", "EX", "AU", "VD", "VC", "QQ", "BN", "FM"])}
            r = rng.random()
            if r < 0.7:
                e["data"] = rng.choice([{"url": "http://x"}, {"url": txt}, {"name": "f"}, {"name": ""}, {}, {"url": 5, "name": "n", "mime": "a/b"}])
            ents.append(e)
        fmt = []
        for _ in range(rng.choice([1, 1, 2, 3, 4, 6, 14])):
            r = rng.random()
            if r < 0.12:
                at, ln_ = -1, rng.choice([0, 0, 1])
            else:
                at = rng.randrange(0, n + 1)
                ln_ = rng.randrange(0, n - at + 1)
            f = {"at": at, "len": ln_}
            if rng.random() < 0.6 or nent == 0:
                f["tp"] = rng.choice(["ST", "EM", "DL", "CO", "BR", "LN", "MN", "HT", "EX", "IM", "VC", "QQ", "HD", "RW"])
            else:
                f["key"] = rng.randrange(0, nent)
            if rng.random() < 0.04:
                # one boundary error in an otherwise valid document
                k = rng.choice(["at", "len", "key"])
                f[k] = rng.choice([-2, -1, n, n + 1, nent, nent + 1, 2 ** 62, 2 ** 63 - 1])
            fmt.append(f)
        d = {"txt": txt, "fmt": fmt}
        if ents or rng.random() < 0.2:
            d["ent"] = ents
        out.append((d, rng.choice([0, 1, 2, n - 1, n, n + 1, 80, -1, 2 ** 63 - 1, -2 ** 63])))
    return out


def all_cases(ctx):
    cs = random_docs(ctx) + cross_docs() + boundary_docs() + valid_docs(ctx)
    return ["D %d %s" % (ln, enc(d).hex() or "-") for d, ln in cs]


# ---------------- comparison ----------------

def wrap64(z):
    return (z + 2 ** 63) % 2 ** 64 - 2 ** 63


def text_comparable(dec):
    """sort.Slice is not stable beyond 12 elements: the order of spans with equal (at, end) is then
    outside the model."""
    fmt = dec.split(";")[1]
    if fmt == "-":
        return True
    es = [e.split("/") for e in fmt.split(",")]
    if len(es) <= 12:
        return True
    keys = [(int(e[1]), wrap64(int(e[1]) + int(e[2]))) for e in es]
    return len(set(keys)) == len(keys)


def trim(hexs):
    b = b"" if hexs == "-" else bytes.fromhex(hexs)
    try:
        return b.decode("utf-8").strip(GO_SPACE).encode("utf-8")
    except UnicodeDecodeError:
        return None


def cls(x):
    return x.split(":")[0] if x.startswith(("ok", "PANIC")) else x


def same(impl, model, kind, comparable):
    """kind = plain | preview.  Returns None or a description of the disagreement."""
    ci, cm = cls(impl), cls(model)
    if ci != cm:
        return "outcome class: implementation %s, model %s" % (impl[:80], model[:80])
    if ci != "ok" or not comparable:
        return None
    pi, pm = impl[3:], model[3:]
    if kind == "plain":
        t = trim(pm)
        if t is None:
            return None       # the model's text is cut inside a UTF-8 sequence (cluster longer than 255 bytes)
        if (b"" if pi == "-" else bytes.fromhex(pi)) != t:
            return "plain text: implementation %s, model (trimmed) %s" % (pi[:120], t.hex()[:120])
        return None
    a, b = pi.split(";"), pm.split(";")
    try:
        (b"" if b[0] == "-" else bytes.fromhex(b[0])).decode("utf-8")
    except UnicodeDecodeError:
        return None
    if a != b:
        return "preview: implementation %s, model %s" % (pi[:160], pm[:160])
    return None


def expected(dec, model_line):
    """(plain, preview) the model side predicts for a decoded content."""
    if dec == "nil":
        return "ok:-", "empty"
    if dec.startswith("derr:"):
        return "err:" + dec[5:], "err:" + dec[5:]
    m = model_line.split()
    return m[0], m[1]


def run(ctx, stats, have_model=True):
    ok, out = ctx.build_ext()
    if not ok:
        ctx.violation("corr", "harness-build-broken", "ext driver no longer builds: " + out[-1500:], {"correspondence": "build of harness/ext"})
        return
    cases = all_cases(ctx)
    rc, res, err = ctx.run_ext("c13", cases)
    if rc != 0 or len(res) != len(cases):
        ctx.violation("corr", "driver-crashed", "drafty ext driver failed rc=%s %s" % (rc, err[-1500:]), {"correspondence": "ext driver"})
        return
    outcomes = {}
    n_p = 0
    todo = []
    for c, r in zip(cases, res):
        w = r.split()
        raw = bytes.fromhex(c.split()[2]) if c.split()[2] != "-" else b""
        doc = raw.decode("utf-8", "replace")
        if r in ("jsonerr", "HANG") or len(w) != 4 or w[0] != "R":
            outcomes[r.split()[0] if r else "?"] = outcomes.get(r.split()[0] if r else "?", 0) + 1
            if r != "jsonerr":
                n_p += 1
                ctx.violation("monitor", "drafty-panic", "drafty.PlainText/Preview %s on a client-controlled document: %s" % (r[:200], doc[:300]),
                              {"case": c, "impl": r, "document": doc})
            continue
        _, dec, pl, pv = w
        key = "plain %s / preview %s" % (cls(pl), cls(pv))
        outcomes[key] = outcomes.get(key, 0) + 1
        for name, x in (("PlainText", pl), ("Preview", pv)):
            if x.startswith("PANIC"):
                n_p += 1
                msg = bytes.fromhex(x.split(":", 1)[1]).decode("utf-8", "replace")
                ctx.violation("monitor", "drafty-panic", "drafty.%s panics on a client-controlled document (content is rendered into push previews in goroutines "
                              "without recover: the server process dies): %s on %s (preview length %s)" % (name, msg[:200], doc[:300], c.split()[1]),
                              {"case": c, "impl": r, "document": doc, "preview_length": c.split()[1], "how": "echo '%s' | build/ext c13" % c[:4000]})
        if dec.startswith("PANIC"):
            ctx.violation("corr", "driver-crashed", "the driver's decoder failed on %s" % doc[:300], {"correspondence": "ext driver", "case": c})
            continue
        todo.append((c, doc, dec, pl, pv))
    stats["drafty"] = {"evaluations": len(cases), "panics": n_p, "outcomes": outcomes}
    if not have_model:
        return
    ok, out = ctx.build_runner()
    if not ok:
        ctx.violation("proof", "extraction-broken", "model extraction/runner build failed: " + out[-1500:], {"theorem_or_obligation": "extraction of the model"})
        return
    lines = []
    idx = []
    for k, (c, doc, dec, pl, pv) in enumerate(todo):
        if dec.startswith("doc:"):
            t, f, e = dec[4:].split(";")
            idx.append(k)
            lines.append("T 1 %s %s %s %s" % (c.split()[1], t, f, e))
    rc, mres, err = ctx.run_model("c13d", lines)
    if rc != 0 or len(mres) != len(lines) or any(m.startswith(("EXC", "?")) for m in mres):
        ctx.violation("proof", "runner-crashed", "drafty model runner failed: rc=%s %s %s" % (rc, err[-800:], [m for m in mres if m.startswith(("EXC", "?"))][:3]),
                      {"theorem_or_obligation": "model runner c13d"})
        return
    model_of = dict(zip(idx, mres))
    dist = {"trees_built (fmt not empty, PlainText ok)": 0, "with 2+ spans": 0, "with 5+ spans": 0, "with an entity reference": 0,
            "with an attachment (at = -1)": 0, "without txt (nil grapheme container)": 0, "rejected by the range / key checks of toTree": 0,
            "rejected by the decoder": 0, "preview cut short": 0}
    for c, doc, dec, pl, pv in todo:
        if dec.startswith("derr"):
            dist["rejected by the decoder"] += 1
        if not dec.startswith("doc:"):
            continue
        t, f, e = dec[4:].split(";")
        if f == "-":
            continue
        es = [x.split("/") for x in f.split(",")]
        if pl.startswith("err"):
            dist["rejected by the range / key checks of toTree"] += 1
        if not pl.startswith("ok"):
            continue
        dist["trees_built (fmt not empty, PlainText ok)"] += 1
        dist["with 2+ spans"] += len(es) >= 2
        dist["with 5+ spans"] += len(es) >= 5
        dist["with an entity reference"] += any(x[0] == "" for x in es) and e != "-"
        dist["with an attachment (at = -1)"] += any(x[1] == "-1" for x in es)
        dist["without txt (nil grapheme container)"] += t == "n"
        if pv.startswith("ok:") and t != "n":
            full = "".join(t[1:].split("."))
            dist["preview cut short"] += len(pv[3:].split(";")[0].replace("-", "")) < len(full)
    stats["drafty"]["distribution"] = dist
    mism = []
    compared = texts = 0
    model_bad = 0
    for k, (c, doc, dec, pl, pv) in enumerate(todo):
        mp, mv = expected(dec, model_of.get(k, ""))
        if "PANIC" in mp or "PANIC" in mv or "FUEL" in mp or "FUEL" in mv:
            model_bad += 1      # contradicts c13_drafty_never_panics / c13_drafty_preview_never_panics: runner and theorem out of step
            mism.append((c, doc, "the extracted model reports %s / %s" % (mp, mv)))
            continue
        comparable = dec.startswith("doc:") and text_comparable(dec[4:]) or not dec.startswith("doc:")
        compared += 1
        texts += 1 if (comparable and pl.startswith("ok")) else 0
        for kind, a, b in (("plain", pl, mp), ("preview", pv, mv)):
            d = same(a, b, kind, comparable)
            if d:
                mism.append((c, doc, "%s: %s" % ("PlainText" if kind == "plain" else "Preview", d)))
                break
    stats["drafty"].update({"model_compared": compared, "model_mismatches": len(mism), "plain_texts_compared": texts,
                            "projection": "per document and preview length: outcome class of PlainText and of Preview (ok / err invalid / err unrecognized / PANIC), "
                                          "the plain text after TrimSpace, the preview's txt, fmt (tp, at, len, key) and entity types; texts are not compared when more than "
                                          "12 spans contain a tie (sort.Slice unstable) or a cluster longer than 255 bytes is cut"})
    if mism:
        c, doc, what = mism[0]
        found = None if any(v["key"] == "drafty-panic" for v in ctx.violations) else search_panic(ctx, [m[0] for m in mism[:8]])
        if found:
            fc, fr, fdoc = found
            ctx.violation("monitor", "drafty-panic", "drafty panics on a client-controlled document (found next to a model/implementation disagreement): %s on %s"
                          % (fr[:200], fdoc[:300]), {"case": fc, "impl": fr, "document": fdoc, "how": "echo '%s' | build/ext c13" % fc[:4000]})
        ctx.violation("corr", "drafty-correspondence", "drafty model (coq/Pure/Drafty.v) and implementation disagree on %d of %d documents, e.g. %s: %s"
                      % (len(mism), compared, doc[:300], what),
                      {"correspondence": "drafty.PlainText / drafty.Preview vs extracted model", "case": c, "document": doc, "disagreement": what,
                       "more": [{"document": d[:300], "disagreement": w[:300]} for _, d, w in mism[1:12]],
                       "how": "echo '%s' | build/ext c13   # then the T line built from the answer | build/runner c13d" % c[:4000]})


def search_panic(ctx, cases):
    """Failing-input search next to a disagreement: every integer field of the document moved to the
    boundaries of its neighbourhood; returns the first input on which the implementation panics."""
    tried = []
    for c in cases:
        w = c.split()
        try:
            d = json.loads(bytes.fromhex(w[2]).decode("utf-8", "replace"))
        except Exception:
            continue
        if not isinstance(d, dict) or not isinstance(d.get("fmt"), list):
            continue
        nent = len(d["ent"]) if isinstance(d.get("ent"), list) else 0
        n = len(d["txt"]) if isinstance(d.get("txt"), str) else 0
        vals = sorted({-2, -1, 0, 1, n - 1, n, n + 1, nent - 1, nent, nent + 1, 2 ** 62, 2 ** 63 - 1})
        for i, f in enumerate(d["fmt"]):
            if not isinstance(f, dict):
                continue
            for k in ("at", "len", "key"):
                for v in vals:
                    d2 = json.loads(json.dumps(d))
                    d2["fmt"][i][k] = v
                    if k == "key":
                        d2["fmt"][i].pop("tp", None)
                    tried.append("D %s %s" % (w[1], enc(d2).hex()))
    tried = tried[:4000]
    if not tried:
        return None
    rc, res, err = ctx.run_ext("c13", tried)
    for c, r in zip(tried, res):
        if "PANIC" in r or r == "HANG":
            return c, r, bytes.fromhex(c.split()[2]).decode("utf-8", "replace")
    return None
