"""C08, part d: p2p topics - {set sub mode} for one's own subscription through the live topic and through the hub
(session not attached / topic not loaded), the topic named usrXXX or p2pXXXYYY, and the reload differential.

Model: coq/Sys/TopicKindsC07.v (the C07 kinds model: expandTopicName, initTopicP2P, thisUserSub / anotherUserSub p2p
branches, replyOfflineTopicSetSub); theorems c08_kinds_offline_path, c08_kinds_offline_ack_is_stored,
c08_kinds_name_form_irrelevant, c08_p2p_offline_set_same_as_live (coq/Props/PropC08.v over Sys/KindsOfflineC08d.v).
Driver: TestVerifC08xKinds (harness/overlay/server/zz_verif_c08x_test.go = the C07 kinds driver + {get desc}/{get sub});
model runner: harness/runner/r_c07.ml (queries are not in the model: they are compared between runs of the real server).

run_part(ctx) on seeded histories over one p2p topic of two users (+ sometimes a third account):
 1. model-vs-implementation correspondence of the base histories (ctrl replies, stored rows, cached records, sessions);
 2. on the IMPLEMENTATION's trace: an offline {ctrl 200 acs=w/g} names the stored row (ack-acs-not-stored-offline);
 3. differentials on the real server around one marked request K = {set sub mode=M} for the requester himself:
      off     the sessions leave, the topic is unloaded, K is served by the hub, the sessions come back:
              stored rows right after K and every later answer must be those of the live run (offline-set-differs-from-live);
      reload  K is served live, then leave all / unload / re-attach: later {get desc}/{get sub} and rows unchanged (reload-visible-p2p);
      form    K addressed by the other name of the same topic (usrXXX <-> p2pXXXYYY), live and offline: same replies
              and rows (name-form-changes-outcome).
It never calls ctx.finish(); returns a coverage dict."""
import json
import os
import subprocess
import time
import vlib
from props import c07 as C7

L_OFF = "offline-set-differs-from-live"
L_RELOAD = "reload-visible-p2p"
L_FORM = "name-form-changes-outcome"
L_ACK = "ack-acs-not-stored-offline"

MODES = ["JRWSD", "JRWPASD", "JRWPS", "JRWPA", "JRWP", "JRWA", "RWPA", "JR", "JA", "N", "A", "JRWPASDO", "O", "JS", "D", "JRWPD", "jrwsd"]


def other_form(sc, u, ref):
    if ref.startswith("u"):
        a, b = sorted((u, int(ref[1:])))
        return "P%d.%d" % (a, b)
    a, b = (int(x) for x in ref[1:].split("."))
    return "u%d" % (b if a == u else a)


def gen(ctx, count):
    """-> [(scenario, K)]"""
    rng = ctx.rng
    res = []
    for i in range(count):
        sc = C7.KScn("pk%d" % i)
        accs = [rng.choice([63, 63, 31, 31, 23, 55, 51, 19]) for _ in range(2)]
        sc.users = {1: (accs[0], False), 2: (accs[1], False)}
        if rng.random() < 0.3:
            sc.users[3] = (31, False)
        sc.sessions = {1: 1, 2: 2}
        if rng.random() < 0.4:
            sc.sessions[3] = rng.choice([1, 2])

        def ref(u):
            peer = 2 if u == 1 else 1
            return "u%d" % peer if rng.random() < 0.65 else "P1.2"
        ops = [(1, "sub", ["u2", C7.hx(rng.choice(["", "", "", "JRWPA", "JRWP"])), C7.hx(rng.choice(["", "", "JRWPA"]))]),
               (2, "sub", [ref(2), C7.hx(rng.choice(["", "", "JRWPA"])), C7.hx("")])]
        if 3 in sc.sessions and rng.random() < 0.7:
            ops.append((3, "sub", [ref(sc.sessions[3]), C7.hx(""), C7.hx("")]))
        for _ in range(rng.randint(0, 3)):
            s = rng.choice(sorted(sc.sessions))
            u = sc.sessions[s]
            r = rng.random()
            if r < 0.6:
                ops.append((s, "setsub", [ref(u), rng.choice([0, u]), C7.hx(rng.choice(["JRWPA", "JRWP", "JRWA", "JRA", "JRWPA"]))]))
            elif r < 0.8:
                peer = 2 if u == 1 else 1
                ops.append((s, "setsub", [ref(u), peer, C7.hx(rng.choice(["JRWPA", "JRWA", "JRWP"]))]))
            else:
                ops.append((s, rng.choice(["getdesc", "getsub"]), [ref(u)]))
        # the marked request
        s = rng.choice(sorted(sc.sessions))
        u = sc.sessions[s]
        mode = rng.choice(MODES) if rng.random() < 0.7 else C7.gen_mode(rng, allow_empty=False)
        K = len(ops)
        ops.append((s, "setsub", [ref(u), rng.choice([0, 0, u]), C7.hx(mode)]))
        for _ in range(rng.randint(0, 2)):
            s2 = rng.choice(sorted(sc.sessions))
            ops.append((s2, "setsub", [ref(sc.sessions[s2]), 0, C7.hx(rng.choice(["JRWPA", "JRWP", "JRWA"]))]))
        sc.ops = ops
        res.append((sc, K))
    return res


def probes(sc):
    ops = []
    for s in sorted(sc.sessions):
        u = sc.sessions[s]
        if u in (1, 2):
            r = "u%d" % (2 if u == 1 else 1)
            ops += [(s, "getdesc", [r]), (s, "getsub", [r])]
    return ops


def run_impl(ctx, scns, tag):
    fin = os.path.join(ctx.work, "pk_%s.in" % tag)
    fout = os.path.join(ctx.work, "pk_%s.impl" % tag)
    with open(fin, "w") as f:
        for sc in scns:
            f.write("\n".join(sc.lines()) + "\n")
    if os.path.exists(fout):
        os.remove(fout)
    env = dict(vlib.GOENV, VERIF_IN=fin, VERIF_OUT=fout)
    try:
        p = subprocess.run([os.path.join(vlib.BUILD, "maindrv.test"), "-test.run", "^TestVerifC08xKinds$", "-test.count=1", "-test.timeout=1200s"],
                           stdout=subprocess.PIPE, stderr=subprocess.STDOUT, env=env, cwd=os.path.join(vlib.REPO, "server"), timeout=1300)
    except subprocess.TimeoutExpired:
        return 1, {}, "timeout"
    out = p.stdout.decode("utf8", "replace")
    lines = open(fout).read().split("\n") if os.path.exists(fout) else []
    log = "\n".join(l for l in out.split("\n") if not (len(l) > 3 and l[0] in "IWE" and l[1:3] == "20"))
    return p.returncode, parse(lines), log


def parse(lines):
    """C7.k_parse + the meta frames of the queries (k_parse keeps every S<n> line as a frame)"""
    return C7.k_parse(lines)


TOK = "p1.2"


def tstate(b):
    return b["topics"].get(TOK, {"store": {}, "cache": None, "sess": {}})


def clone(sc, ops, vid):
    c = sc.clone(ops)
    c.id = vid
    return c


def build_variants(sc, K, blocks):
    """-> [(kind, variant scn, index of K in the variant, number of ops inserted before the tail, reattach index range)]"""
    res = []
    s, _, a = sc.ops[K]
    u = sc.sessions[s]
    before = tstate(blocks[K - 1])
    att = sorted(before["sess"]) if before["cache"] is not None else []
    leaves = [(x, "leave", ["u%d" % (2 if sc.sessions[x] == 1 else 1), 0]) for x in att]
    back = [(x, "sub", ["u%d" % (2 if sc.sessions[x] == 1 else 1), "-", "-"]) for x in att]
    unload = [(0, "unload", [TOK])]
    kop = sc.ops[K]
    kalt = (s, "setsub", [other_form(sc, u, a[0]), a[1], a[2]])
    tail = list(sc.ops[K + 1:])
    pre = list(sc.ops[:K])
    n1 = len(leaves) + 1
    if s in att:
        res.append(("off", clone(sc, pre + leaves + unload + [kop] + back + tail, sc.id + "_off"), K + n1, n1 + len(back), (K + n1 + 1, K + n1 + 1 + len(back))))
        res.append(("off-form", clone(sc, pre + leaves + unload + [kalt] + back + tail, sc.id + "_offf"), K + n1, n1 + len(back), (K + n1 + 1, K + n1 + 1 + len(back))))
    res.append(("reload", clone(sc, pre + [kop] + leaves + unload + back + tail, sc.id + "_rel"), K, n1 + len(back), (K + 1 + n1, K + 1 + n1 + len(back))))
    res.append(("form", clone(sc, pre + [kalt] + tail, sc.id + "_form"), K, 0, (0, 0)))
    return res


def ctrl_of(b, sid):
    return [t for s, t in b["frames"] if s == sid]


def monitor_ack(sc, blocks):
    """an offline {ctrl 200 acs=w/g} of a {set sub} names the stored row of the requester"""
    res = []
    for k, b in enumerate(blocks):
        s, kind, a = sc.ops[k]
        if kind != "setsub" or k == 0:
            continue
        prev = tstate(blocks[k - 1])
        if prev["cache"] is not None and s in prev["sess"]:
            continue        # served by the live topic
        u = sc.sessions.get(s)
        for t in ctrl_of(b, s):
            if t.startswith("ctrl 200") and " acs=" in t and " user=" not in t:
                w, g = t.split(" acs=")[1].split()[0].split("/")
                row = tstate(b)["store"].get(u)
                if row is None or row[2] or (C7.mstr(row[0]), C7.mstr(row[1])) != (C7.mstr(C7.bits(w)), C7.mstr(C7.bits(g))):
                    res.append((L_ACK, k, "%s %s from a session that is not attached answered acs=%s/%s but the stored row of user %s is %s"
                                % (kind, a, w, g, u, row and (C7.mstr(row[0]), C7.mstr(row[1]), row[2]))))
    return res


L_STALE = "offline-setsub-stale-cache"      # the reproduced defect (findings/C08.md #3), here on a p2p topic
L_COH = "p2p-cache-differs-from-store"


def incoherent(b):
    """{user: detail}: cached want/given of a live participant differ from his stored row"""
    t = tstate(b)
    d = {}
    if t["cache"] is None:
        return d
    for u, (w, g, dl) in t["store"].items():
        c = t["cache"].get(u)
        if dl or c is None or c[2]:
            continue
        if (c[0], c[1]) != (w, g):
            d[u] = "user %d cached %s/%s stored %s/%s" % (u, C7.mstr(c[0]), C7.mstr(c[1]), C7.mstr(w), C7.mstr(g))
    return d


def monitor_coherent(sc, blocks):
    """-> [(law, k, detail, user)]: a NEW divergence of cached and stored modes, named by its root cause"""
    res = []
    prev = {}
    for k, b in enumerate(blocks):
        inc = incoherent(b)
        s, kind, a = sc.ops[k]
        for u, det in inc.items():
            if u in prev and prev[u] == det:
                continue
            before = tstate(blocks[k - 1]) if k > 0 else {"cache": None, "sess": {}}
            offline = kind == "setsub" and before["cache"] is not None and s not in before["sess"] and sc.sessions.get(s) == u
            res.append((L_STALE if offline else L_COH, k, "%s after %s %s" % (det, kind, a), u))
        prev = inc
    return res


def run_part(ctx, replay=None):
    quick = ctx.tier == "quick"
    t0 = time.time()
    cov = {"histories": 0, "perturbed_runs": 0, "laws_failing": {}, "not_comparable": 0}
    known = set(f["key"] for f in ctx.load_findings() if f["property"] == ctx.pid)
    if replay is not None:
        sc = C7.KScn(replay["head"][0].split()[1])
        for l in replay["head"][1:]:
            w = l.split()
            if w[0] == "user":
                sc.users[int(w[1])] = (int(w[2].split("=")[1]), "root=1" in l)
            elif w[0] == "sess":
                sc.sessions[int(w[1])] = int(w[2])
        sc.ops = [(o[0], o[1], list(o[2])) for o in replay["ops"]]
        pairs = [(sc, replay["K"])]
    else:
        pairs = gen(ctx, 40 if quick else 400)
        cdir = os.path.join(vlib.ROOT, "corpus", "C08kinds")
        if os.path.isdir(cdir):
            for f in sorted(os.listdir(cdir)):
                rp = json.load(open(os.path.join(cdir, f)))
                sc = C7.KScn("c_" + f.split(".")[0])
                for l in rp["head"][1:]:
                    w = l.split()
                    if w[0] == "user":
                        sc.users[int(w[1])] = (int(w[2].split("=")[1]), "root=1" in l)
                    elif w[0] == "sess":
                        sc.sessions[int(w[1])] = int(w[2])
                sc.ops = [(o[0], o[1], list(o[2])) for o in rp["ops"]]
                pairs.insert(0, (sc, rp["K"]))
        for sc, K in pairs:
            sc.ops = sc.ops + probes(sc)
    scns = [sc for sc, _ in pairs]

    def crashed(bad, log):
        ctx.violation("monitor", "server-crashed-p2p", "the server process died or stopped answering while running p2p history %s: %s"
                      % (bad.id if bad else "?", log[-1500:]),
                      {"part": "kinds", "head": bad.head if bad else [], "ops": [list(o) for o in bad.ops] if bad else [], "K": 0, "log": log[-3000:]})
        return cov
    rc, impl, log = run_impl(ctx, scns, "base")
    bad = next((sc for sc in scns if sc.id not in impl or len(impl[sc.id]) != len(sc.ops)), None)
    if rc != 0 or bad is not None:
        return crashed(bad, log)

    fails = {}     # law -> [(scn, K, kind, detail, replay ops)]

    # ---- correspondence with the kinds model (queries are not requests of the model: stripped)
    mism = []
    stripped = []
    for sc in scns:
        c = clone(sc, [o for o in sc.ops if o[1] not in ("getdesc", "getsub")], sc.id)
        stripped.append(c)
    rc, model, err = C7.k_run_model(ctx, stripped)
    if rc != 0:
        ctx.violation("proof", "runner-crashed", "kinds model runner failed: " + err[-1500:], {"theorem_or_obligation": "model runner"})
        return cov
    for sc in scns:
        io = [b for b, o in zip(impl[sc.id], sc.ops) if o[1] not in ("getdesc", "getsub")]
        mo = model.get(sc.id, [])
        if len(io) != len(mo):
            mism.append((sc, -1, ("shape", len(io), len(mo))))
            continue
        for k in range(len(io)):
            if io[k]["raw"][0:0] + [x for x in io[k]["raw"]] != mo[k]["raw"]:
                mism.append((sc, k, ([x for x in io[k]["raw"] if x not in mo[k]["raw"]], [x for x in mo[k]["raw"] if x not in io[k]["raw"]])))
                break

    # ---- ack law on the implementation's trace
    for sc, K in pairs:
        for law, k, detail in monitor_ack(sc, impl[sc.id]):
            fails.setdefault(law, []).append((sc, K, "base", detail, sc.ops[:k + 1]))

    coh = {}
    for sc, K in pairs:
        coh[sc.id] = monitor_coherent(sc, impl[sc.id])
        for law, k, detail, u in coh[sc.id]:
            fails.setdefault(law, []).append((sc, K, "base", detail, sc.ops[:k + 1]))

    # ---- differentials
    variants = []
    for sc, K in pairs:
        if K <= 0 or K >= len(sc.ops):
            continue
        for v in build_variants(sc, K, impl[sc.id]):
            variants.append((sc, K) + v)
    vimpl = {}
    if variants:
        rc, vimpl, log = run_impl(ctx, [v[3] for v in variants], "var")
        bad = next((v[3] for v in variants if v[3].id not in vimpl or len(vimpl[v[3].id]) != len(v[3].ops)), None)
        if rc != 0 or bad is not None:
            return crashed(bad, log)
    for sc, K, kind, vs, vK, nins, (r0, r1) in variants:
        bb, vb = impl[sc.id], vimpl[vs.id]
        law = {"off": L_OFF, "off-form": L_OFF, "reload": L_RELOAD, "form": L_FORM}[kind]
        s = sc.ops[K][0]
        u = sc.sessions[s]
        pre_b, pre_v = tstate(bb[K - 1]), tstate(vb[vK - 1])
        if pre_b["store"] != pre_v["store"]:
            cov["not_comparable"] += 1
            continue
        if kind in ("off", "off-form"):
            if pre_v["cache"] is not None:
                cov["not_comparable"] += 1      # the topic did not unload (a session of another user stayed)
                continue
            if pre_b["cache"] is None or pre_b["cache"].get(u) != pre_b["store"].get(u):
                cov["not_comparable"] += 1      # hypothesis of c08_p2p_offline_set_same_as_live: cached record = stored row
                continue
            # stored rows right after K
            if tstate(bb[K])["store"] != tstate(vb[vK])["store"]:
                fails.setdefault(law, []).append((sc, K, kind, "stored rows of the p2p topic after %s: served by the live topic %s; served by the hub (topic unloaded%s) %s"
                                                  % (sc.ops[K], fmt_rows(tstate(bb[K])["store"]), ", addressed by the other name" if kind == "off-form" else "",
                                                     fmt_rows(tstate(vb[vK])["store"])), vs.ops[:vK + 1]))
                continue
        if kind == "form":
            if ctrl_of(bb[K], s) != ctrl_of(vb[vK], s) or tstate(bb[K]) != tstate(vb[vK]):
                fails.setdefault(law, []).append((sc, K, kind, "%s addressed as %s: replies %s, rows %s; addressed as %s: replies %s, rows %s"
                                                  % (sc.ops[K], sc.ops[K][2][0], ctrl_of(bb[K], s), fmt_rows(tstate(bb[K])["store"]),
                                                     vs.ops[vK][2][0], ctrl_of(vb[vK], s), fmt_rows(tstate(vb[vK])["store"])), vs.ops[:vK + 1]))
                continue
        # the sessions came back the way they were (else the rest is not the same experiment)
        if r1 > r0:
            same = all(ctrl_of(vb[j], vs.ops[j][0]) == ["ctrl 200"] for j in range(r0, r1))
            after_b = tstate(bb[K])
            after_v = tstate(vb[r1 - 1])
            if not same or after_b["cache"] is None or after_v["cache"] is None or after_b["sess"] != after_v["sess"]:
                cov["not_comparable"] += 1
                continue
        # every later request: replies, answers, rows
        for k in range(K + 1, len(sc.ops)):
            j = k + nins
            fb = [(x, t) for x, t in bb[k]["frames"]]
            fv = [(x, t) for x, t in vb[j]["frames"]]
            if fb != fv or tstate(bb[k])["store"] != tstate(vb[j])["store"]:
                # a divergence of cache and store that the unperturbed run already has (reported with its own law) is what
                # the reload makes visible
                roots = sorted(set(l for l, kk, _, _ in coh[sc.id] if kk < k))
                if roots:
                    law = roots[0]
                fails.setdefault(law, []).append((sc, K, kind, "request %s: unperturbed run answers %s rows %s; perturbed run (%s) answers %s rows %s"
                                                  % (sc.ops[k], fb, fmt_rows(tstate(bb[k])["store"]), kind, fv, fmt_rows(tstate(vb[j])["store"])), vs.ops[:j + 1]))
                break

    for law, lst in sorted(fails.items()):
        sc, K, kind, detail, rops = min(lst, key=lambda x: len(x[4]))
        ctx.violation("monitor", law, "law %s fails on the real server (%d runs this check, p2p part): %s" % (law, len(lst), detail),
                      {"part": "kinds", "head": sc.head, "ops": [list(o) for o in sc.ops], "K": K, "law": law, "variant": kind,
                       "perturbed_ops": [list(o) for o in rops], "detail": detail})
    if mism and not [l for l in fails if l not in known]:
        sc, k, d = min(mism, key=lambda x: x[1])
        ctx.violation("corr", "correspondence-p2p", "kinds model (Sys/TopicKindsC07.v) and implementation disagree on %d of %d p2p histories; first: request %d: %s"
                      % (len(mism), len(scns), k, json.dumps(d, default=str)[:800]),
                      {"part": "kinds", "head": sc.head, "ops": [list(o) for o in sc.ops[:k + 1]], "K": 0, "correspondence": "projection of C08 (p2p part)", "diff": d})
    modes = {}
    offline = 0
    for sc, K in pairs:
        if 0 < K < len(sc.ops):
            m = bytes.fromhex(sc.ops[K][2][2]).decode("latin1") if sc.ops[K][2][2] != "-" else ""
            modes[m] = modes.get(m, 0) + 1
    for v in variants:
        offline += v[2] in ("off", "off-form")
    cov.update({"histories": len(scns), "perturbed_runs": len(variants), "offline_variants": offline,
                "laws_failing": {k: len(v) for k, v in fails.items()}, "correspondence_mismatches": len(mism),
                "marked_request_modes": modes, "wall_s": round(time.time() - t0, 1),
                "rule": "seeded histories over the p2p topic of users 1 and 2 (account defaults JRWPAS/JRWPA/JRWA../ sometimes a third account and a second "
                        "session): both attach (names usrXXX and p2pXXXYYY mixed), 0-3 {set sub} (own want, peer's grant) and queries, then the MARKED request "
                        "{set sub mode=M} for the requester himself (M from a list biased to modes outside JRWPA / without A / N / with O / lower case + the C07 "
                        "mode grammar), 0-2 more {set sub}, then {get desc}+{get sub} from every session; each history is run unperturbed, with the marked "
                        "request served by the hub (leave all; unload; request; re-attach) under either name, with a reload right after it, and with the "
                        "other name form"})
    return cov


def fmt_rows(rows):
    return " ".join("%d:%s/%s:%d" % (u, C7.mstr(w), C7.mstr(g), d) for u, (w, g, d) in sorted(rows.items()))


def replay_part(ctx, rp):
    return run_part(ctx, replay=rp)
