"""C14, round s14d: store faults on {del topic} and many-topics scenarios (detach queue of 64).

Part of the C14 check (called from tools/props/c14.py):

* gen_fault_scn_c14d   - burst scenarios in which the owner's {del what=topic} meets a FAILING store.Topics.Delete
  (request suffix `fault=TopicDelete`, harness/overlay/server/zz_verif_c14d_test.go), on a loaded topic with sessions
  attached (hub.go topicUnreg case 1.1.1) or on an unloaded one (case 1.2), followed by bursts of leave / unsubscribe /
  subscribe / publish / disconnect of the members, a second failed delete, a successful delete and a final
  re-subscription.  The faulted request is alone in its burst; no burst mixes a terminating step with another
  request on that topic: the outcome class on the unchanged tree does not depend on the schedule.
* gen_many_scn_c14d    - one session attached to 66-78 cheap group topics of one owner; its writer stalls (a long-poll
  session between polls, a slow consumer in a socket write); then the owner's account is deleted or all the topics are
  deleted at once (or both); every topic sends the session a detach notice through Session.detach (capacity 64): the
  65th sender waits for the write loop.  Then the writer resumes and Session.subs is compared with the topics'
  session tables at quiescence (law attach-symmetry), and the session asks for some of the topics again (must be refused).
* monitor_faults_c14d  - law `topic-usable-after-failed-delete` on the implementation's output.
"""


def _c14():
    from props import c14
    return c14


# ---------------------------------------------------------------- generators
def gen_fault_scn_c14d(rng, sid):
    c14 = _c14()
    sc = c14.Scn(sid)
    nu = rng.randint(2, 4)
    sc.users = list(range(1, nu + 1))
    ng = rng.randint(1, 2)
    for g in range(1, ng + 1):
        owner = rng.choice(sc.users)
        if rng.random() < 0.7:
            sc.topics[g] = dict(kind="grp", owner=owner, members=list(sc.users))
        else:
            sc.topics[g] = dict(kind="chn", owner=owner, members=[owner] + [u for u in sc.users if u != owner and rng.random() < 0.5])
    for u in sc.users:
        sc.topics[10 + u] = dict(kind="me", owner=u)
    si = 0
    for u in sc.users:
        for _ in range(rng.randint(1, 2)):
            si += 1
            sc.sessions[si] = dict(user=u)
    rid = [0]

    def nr():
        rid[0] += 1
        return "r%d" % rid[0]

    gone = set()
    deleted = set()
    grp = sorted(k for k, t in sc.topics.items() if t["kind"] in ("grp", "chn"))

    def live():
        return [x for x in sorted(sc.sessions) if x not in gone]

    def owners_of(k):
        return [x for x in live() if sc.sessions[x]["user"] == sc.topics[k]["owner"]]

    def member_burst(k):
        """members act on topic k (and now and then on another one): leave / unsubscribe / subscribe / publish / disconnect"""
        lines = []
        for x in live():
            if rng.random() > 0.75:
                continue
            for _ in range(rng.randint(1, 2)):
                if x in gone:
                    break
                u = sc.sessions[x]["user"]
                kk = k if rng.random() < 0.85 else rng.choice(grp)
                r = rng.random()
                if r < 0.32:
                    lines.append("q %d %s leave %d 0" % (x, nr(), kk))
                elif r < 0.60:
                    lines.append("q %d %s sub %d" % (x, nr(), kk))
                elif r < 0.75:
                    lines.append("q %d %s pub %d" % (x, nr(), kk))
                elif r < 0.82 and u != sc.topics[kk]["owner"]:
                    lines.append("q %d %s leave %d 1" % (x, nr(), kk))
                elif r < 0.96:
                    # never the last session of the owner while a delete is still to come
                    if len(owners_of(k)) == 1 and x in owners_of(k) and rng.random() < 0.8:
                        lines.append("q %d %s sub %d" % (x, nr(), kk))
                    else:
                        lines.append("q %d %s disc" % (x, nr()))
                        gone.add(x)
                else:
                    lines.append("q %d %s sub %d" % (x, nr(), me_ref(sc, u)))
        return lines

    for x in sorted(sc.sessions):
        sc.bursts.append(["q %d %s sub %d" % (x, nr(), me_ref(sc, sc.sessions[x]["user"]))])
    for k in grp:
        o = owners_of(k)
        sc.bursts.append(["q %d %s sub %d" % (o[0], nr(), k)])
        rest = ["q %d %s sub %d" % (x, nr(), k) for x in live() if x != o[0] and rng.random() < 0.85]
        if rest:
            sc.bursts.append(rest)
    for rnd in range(rng.randint(1, 2)):
        cand = [k for k in grp if k not in deleted and owners_of(k)]
        if not cand:
            break
        k = rng.choice(cand)
        if rng.random() < 0.4:
            b = member_burst(k)
            if b:
                sc.bursts.append(b)
        if not owners_of(k):
            break
        if rng.random() < 0.2:
            # the topic is unloaded first: the failed delete takes the "topic is offline" path (hub.go case 1.2)
            sc.bursts.append(["q %d %s leave %d 0" % (x, nr(), k) for x in live()])
            sc.bursts.append(["i unload %d" % k])
        sc.bursts.append(["q %d %s deltopic %d 0 fault=TopicDelete" % (rng.choice(owners_of(k)), nr(), k)])
        for _ in range(rng.randint(2, 4)):
            b = member_burst(k)
            if b:
                sc.bursts.append(b)
        if owners_of(k) and rng.random() < 0.5:
            sc.bursts.append(["q %d %s deltopic %d 0" % (rng.choice(owners_of(k)), nr(), k)])
            deleted.add(k)
            b = member_burst(k)
            if b:
                sc.bursts.append(b)
    lines = []
    for x in live():
        for k in grp:
            if rng.random() < 0.7:
                lines.append("q %d %s sub %d" % (x, nr(), k))
    if lines:
        sc.bursts.append(lines)
    return sc


def me_ref(sc, user):
    for k, t in sc.topics.items():
        if t["kind"] == "me" and t["owner"] == user:
            return k
    return None


def gen_many_scn_c14d(rng, sid, n=None):
    c14 = _c14()
    sc = c14.Scn(sid)
    nu = rng.randint(2, 3)
    sc.users = list(range(1, nu + 1))
    n = n or rng.randint(66, 78)
    for k in range(1, n + 1):
        sc.topics[k] = dict(kind="grp", owner=1, members=list(sc.users))
    for u in sc.users:
        sc.topics[1000 + u] = dict(kind="me", owner=u)
    sc.sessions[1] = dict(user=1)
    sc.sessions[2] = dict(user=2)          # the session whose writer stalls
    mode = rng.random()
    evict = mode >= 0.75       # the user's OTHER session unsubscribes from every topic: evictUser detaches the stalled one
    third = evict or rng.random() < 0.6
    if third:
        sc.sessions[3] = dict(user=2 if evict else rng.choice(sc.users[1:]))
    rid = [0]

    def nr():
        rid[0] += 1
        return "r%d" % rid[0]
    for x in sorted(sc.sessions):
        sc.bursts.append(["q %d %s sub %d" % (x, nr(), me_ref(sc, sc.sessions[x]["user"]))])
    ks = list(range(1, n + 1))
    sc.bursts.append(["q 2 %s sub %d" % (nr(), k) for k in ks])
    lines = ["q 1 %s sub %d" % (nr(), k) for k in ks if rng.random() < 0.3]
    if third:
        lines += ["q 3 %s sub %d" % (nr(), k) for k in ks if evict or rng.random() < 0.4]
    rng.shuffle(lines)
    if lines:
        sc.bursts.append(lines)
    if evict:
        # {leave unsub} (now and then {del topic}, which for a non-owner is the same unsubscription routed through the hub)
        # by session 3 on every topic: Topic.evictUser sends every OTHER session of the user a detach notice
        order = list(ks)
        rng.shuffle(order)
        sc.bursts.append(["i stall 2"] + [("q 3 %s leave %d 1" if rng.random() < 0.8 else "q 3 %s deltopic %d 0") % (nr(), k) for k in order])
    elif mode < 0.3:
        # the owner's account is deleted: Hub.stopTopicsForUser terminates all his topics at once
        sc.bursts.append(["i stall 2", "q 1 %s deluser" % nr()])
    elif mode < 0.6:
        # all topics deleted at once by the owner
        order = list(ks)
        rng.shuffle(order)
        sc.bursts.append(["i stall 2"] + ["q 1 %s deltopic %d 0" % (nr(), k) for k in order])
    else:
        order = list(ks)
        rng.shuffle(order)
        m = rng.randint(20, 50)
        sc.bursts.append(["i stall 2"] + ["q 1 %s deltopic %d 0" % (nr(), k) for k in order[:m]])
        sc.bursts.append(["q 1 %s deluser" % nr()])
    # the write loop resumes; the session asks for some of the topics again
    probe = rng.sample(ks, 4)
    sc.bursts.append(["i unstall 2"])
    sc.bursts.append(["q 2 %s sub %d" % (nr(), k) for k in probe] + (["q 3 %s sub %d" % (nr(), probe[0])] if third else []))
    return sc


# ---------------------------------------------------------------- law
def monitor_faults_c14d(sc, r):
    """`topic-usable-after-failed-delete`: a {del what=topic} of the owner whose store.Topics.Delete call FAILED leaves the
    topic serving requests as before: (a) at the quiescence that ends the burst of the failed delete (the request is
    alone on that topic) the topic is loaded iff it was, still stored, neither paused nor marked deleted, with the same
    sessions and the same online counts; (b) afterwards, until a step that may terminate the instance is requested
    (successful {del topic}, idle unload, {del user}), the topic is never paused / marked deleted at quiescence, and no
    request on it is answered 503 in a burst that found it loaded with sessions attached."""
    c14 = _c14()
    res = []
    prev = None
    failed = {}
    for bi, b in enumerate(r["bursts"]):
        lines = sc.bursts[bi] if bi < len(sc.bursts) else []
        if not b.get("complete"):
            continue
        reqs = c14.requests_of(lines)
        ctrl = {}
        for w in b["frames"]:
            if w[0] == "f" and w[2] != "-":
                ctrl.setdefault((int(w[1]), w[2]), []).append(int(w[3]))
        faults = b.get("faults", {})
        new_failed = set()
        for q in reqs:
            if q["kind"] != "deltopic" or q.get("fault") != "TopicDelete":
                continue
            f = faults.get((q["si"], q["rid"]))
            if not f or not f[1]:
                continue      # the store call was never reached (topic already deleted, request refused earlier)
            k = q["k"]
            new_failed.add(k)
            others = [x for x in reqs if x is not q and (x["k"] == k or x["kind"] in ("deluser", "disc"))]
            unl = any(l.split()[:3] == ["i", "unload", str(k)] for l in lines)
            if prev is None or others or unl:
                continue
            before, now = prev["topics"].get(k), b["topics"].get(k)
            if before is None or now is None:
                continue
            what = None
            if before["loaded"]:
                if not now["loaded"]:
                    # (a topic without sessions has its 4 s idle timer running: the real timer may unload it on a slow machine)
                    if before["sessions"]:
                        what = "the topic was loaded with sessions attached and is not loaded any more"
                elif now.get("paused") == "1" or now.get("deleted") == "1":
                    what = "the topic stays %s" % ("paused" if now.get("paused") == "1" else "marked deleted")
                elif now["sessions"] != before["sessions"]:
                    what = "attached sessions changed from %s to %s" % (sorted(before["sessions"]), sorted(now["sessions"]))
                elif now["online"] != before["online"]:
                    what = "online counts changed from %s to %s" % (before["online"], now["online"])
            elif now["loaded"]:
                what = "the topic was not loaded and is loaded now"
            if what is None and before["stored"] and not now["stored"]:
                what = "the topic row is gone although the delete failed"
            if what:
                res.append(("topic-usable-after-failed-delete", bi, "topic %d after the FAILED {del topic} %s of session %d (store.Topics.Delete returned an error, reply %s): %s" % (
                    k, q["rid"], q["si"], ctrl.get((q["si"], q["rid"]), []), what)))
        for k in list(failed):
            if k in new_failed:
                continue
            if c14.exit_possible(sc, k, lines):
                del failed[k]      # a termination of this instance was requested: the obligation ends
                continue
            now = b["topics"].get(k)
            if now and now["loaded"] and (now.get("paused") == "1" or now.get("deleted") == "1"):
                res.append(("topic-usable-after-failed-delete", bi, "topic %d is %s at quiescence; its last {del topic} failed in burst %d and nothing has asked for its termination since" % (
                    k, "paused" if now.get("paused") == "1" else "marked deleted", failed[k] + 1)))
            before = prev["topics"].get(k) if prev else None
            if before and before["loaded"] and before["sessions"]:
                for q in reqs:
                    if q["k"] == k and q["kind"] in ("sub", "leave", "pub") and 503 in ctrl.get((q["si"], q["rid"]), []):
                        res.append(("topic-usable-after-failed-delete", bi, "request %s (%s topic %d) of session %d answered 503: the topic was loaded with sessions %s attached, its last {del topic} FAILED in burst %d and nothing has asked for its termination since" % (
                            q["rid"], q["kind"], k, q["si"], sorted(before["sessions"]), failed[k] + 1)))
        for k in new_failed:
            failed[k] = bi
        prev = b
    return res
