"""C13, push half: client-controlled message content (and the head fields that travel with it) inside
push receipts, through the code shared by the fcm and tnpg push adapters.

PROOF: coq/Pure/PushPreviewC13.v (the trimming of the plain-text preview to 128 runes in payloadToData, as a
function over lists of units - well-formed UTF-8 sequences / stray bytes - with the byte-length and the
rune-length tests as written and runes[:128] as an explicit Panic), theorems c13_push_preview_* of
coq/Props/PropC13.v.
TIE TO THE CODE: harness/ext/c13push.go builds a push.Receipt per generated spec and calls
fcm.PrepareV1Notifications(rcpt, nil) (= the tnpg adapter's call; payloadToData, clonePayload, the per-device /
per-channel construction) under recover, above a fake store.Devices; it also prints the units of
drafty.PlainText(content); the extracted model (harness/runner/r_c13p.ml) is run on those units and its content,
encoded as UTF-8, must equal data["content"] of every message byte for byte.
LAW on the implementation's outcomes: no-panic-push-payload (no call panics or hangs)."""
import json

from props import c13gen as G
from props import c13drafty as D

UID1, UID2, UID3 = 5, 6, 7
P2P_12 = "p2pAAAAAAAAAAUAAAAAAAAABg"       # p2p topic of users 5 and 6
TOPICS = ["grpAbCdEf", P2P_12, "chnAbCdEf", "sys", "usrAAAAAAAAAAU", "grp"]
CLASS_CH = {"ascii": ["a", " ", "<"], "2-byte": ["ж", "é", "α", " ", "́"], "3-byte": ["中", "€", "…", "�", "　"],
            "4-byte": ["\U0001F600", "\U00010348", "\U0010FFFF"]}
WIDTH = {"ascii": 1, "2-byte": 2, "3-byte": 3, "4-byte": 4}
PLATFORMS = ["android", "ios", "web", "", "junk"]


def spec_line(spec):
    return "P " + json.dumps(spec).encode().hex()


def lengths():
    ns = {0, 1, 2, 126, 127, 128, 129, 130, 200, 300, 513}
    for w in (1, 2, 3, 4):
        q = 128 // w
        ns |= {q - 1, q, q + 1, q + 2}
    return sorted(ns)


def base_spec(content=None, raw=None, **kw):
    s = {"what": "msg", "topic": "grpAbCdEf", "from": "usrAAAAAAAAAAU", "seq": 3, "channel": "chnAbCdEf"}
    if raw is not None:
        s["raw"] = raw.hex()
    else:
        s["content"] = content
    s.update(kw)
    return s


def one_user(**kw):
    d = {"uid": UID1, "delivered": 0, "unread": 1, "store": [["dev1", "android"], ["dev2", "ios"], ["dev3", "web"]]}
    d.update(kw)
    return d


def length_class_specs():
    """Every UTF-8 width class at rune counts around 0, 1, 127, 128, 129 runes AND around 128 bytes; as a plain
    string, as Drafty {"txt"}, with a style / a trailing line break, and towards a channel / one device / both."""
    out = []
    for cls, chars in CLASS_CH.items():
        for ch in chars[:2]:
            for n in lengths():
                s = ch * n
                out.append(("len:%s" % cls, base_spec(s)))
                out.append(("len:%s" % cls, base_spec({"txt": s}, channel="", to=[one_user()])))
        ch = chars[0]
        for n in lengths():
            s = ch * n
            out.append(("len:%s+fmt" % cls, base_spec({"txt": s, "fmt": [{"at": 0, "len": min(n, 3), "tp": "ST"}]}, mime="text/x-drafty", to=[one_user(delivered=1)])))
    # mixtures: k ASCII then multi-byte, total bytes / runes on both sides of 128
    for cls in ("2-byte", "3-byte", "4-byte"):
        w = WIDTH[cls]
        ch = CLASS_CH[cls][0]
        for k in (0, 1, 60, 100, 126, 127, 128):
            for m in sorted({0, 1, (128 - k) // w, (128 - k) // w + 1, max(0, 127 - k), max(0, 128 - k), max(0, 129 - k)}):
                out.append(("mix:%s" % cls, base_spec("x" * k + ch * m)))
                out.append(("mix:%s" % cls, base_spec({"txt": ch * m + "x" * k}, channel="", to=[one_user(store=[["d", "ios"]])])))
    return out


def invalid_utf8_specs():
    """Byte strings that are not UTF-8 (handed to the adapter as a Go string) and lone surrogates as JSON escapes."""
    out = []
    frags = [b"\xff", b"\xc3", b"\xe4\xb8", b"\xf0\x9f\x98", b"\xed\xa0\x80", b"\xc0\xaf", b"\xf8\x88\x80\x80\x80", b"\x80"]
    for f in frags:
        for n in (1, 2, 42, 43, 64, 65, 127, 128, 129, 130):
            out.append(("invalid-utf8", base_spec(raw=f * n)))
            out.append(("invalid-utf8", base_spec(raw=b"\xd0\xb6" * n + f)))
    for s in ("\ud83d", "\ud83d" * 65, "\ude00" * 129, "a\ud83d" * 64, "ж" * 64 + "\udfff"):
        out.append(("surrogate-escape", base_spec(s)))
        out.append(("surrogate-escape", base_spec({"txt": s})))
    return out


def field_specs(ctx):
    """The other fields of the payload and the recipients, with content from the C13 Drafty stream."""
    rng = ctx.rng
    contents = list(G.DRAFTY + G.ANY + D.TEXTS) + ["ж" * 80, "中" * 50, "\U0001F600" * 40, "x" * 129, "ж" * 129]
    out = []
    for c in contents:
        out.append(("drafty-stream", base_spec(c)))
    for _ in range(700 if ctx.tier == "quick" else 30000):
        c = G.pick(rng, contents)
        if rng.random() < 0.35:
            cls = G.pick(rng, list(CLASS_CH))
            c = "".join(G.pick(rng, CLASS_CH[G.pick(rng, [cls, cls, "ascii"])]) for _ in range(G.pick(rng, lengths())))
            if rng.random() < 0.4:
                c = {"txt": c, "fmt": [{"at": rng.randrange(0, 4), "len": rng.randrange(0, 4), "tp": G.pick(rng, ["ST", "EM", "BR", "CO"])}]}
        s = base_spec(c)
        s["what"] = G.pick(rng, ["msg", "msg", "msg", "msg", "sub", "read", "", "junk"])
        s["silent"] = rng.random() < 0.3
        s["topic"] = G.pick(rng, TOPICS)
        s["from"] = G.pick(rng, ["usrAAAAAAAAAAU", "", "junk"])
        s["seq"] = G.pick(rng, [0, 1, 3, 2 ** 31, -1, 2 ** 62])
        s["mime"] = G.pick(rng, ["", "", "text/x-drafty", "text/plain", "␡", "x" * 300])
        s["webrtc"] = G.pick(rng, ["", "", "", "started", "accepted", "finished", "junk", "ж" * 80])
        s["aonly"] = rng.random() < 0.3
        s["replace"] = G.pick(rng, ["", "", "", ":12", "junk", "ж" * 80])
        s["want"] = G.pick(rng, ["", "JRWPS", "N", "JRWPASDO"])
        s["channel"] = G.pick(rng, ["", "chnAbCdEf", "chnAbCdEf"])
        r = rng.random()
        if r < 0.15:
            s.pop("to", None)
        elif r < 0.25:
            s["to"] = []
        else:
            to = []
            for uid in [UID1, UID2, UID3][:rng.randrange(1, 4)]:
                store = [[G.pick(rng, ["dev1", "dev2", "dev3", "", "ж"]), G.pick(rng, PLATFORMS)] for _ in range(rng.randrange(0, 4))]
                to.append({"uid": uid, "delivered": G.pick(rng, [0, 0, 1, 2, -1]), "unread": G.pick(rng, [0, 1, 2 ** 31, -1]),
                           "devices": [G.pick(rng, ["dev1", "dev2", "nodev", ""]) for _ in range(rng.randrange(0, 3))], "store": store})
            s["to"] = to
        out.append(("fields", s))
    return out


def all_specs(ctx):
    return length_class_specs() + invalid_utf8_specs() + field_specs(ctx)


def parse(r):
    if not r.startswith("R "):
        return None
    return dict(kv.split("=", 1) for kv in r.split()[1:])


def encode_units(model):
    """The bytes of the model's content ("ok:<units>"): v<code point> as UTF-8, b<byte> as that byte."""
    body = model[3:]
    if body == "-":
        return b""
    return b"".join(bytes([int(x[1:])]) if x[0] == "b" else chr(int(x[1:])).encode("utf-8", "surrogatepass") for x in body.split(","))


def how(line):
    return "echo '%s' | build/ext c13push" % line[:6000]


def run(ctx, stats, have_model=True):
    ok, out = ctx.build_ext()
    if not ok:
        ctx.violation("corr", "harness-build-broken", "ext driver no longer builds: " + out[-1500:], {"correspondence": "build of harness/ext"})
        return
    specs = all_specs(ctx)
    lines = [spec_line(s) for _, s in specs]
    rc, res, err = ctx.run_ext("c13push", lines)
    if rc != 0 or len(res) != len(lines):
        ctx.violation("corr", "driver-crashed", "push ext driver failed rc=%s %s" % (rc, err[-1500:]), {"correspondence": "ext driver c13push"})
        return
    dist = {"by_generator": {}, "by_what": {}, "outcomes": {}, "text classes": {
        "<= 128 bytes": 0, "> 128 bytes and < 128 runes (only the rune test protects runes[:128])": 0, "> 128 bytes and exactly 128 runes": 0,
        "> 128 runes (trimmed)": 0, "with stray bytes / surrogate escapes": 0}, "messages_built": 0}
    panics = 0
    reported = set()
    todo = []
    for (gen, spec), line, r in zip(specs, lines, res):
        dist["by_generator"][gen] = dist["by_generator"].get(gen, 0) + 1
        dist["by_what"][spec.get("what", "")] = dist["by_what"].get(spec.get("what", ""), 0) + 1
        p = parse(r)
        shown = json.dumps({k: (v if len(json.dumps(v)) < 400 else json.dumps(v, ensure_ascii=False)[:400] + "...") for k, v in spec.items()}, ensure_ascii=False)[:900]
        if p is None or p["res"].startswith("PANIC") or p["plain"].startswith("PANIC"):
            panics += 1
            dist["outcomes"]["PANIC / HANG"] = dist["outcomes"].get("PANIC / HANG", 0) + 1
            msg = r
            if p is not None:
                x = p["res"] if p["res"].startswith("PANIC") else p["plain"]
                msg = bytes.fromhex(x.split(":", 1)[1]).decode("utf-8", "replace")
            key = msg[:40]
            if key in reported or len(reported) >= 3:
                continue          # one report per distinct panic message, at most three
            reported.add(key)
            ctx.violation("monitor", "no-panic-push-payload",
                          "the code shared by the fcm and tnpg push adapters (fcm.PrepareV1Notifications -> payloadToData) %s on a receipt with client-controlled "
                          "content; the adapters call it in a goroutine without recover: the server process dies. %s; receipt: %s"
                          % ("panics" if p is not None else "does not return / fails", msg[:300], shown),
                          {"case": line, "impl": r[:2000], "spec": spec, "how": how(line)})
            continue
        key = "what=%s plain=%s messages=%s" % (spec.get("what", "") if spec.get("what", "") in ("msg", "sub", "read") else "other", p["plain"].split(":")[0], "0" if p["n"] == "0" else "1+")
        dist["outcomes"][key] = dist["outcomes"].get(key, 0) + 1
        dist["messages_built"] += int(p["n"])
        todo.append((gen, spec, line, r, p, shown))
    stats["push"] = {"evaluations": len(lines), "panics": panics, "distribution": dist}
    if not have_model:
        return
    ok, out = ctx.build_runner()
    if not ok:
        ctx.violation("proof", "extraction-broken", "model extraction/runner build failed: " + out[-1500:], {"theorem_or_obligation": "extraction of the model"})
        return
    idx = [k for k, t in enumerate(todo) if t[1].get("what") == "msg" and t[4]["plain"].startswith("ok")]
    mlines = ["T 1 %s" % todo[k][4]["units"] for k in idx]
    rc, mres, err = ctx.run_model("c13p", mlines)
    if rc != 0 or len(mres) != len(mlines) or any(m.startswith(("EXC", "?")) for m in mres):
        ctx.violation("proof", "runner-crashed", "push preview model runner failed: rc=%s %s %s" % (rc, err[-800:], [m for m in mres if m.startswith(("EXC", "?"))][:3]),
                      {"theorem_or_obligation": "model runner c13p"})
        return
    compared = 0
    mism = []
    tc = dist["text classes"]
    for k, m in zip(idx, mres):
        gen, spec, line, r, p, shown = todo[k]
        units = [] if p["units"] == "-" else p["units"].split(",")
        nbytes = len(b"" if p["plain"] == "ok:-" else bytes.fromhex(p["plain"][3:]))
        if nbytes <= 128:
            tc["<= 128 bytes"] += 1
        elif len(units) < 128:
            tc["> 128 bytes and < 128 runes (only the rune test protects runes[:128])"] += 1
        elif len(units) == 128:
            tc["> 128 bytes and exactly 128 runes"] += 1
        else:
            tc["> 128 runes (trimmed)"] += 1
        tc["with stray bytes / surrogate escapes"] += 1 if any(u[0] == "b" for u in units) or "v65533" in units else 0
        if not m.startswith("ok:"):
            # contradicts c13_push_preview_no_panic: runner and theorem out of step
            mism.append((line, shown, "the extracted model reports %s" % m))
            continue
        if p["n"] == "0":
            continue          # no recipient device and no channel: nothing is built, nothing to compare
        compared += 1
        want = encode_units(m)
        if p["content"] == "DIFF":
            mism.append((line, shown, "the messages built for one receipt carry different contents"))
        elif p["content"] == "none":
            mism.append((line, shown, "what=msg but the message data has no content; model: %d bytes" % len(want)))
        else:
            got = b"" if p["content"] == "ok:-" else bytes.fromhex(p["content"][3:])
            if got != want:
                mism.append((line, shown, "data[\"content\"]: implementation %d bytes / %d runes %s..., model %d bytes / %d runes %s..."
                             % (len(got), len(got.decode("utf-8", "replace")), got[:40].hex(), len(want), len(want.decode("utf-8", "replace")), want[:40].hex())))
    stats["push"].update({"model_compared": compared, "model_mismatches": len(mism),
                          "projection": "per receipt with what=msg whose content drafty.PlainText accepts and for which at least one message is built: "
                                        "data[\"content\"] of every message == the bytes of the extracted trim_c13 on the units of the plain text (exact)"})
    if mism:
        line, shown, what = mism[0]
        ctx.violation("corr", "push-preview-correspondence", "push preview model (coq/Pure/PushPreviewC13.v) and payloadToData disagree on %d of %d receipts, e.g. %s: %s"
                      % (len(mism), compared, shown, what),
                      {"correspondence": "fcm.PrepareV1Notifications data[content] vs extracted trim_c13", "case": line, "disagreement": what,
                       "more": [{"receipt": s[:300], "disagreement": w[:300]} for _, s, w in mism[1:10]], "how": how(line)})
