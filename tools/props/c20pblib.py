"""C20 part B (protobuf <-> JSON equivalence): translator glue and check.

  regen()      build the package-main test binary with the overlay, run the reflection prober
               (harness/overlay/server/zz_verif_c20pb_test.go, TestVerifPbTable) against the tree
               under test, write coq/Gen/GenPb.v (cli_table, srv_table, enum tables), evaluate
               table_ok / bad_rows in a separate coqc call and write coq/Gen/ObC20pb.v with the
               obligations that hold (so the build stays green; failures are reported per leaf).
  run_part_b() the per-leaf verdicts as violations (probe message = replay), then seeded random
               messages through the real converters compared leaf by leaf with the extracted
               table-driven model, and the monitors.
Usable stand-alone: python3 tools/props/c20pblib.py regen   (called by tools/pregen.d/c20pb.sh)."""
import hashlib
import json
import os
import re
import subprocess
import sys

sys.path.insert(0, os.path.dirname(os.path.dirname(os.path.abspath(__file__))))
import vlib

ROOT, COQ, BUILD = vlib.ROOT, vlib.COQ, vlib.BUILD
GEN = os.path.join(COQ, "Gen")
PROBE_SRC = os.path.join(ROOT, "harness", "overlay", "server", "zz_verif_c20pb_test.go")
KIND = {"s": "KStr", "i": "KInt", "b": "KBool", "y": "KBytes", "t": "KTime", "j": "KJson", "jm": "KJson", "p": "KPresent"}
FATE = {"same": "Same", "int32": "Transformed XInt32", "ms": "Transformed XMs", "enum": "Transformed XEnum",
        "other": "Transformed XOther", "dropped": "Dropped", "panic": "Panics", "noschema": "NoSchema"}
GOOD = ("same", "int32", "ms", "enum")

PB_TRUSTED = [
    "translator by reflection probing (harness/overlay/server/zz_verif_c20pb_test.go): enumerates the leaves of ClientComMessage / ServerComMessage (json tags) and of pbx.ClientMsg / pbx.ServerMsg (protobuf descriptors), sets one leaf at a time, runs the real pbCliSerialize / pbCliDeserialize / pbServSerialize / pbServDeserialize and encoding/json, and classifies where the leaf lands; its flattening (zero value = absent, canonical JSON text of blobs via encoding/json) and classification are trusted; it fails closed on a Go or protobuf type it does not know",
    "tools/props/c20pblib.py: rendering of the probe facts as coq/Gen/GenPb.v, line protocol to the extracted model (harness/runner/r_c20pb.ml)",
    "wire codecs are not exercised: google.golang.org/protobuf and grpc marshalling of pbx structs, encoding/json are trusted; the comparison is on the pbx Go structs and on the Go message structs",
    "pbCliSerialize is taken as the server's own statement of which protobuf request is 'the same' as a JSON request; where it loses a leaf, the protobuf leaf that pbCliDeserialize maps onto the same Go field (found by the direct protobuf walk) is used instead",
]


def write_if_changed(path, text):
    if os.path.exists(path) and open(path).read() == text:
        return False
    os.makedirs(os.path.dirname(path), exist_ok=True)
    open(path, "w").write(text)
    return True


def cstr(s):
    return '"' + s.replace('"', '""') + '"'


def enum_name(side, path):
    return "enum_%s_%s" % (side, re.sub(r"[^A-Za-z0-9]", "_", path))


def run_probe(out, mode="table", seed=1, n=0, timeout=900):
    if os.path.exists(out):
        os.remove(out)
    env = dict(vlib.GOENV, VERIF_OUT=out, VERIF_MODE=mode, VERIF_SEED=str(seed), VERIF_N=str(n))
    p = subprocess.run([os.path.join(BUILD, "maindrv.test"), "-test.run", "^TestVerifPbTable$", "-test.count=1"],
                       stdout=subprocess.PIPE, stderr=subprocess.STDOUT, text=True, timeout=timeout, env=env,
                       cwd=os.path.join(vlib.REPO, "server"))
    return p.returncode == 0 and os.path.exists(out), p.stdout


def row_kind(side, r):
    if r["kind"] == "e":
        return "KEnum " + enum_name(side, r["sp"])
    return KIND[r["kind"]]


def row_fate(r):
    if r["fate"] == "moved":
        return "Moved " + cstr(r.get("moved", ""))
    return FATE[r["fate"]]


def gen_pb_v(facts):
    v = ["(* GENERATED on every run by tools/props/c20pblib.py from the reflection probe of the tree under test",
         "   (harness/overlay/server/zz_verif_c20pb_test.go).  One row per leaf of ClientComMessage /",
         "   ServerComMessage: schema path, kind, fate under the converters of server/pbconverter.go. *)",
         "From Coq Require Import List String ZArith.", "From Tinode Require Import Sys.PbTable.",
         "Import ListNotations.", "Local Open Scope string_scope.", ""]
    for side in ("cli", "srv"):
        for e in facts[side + "_enums"]:
            ser = "; ".join("(%s, %s%%Z)" % (cstr(s), n) for s, n in e["ser"])
            de = "; ".join("(%s%%Z, %s)" % (n, cstr(s)) for n, s in e["deser"])
            v.append("(* %s at %s *)" % (e["name"], e["paths"][0]))
            v.append("Definition %s : enum_tab :=\n  {| e_ser := [%s];\n     e_deser := [%s];\n     e_zero := %s |}."
                     % (enum_name(side, e["paths"][0]), ser, de, cstr(e["zero"])))
    v.append("")
    v.append("Definition cli_table : table := [")
    rows = facts["cli_rows"]
    for i, r in enumerate(rows):
        v.append("  (%s, %s, %s)%s   (* protobuf: %s%s *)" % (cstr(r["sp"]), row_kind("cli", r), row_fate(r),
                 ";" if i + 1 < len(rows) else "", r.get("pb_path") or "-", ("; " + r["note"]) if r.get("note") else ""))
    v.append("].")
    v.append("")
    v.append("Definition srv_table : stable := [")
    rows = facts["srv_rows"]
    for i, r in enumerate(rows):
        v.append("  (%s, %s, %s, %s)%s" % (cstr(r["sp"]), row_kind("srv", r), cstr(r.get("pb_path") or ""), row_fate(r),
                 ";" if i + 1 < len(rows) else ""))
    v.append("].")
    v.append("")
    v.append("Definition cli_enums : list enum_tab := [%s]." % "; ".join(enum_name("cli", e["paths"][0]) for e in facts["cli_enums"]))
    v.append("Definition srv_enums : list enum_tab := [%s]." % "; ".join(enum_name("srv", e["paths"][0]) for e in facts["srv_enums"]))
    return "\n".join(v) + "\n"


def coqc(f, out=None):
    cmd = "timeout 600 coqc -Q . Tinode %s%s" % (("-o %s " % out) if out else "", f)
    return vlib.sh(cmd, cwd=COQ)


def stale(vo, *srcs):
    return not os.path.exists(vo) or any(os.path.getmtime(vo) < os.path.getmtime(s) for s in srcs)


def query(work):
    """table_ok and the failing rows, evaluated by the kernel's VM in a separate coqc call."""
    pt, ptvo = os.path.join(COQ, "Sys", "PbTable.v"), os.path.join(COQ, "Sys", "PbTable.vo")
    if stale(ptvo, pt):
        rc, o = coqc("Sys/PbTable.v")
        if rc != 0:
            return None, "coqc Sys/PbTable.v: " + o[-1500:]
    g, gvo = os.path.join(GEN, "GenPb.v"), os.path.join(GEN, "GenPb.vo")
    if stale(gvo, g, ptvo):
        rc, o = coqc("Gen/GenPb.v")
        if rc != 0:
            return None, "coqc Gen/GenPb.v: " + o[-1500:]
    q = ["From Coq Require Import List String.", "From Tinode Require Import Sys.PbTable Gen.GenPb.", "Import ListNotations.",
         'Eval vm_compute in ("CLI"%string, table_ok cli_table, map fst (bad_rows cli_table)).',
         'Eval vm_compute in ("SRV"%string, table_ok_srv srv_table, map fst (bad_srows srv_table)).',
         'Eval vm_compute in ("SRVWIRE"%string, swire_ok srv_table, @nil string).',
         'Eval vm_compute in ("ENUMS"%string, forallb enum_ok (cli_enums ++ srv_enums), @nil string).']
    qf = os.path.join(work, "QueryC20pb.v")
    open(qf, "w").write("\n".join(q) + "\n")
    rc, o = coqc(qf, os.path.join(work, "QueryC20pb.vo"))
    if rc != 0:
        return None, "query failed: " + o[-1500:]
    res = {}
    for blk in re.split(r"\n\s*= ", "\n" + o)[1:]:
        strs = re.findall(r'"((?:[^"]|"")*)"', blk.split("\n     :")[0])
        m = re.search(r"\b(true|false)\b", blk)
        if strs and m:
            res[strs[0]] = {"ok": m.group(1) == "true", "bad": strs[1:]}
    if set(res) != {"CLI", "SRV", "SRVWIRE", "ENUMS"}:
        return None, "query output not understood: " + o[-1500:]
    return res, o


def gen_ob_v(facts, verdict):
    v = ["(* GENERATED on every run by tools/props/c20pblib.py: the per-run obligations of C20 part B that hold",
         "   for the tables probed from the tree under test (the failing rows are reported by the check, per leaf). *)",
         "From Coq Require Import List String ZArith.",
         "From Tinode Require Import Sys.PbTable Sys.PbTableProofs Gen.GenPb.",
         "Import ListNotations.", "Local Open Scope string_scope.", ""]
    n = 0
    lst = lambda xs: "[" + "; ".join(cstr(x) for x in xs) + "]"
    if verdict["ENUMS"]["ok"]:
        v += ["Lemma ob_enums_ok : forallb enum_ok (cli_enums ++ srv_enums) = true.\nProof. vm_compute. reflexivity. Qed.", ""]
        n += 1
    if verdict["CLI"]["ok"]:
        v += ["Lemma ob_cli_table_ok : table_ok cli_table = true.\nProof. vm_compute. reflexivity. Qed.",
              "Lemma ob_cli_request_equiv : forall m, wf_msg cli_table m = true ->",
              "  norm_msg cli_table (deser cli_table (ser cli_table m)) = norm_msg cli_table m.",
              "Proof. exact (request_equiv cli_table ob_cli_table_ok). Qed.",
              "Lemma ob_cli_no_panic : forall m, panics cli_table m = false.",
              "Proof. exact (table_ok_no_panic cli_table ob_cli_table_ok). Qed.", ""]
        n += 3
    else:
        bad = set(verdict["CLI"]["bad"])
        good = [r["sp"] for r in facts["cli_rows"] if r["sp"] not in bad]
        v += ["Lemma ob_cli_bad_rows : map fst (bad_rows cli_table) = %s.\nProof. vm_compute. reflexivity. Qed." % lst(verdict["CLI"]["bad"]),
              "Definition cli_good_leaves : list spath := %s." % lst(good),
              "Lemma ob_cli_good_leaves : forallb (leaf_ok cli_table) cli_good_leaves = true.\nProof. vm_compute. reflexivity. Qed.",
              "(* each good leaf keeps its meaning whatever the other rows are *)",
              "Lemma ob_cli_request_leaf : forall sp, In sp cli_good_leaves -> forall ix v,",
              "  wf_leaf_t cli_table ((sp, ix), v) = true ->",
              "  norm_msg cli_table (rt_leaf cli_table ((sp, ix), v)) = norm_msg cli_table [((sp, ix), v)].",
              "Proof.",
              "  intros sp Hin ix v Hwf. apply request_leaf; [|exact Hwf].",
              "  pose proof ob_cli_good_leaves as H. rewrite forallb_forall in H. exact (H sp Hin).",
              "Qed.", ""]
        n += 3
    if verdict["SRV"]["ok"] and verdict["SRVWIRE"]["ok"]:
        v += ["Lemma ob_srv_table_ok : table_ok_srv srv_table = true.\nProof. vm_compute. reflexivity. Qed.",
              "Lemma ob_srv_read_back : forall m, wf_smsg srv_table m = true ->",
              "  deser_srv srv_table (ser_srv srv_table m) = norm_srv srv_table m.",
              "Proof. exact (reply_read_back srv_table ob_srv_table_ok). Qed.", ""]
        n += 2
    else:
        v += ["Lemma ob_srv_bad_rows : map fst (bad_srows srv_table) = %s.\nProof. vm_compute. reflexivity. Qed." % lst(verdict["SRV"]["bad"]), ""]
        n += 1
    return "\n".join(v) + "\n", n


def stamp_inputs():
    h = hashlib.sha256()
    files = [PROBE_SRC, os.path.join(COQ, "Sys", "PbTable.v"), os.path.abspath(__file__)]
    files += [os.path.join(vlib.REPO, "server", f) for f in ("pbconverter.go", "datamodel.go")]
    files += [os.path.join(vlib.REPO, "pbx", "model.pb.go")]
    for f in files:
        h.update(f.encode())
        h.update(open(f, "rb").read() if os.path.exists(f) else b"?")
    return h.hexdigest()


def regen(ctx=None, force=True):
    """Returns (facts, verdict, n_obligations, error)."""
    stamp = os.path.join(BUILD, "c20pb.stamp")
    work = os.path.join(BUILD, "run", "C20")
    os.makedirs(work, exist_ok=True)
    facts_p, verdict_p = os.path.join(work, "pbtable.json"), os.path.join(work, "pbverdict.json")
    key = stamp_inputs()
    if not force and os.path.exists(stamp) and open(stamp).read() == key and \
            all(os.path.exists(p) for p in (facts_p, verdict_p, os.path.join(GEN, "GenPb.v"), os.path.join(GEN, "ObC20pb.v"))):
        vd = json.load(open(verdict_p))
        return json.load(open(facts_p)), vd["verdict"], vd["n"], None
    if ctx is None:
        ctx = vlib.Ctx("C20", "quick", 1)
    ok, out = ctx.build_main()
    if not ok:
        return None, None, 0, "package-main test binary does not build with the prober: " + out[-1500:]
    ok, out = run_probe(facts_p)
    if not ok:
        return None, None, 0, "prober failed (fails closed on a type it does not know): " + out[-1500:]
    facts = json.load(open(facts_p))
    os.makedirs(GEN, exist_ok=True)
    write_if_changed(os.path.join(GEN, "GenPb.v"), gen_pb_v(facts))
    verdict, o = query(work)
    if verdict is None:
        # do not leave an obligation file that cannot compile
        if os.path.exists(os.path.join(GEN, "ObC20pb.v")):
            os.remove(os.path.join(GEN, "ObC20pb.v"))
        return facts, None, 0, o
    text, n = gen_ob_v(facts, verdict)
    write_if_changed(os.path.join(GEN, "ObC20pb.v"), text)
    json.dump({"verdict": verdict, "n": n}, open(verdict_p, "w"))
    open(stamp, "w").write(key)
    return facts, verdict, n, None


# ---------------------------------------------------------------- check

def tok(l):
    return "%s|%s|%s:%s" % (l["sp"], ",".join(l["ix"]) or "-", l["k"], l["v"])


def untok(line):
    res = {}
    for t in line.split()[1:]:
        sp, ix, kv = t.split("|")
        res[(sp, ix)] = kv
    return res


def ancestors(sp):
    res = []
    for i, c in enumerate(sp):
        if c == "." or (c in "[{" and i > 0):
            res.append(sp[:i])
        if c in "]}" and i + 1 < len(sp):
            res.append(sp[:i + 1])
    return [a for a in dict.fromkeys(res) if a and a != sp]


def outermost(sp, fate, bad):
    """the outermost failing ancestor of the same family (a dropped section explains its dropped fields)"""
    fam = lambda f: "panic" if f == "panic" else ("drop" if f in ("dropped", "noschema") else f)
    for a in sorted(ancestors(sp), key=len):
        if a in bad and fam(bad[a]) == fam(fate) and fam(fate) in ("panic", "drop"):
            return a
    return sp


def tables_for_runner(facts):
    lines = []
    for side in ("cli", "srv"):
        for e in facts[side + "_enums"]:
            hx = lambda s: s.encode().hex() or "-"
            ser = ",".join("%s:%s" % (hx(s), n) for s, n in e["ser"]) or "-"
            de = ",".join("%s:%s" % (n, hx(s)) for n, s in e["deser"]) or "-"
            lines.append("ENUM %s %s %s %s" % (enum_name(side, e["paths"][0]), hx(e["zero"]), ser, de))
    kd = lambda side, r: enum_name(side, r["sp"]) if r["kind"] == "e" else ("j" if r["kind"] == "jm" else r["kind"])
    ft = lambda r: ("moved:" + r.get("moved", "")) if r["fate"] == "moved" else r["fate"]
    lines.append("TAB cli " + " ".join("%s|%s|%s" % (r["sp"], kd("cli", r), ft(r)) for r in facts["cli_rows"]))
    lines.append("TAB srv " + " ".join("%s|%s|%s|%s" % (r["sp"], kd("srv", r), r.get("pb_path") or "-", ft(r)) for r in facts["srv_rows"]))
    lines.append("OK")
    return lines


def probe_replay(row):
    bad = [p for p in row["probes"] if p["fate"] == row["fate"]] or row["probes"]
    p = bad[0]
    return {"leaf": row["sp"], "kind": row["kind"], "fate": row["fate"], "probe_value": p["val"], "probe_message": p["msg"],
            "protobuf_message": p.get("wire"), "panic": p.get("panic"), "where": p.get("where"),
            "reference_leaves": [tok(l) for l in p["ref"]][:40], "resulting_leaves": [tok(l) for l in p["out"]][:40],
            "note": row.get("note")}


def run_part_b(ctx):
    cov = {}
    facts, verdict, nob, err = regen(ctx, force=True)
    if facts is None or verdict is None:
        ctx.violation("corr", "pb-translator-broken", "C20 part B translator: " + (err or "?"),
                      {"correspondence": "reflection prober / generated tables", "detail": err})
        return cov
    # ---- per-leaf verdicts of the probed tables (decided by coqc on the generated tables)
    nfail = 0
    known = {f["key"] for f in ctx.load_findings() if f["property"] == ctx.pid}
    side_ok = {}
    for side, tag, law in (("cli", "CLI", "pb-request-leaf-"), ("srv", "SRV", "pb-reply-leaf-")):
        side_ok[tag] = True
        rows = {r["sp"]: r for r in facts[side + "_rows"]}
        bad = {sp: rows[sp]["fate"] for sp in verdict[tag]["bad"] if sp in rows}
        for sp in verdict[tag]["bad"]:
            r = rows.get(sp)
            if r is None:
                ctx.violation("proof", "pb-table-mismatch", "row %s reported by coqc is not in the probe facts" % sp, {"theorem_or_obligation": "table_ok"})
                continue
            top = outermost(sp, r["fate"], bad)
            key = "pb-deserialize-panic" if r["fate"] == "panic" and side == "cli" else law + top
            rp = probe_replay(r)
            what = "%s leaf %s (%s): fate %s%s; probe message %s%s" % (
                "request" if side == "cli" else "reply", sp, r["kind"], r["fate"],
                (" in " + rp["where"]) if rp.get("where") else "", rp["probe_message"],
                (" panic: " + rp["panic"]) if rp.get("panic") else "")
            ctx.violation("monitor", key, what, rp)
            nfail += 1
            if key not in known:
                side_ok[tag] = False
        if not bad and not verdict[tag]["ok"]:
            side_ok[tag] = False
            ctx.violation("proof", "pb-table-ok-" + side, "table_ok fails on the generated %s table without a failing row" % side,
                          {"theorem_or_obligation": "table_ok %s_table" % side})
    if not verdict["SRVWIRE"]["ok"]:
        ctx.violation("proof", "pb-table-wire-paths", "two reply fields share a protobuf path in the generated table (swire_ok false)",
                      {"theorem_or_obligation": "swire_ok srv_table"})
    if not verdict["ENUMS"]["ok"] and not nfail:
        ctx.violation("proof", "pb-enum-tables", "an enum table is not bijective on its domain (enum_ok false)",
                      {"theorem_or_obligation": "forallb enum_ok"})
    # direct protobuf walk: a request with an empty optional section must not crash the deserializer
    for d in facts["cli_direct"]:
        if d.get("panic"):
            ctx.violation("monitor", "pb-deserialize-panic", "pbCliDeserialize panics on the protobuf request %s: %s" % (d["msg"], d["panic"]),
                          {"protobuf_message": d["msg"], "panic": d["panic"], "leaf": d["q"]})
            nfail += 1
    fates = {}
    for side in ("cli", "srv"):
        for r in facts[side + "_rows"]:
            fates[side + ":" + r["fate"]] = fates.get(side + ":" + r["fate"], 0) + 1
    cov.update({"pb_leaves_client": len(facts["cli_rows"]), "pb_leaves_server": len(facts["srv_rows"]), "pb_fates": fates,
                "pb_probe_messages": sum(len(r["probes"]) for s in ("cli", "srv") for r in facts[s + "_rows"]) + len(facts["cli_direct"]) + len(facts["srv_direct"]),
                "pb_failing_leaves": nfail,
                "pb_schema_leaves_without_go_field": {"client": facts["cli_orphans"], "server": facts["srv_orphans"]},
                "pb_serializer_only_notes": sorted({r["sp"] + ": " + p["rescued"] for r in facts["cli_rows"] for p in r["probes"] if p.get("rescued")}),
                "pb_noschema_reply_fields": [r["sp"] for r in facts["srv_rows"] if r["fate"] == "noschema"],
                "extra_obligations": nob + 4, # the table obligation of a side is discharged when table_ok holds, or when the generated lemma ob_<side>_bad_rows
                # (ObC20pb.v: the failing rows are EXACTLY the listed ones) holds and every listed row is a known finding
                "extra_discharged": nob + sum(1 for k in ("CLI", "SRV") if verdict[k]["ok"] or side_ok.get(k)) + sum(1 for k in ("SRVWIRE", "ENUMS") if verdict[k]["ok"])})
    # ---- random messages: real converters vs the extracted table-driven model
    ok, out = ctx.build_runner()
    if not ok:
        ctx.violation("proof", "extraction-broken", "model extraction/runner build failed: " + out[-1500:], {"theorem_or_obligation": "extraction"})
        return cov
    n = 1200 if ctx.tier == "quick" else 40000
    rp = os.path.join(ctx.work, "pbrand.jsonl")
    ok, out = run_probe(rp, mode="rand", seed=ctx.seed, n=n)
    if not ok:
        ctx.violation("corr", "driver-crashed", "random-message run of the prober failed: " + out[-1500:], {"correspondence": "driver run"})
        return cov
    recs = [json.loads(l) for l in open(rp) if l.strip()]
    head = tables_for_runner(facts)
    lines = list(head)
    plan = []
    for r in recs:
        if r.get("panic") or (r.get("where") and not r["out"]):
            plan.append((r, None))
            continue
        i = len(lines)
        if r["side"] == "cli":
            lines += ["NORM cli " + " ".join(tok(l) for l in r["ref"]), "NORM cli " + " ".join(tok(l) for l in r["out"]),
                      "NRT " + " ".join(tok(l) for l in r["in"]), "NORM cli " + " ".join(tok(l) for l in r["in"]),
                      "WF cli " + " ".join(tok(l) for l in r["in"])]
        else:
            lines += ["NORM srv " + " ".join(tok(l) for l in r["ref"]), "BACK " + " ".join(tok(l) for l in r["out"]),
                      "SER " + " ".join(tok(l) for l in r["in"]), "NORM srv " + " ".join(tok(l) for l in r["in"]),
                      "WF srv " + " ".join(tok(l) for l in r["in"])]
        plan.append((r, i))
    rc, ans, errtxt = ctx.run_model("c20pb", lines)
    if rc != 0 or len(ans) != len(lines) or any(a.startswith(("EXC", "ERR")) for a in ans):
        bad = [a for a in ans if a.startswith(("EXC", "ERR"))][:3]
        ctx.violation("proof", "runner-crashed", "model runner failed on part B: %s %s" % (errtxt[-500:], bad), {"theorem_or_obligation": "model runner"})
        return cov
    okline = ans[len(head) - 1].split()
    if okline[1:3] != ["1" if verdict["CLI"]["ok"] else "0", "1" if (verdict["SRV"]["ok"] and verdict["SRVWIRE"]["ok"]) else "0"]:
        ctx.violation("proof", "pb-table-mismatch", "extracted table_ok (%s) disagrees with coqc's verdict on Gen/GenPb.v" % okline,
                      {"theorem_or_obligation": "table_ok: runner vs coqc"})
    pbpaths = {r.get("pb_path") for r in facts["srv_rows"] if r.get("pb_path")}
    stats = {"cli": 0, "srv": 0, "panics": 0, "request_leaf_failures": 0, "reply_leaf_failures": 0, "corr_mismatch": 0,
             "json_lossy": 0, "leaves_compared": 0, "not_wf": 0}
    corr = []
    for r, i in plan:
        stats[r["side"]] += 1
        if i is None:
            if r.get("panic"):
                stats["panics"] += 1
                law = "pb-deserialize-panic" if r["where"] == "pbCliDeserialize" else "pb-serialize-panic"
                ctx.violation("monitor", law, "%s panics on %s: %s" % (r["where"], r["msg"], r["panic"]),
                              {"message": r["msg"], "protobuf_message": r.get("wire"), "panic": r["panic"], "seed": ctx.seed, "id": r["id"]})
            else:
                ctx.violation("monitor", "pb-request-lost", "%s: no protobuf message for %s" % (r["where"], r["msg"]), {"message": r["msg"]})
            continue
        if r["side"] == "cli":
            nref, nout, pred, nin, wf = untok(ans[i]), untok(ans[i + 1]), untok(ans[i + 2]), untok(ans[i + 3]), ans[i + 4]
            law, ctr = "pb-request-leaf-", "request_leaf_failures"
        else:
            nref, nout, wf = untok(ans[i]), untok(ans[i + 1]), ans[i + 4]
            pred = {k: v for k, v in untok(ans[i + 2]).items()}
            nin = untok(ans[i + 3])
            law, ctr = "pb-reply-leaf-", "reply_leaf_failures"
        if wf != "1":
            stats["not_wf"] += 1
        if nin != nref:
            stats["json_lossy"] += 1
        stats["leaves_compared"] += len(nref)
        diff = {k: (nref.get(k), nout.get(k)) for k in set(nref) | set(nout) if nref.get(k) != nout.get(k)}
        if diff:
            dsp = {k[0]: "dropped" for k in diff}
            seen = set()
            for (sp, ix), (a, b) in sorted(diff.items()):
                top = outermost(sp, "dropped", dsp) if b is None else sp
                if top in seen:
                    continue
                seen.add(top)
                stats[ctr] += 1
                ctx.violation("monitor", law + top,
                              "%s leaf %s[%s]: JSON %s, protobuf %s, message %s" % ("request" if r["side"] == "cli" else "reply", sp, ix, a, b, r["msg"][:600]),
                              {"message": r["msg"], "protobuf_message": r.get("wire"), "leaf": sp, "index": ix, "json_value": a, "protobuf_value": b,
                               "seed": ctx.seed, "id": r["id"]})
        # correspondence: the table-driven model's prediction against the implementation
        if r["side"] == "cli":
            mm = {k: (pred.get(k), nout.get(k)) for k in set(pred) | set(nout) if pred.get(k) != nout.get(k)}
        else:
            impl = {(l["sp"], ",".join(l["ix"]) or "-"): "%s:%s" % (l["k"], l["v"]) for l in r["out"] if l["sp"] in pbpaths}
            mm = {k: (pred.get(k), impl.get(k)) for k in set(pred) | set(impl) if pred.get(k) != impl.get(k)}
        if mm:
            stats["corr_mismatch"] += 1
            corr.append((r, mm))
    if corr and not [v for v in ctx.violations if v["kind"] == "monitor"]:
        r, mm = corr[0]
        k = sorted(mm)[0]
        ctx.violation("corr", "correspondence-pb-" + r["side"],
                      "table-driven model and implementation disagree on %d of %d random messages, e.g. leaf %s: model %s, implementation %s, message %s"
                      % (len(corr), len(recs), k, mm[k][0], mm[k][1], r["msg"][:400]),
                      {"correspondence": "pb leaf tables", "message": r["msg"], "leaf": k, "model": mm[k][0], "impl": mm[k][1]})
    cov["pb_random"] = stats
    cov["pb_random_rule"] = ("seeded reflection-based generator over ClientComMessage (hi acc login sub leave pub get set del note, +extra) and "
                             "ServerComMessage (ctrl data meta pres info): field densities 0.15/0.5/0.85/1.0, lists of 1-3, random JSON blobs, "
                             "boundary ints, 1 in 5 messages with ints beyond int32 and sub-millisecond times; enum fields take spellings of the probed domain")
    return cov


if __name__ == "__main__":
    if len(sys.argv) > 1 and sys.argv[1] == "regen":
        facts, verdict, n, err = regen(None, force="--force" in sys.argv)
        if err:
            print("c20pb pregen: " + err[:600])
        else:
            print("c20pb pregen: tables regenerated (client ok=%s, server ok=%s)" % (verdict["CLI"]["ok"], verdict["SRV"]["ok"]))
