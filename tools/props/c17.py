"""C17 cluster placement agreement (ring) and election.
Ring: theorems in coq/Props/PropC17.v about coq/Pure/Ring.v; correspondence
against the REAL server/ringhash package through harness/ext/c17.go.  The model
is evaluated with the hash values the implementation itself used (the driver
records every call the ring makes to its hash function), so model and
implementation are compared on the same hash function (crc32 IEEE, or the weak
crc32 % m that forces equal hashes)."""
import itertools
import json
import os
from collections import Counter

import vlib
from props import c17gate
from props import c17b
from props import c17e


def hx(s):
    return s.encode("latin1").hex() if s else "-"


def unhx(h):
    return "" if h == "-" else bytes.fromhex(h).decode("latin1")


def enc_list(l):
    return ",".join(hx(x) for x in l) if l else "."


def dec_list(s):
    return [] if s == "." else [unhx(x) for x in s.split(",")]


def mk_case(replicas, mod, groups, keys):
    adds = "_" if groups is None else ";".join(enc_list(g) for g in groups)
    return "G %d %d %s %s" % (replicas, mod, adds, enc_list(keys))


def parse_case(c):
    w = c.split()
    groups = None if w[3] == "_" else [dec_list(g) for g in w[3].split(";")]
    names = [] if groups is None else [n for g in groups for n in g]
    return int(w[1]), int(w[2]), groups, names, w[4]


def parse_answer(a):
    """-> (signature hex, [get results]) or None"""
    w = a.split()
    if len(w) < 3 or w[0] != "G":
        return None
    return w[1], dec_list(w[2])


NAME_POOL = ["a", "b", "c", "1a", "11", "a1", "1", "11a", "1b", "0", "00", "01", "10", "0a", "2", "12", "21a",
             "n1", "n2", "n3", "n10", "node1", "node2", "node10", "one", "two", "three", "x", "xy", "A", "", "a ", "\xff", "z\x00"]


def rand_name(rng):
    r = rng.random()
    if r < 0.55:
        return rng.choice(NAME_POOL)
    if r < 0.85:
        return "".join(rng.choice("01a") for _ in range(rng.randrange(1, 5)))
    return "".join(chr(rng.randrange(33, 127)) for _ in range(rng.randrange(1, 9)))


def rand_keys(rng, names, replicas, n):
    keys = []
    for _ in range(n):
        r = rng.random()
        if r < 0.5:
            keys.append(rng.choice(["usr", "grp", "chn", "p2p", "sys", ""]) + "".join(
                rng.choice("ABCDEFGHIJKLMNOPQRSTUVWXYZabcdefghijklmnopqrstuvwxyz0123456789-_") for _ in range(rng.randrange(0, 12))))
        elif r < 0.7 and names:
            # a lookup key that IS a replica key of the ring (equal hashes: the name comparison of Get decides)
            keys.append(str(rng.randrange(0, max(1, replicas) + 2)) + rng.choice(names))
        elif r < 0.8 and names:
            keys.append(rng.choice(names))
        else:
            keys.append("".join(chr(rng.randrange(0, 256)) for _ in range(rng.randrange(0, 6))))
    return list(dict.fromkeys(keys))


def split_groups(rng, names):
    if len(names) < 2 or rng.random() < 0.5:
        return [list(names)]
    cuts = sorted(rng.sample(range(0, len(names) + 1), rng.randrange(1, min(3, len(names)) + 1)))
    res, prev = [], 0
    for c in cuts + [len(names)]:
        res.append(list(names[prev:c]))
        prev = c
    return res


def gen_cases(ctx):
    rng = ctx.rng
    quick = ctx.tier == "quick"
    cases = []
    # fixed corner cases
    for reps in (-1, 0, 1, 2):
        cases.append(mk_case(reps, 0, None, ["k", ""]))
        cases.append(mk_case(reps, 0, [[]], ["k", ""]))
        cases.append(mk_case(reps, 0, [[""]], ["k", "", "0"]))
        cases.append(mk_case(reps, 1, [["a", "a", "b"]], ["k", "", "a", "b", "0a"]))
    # replica key "1"+"1a" = "11"+"a": replica 1 of node "1a" and replica 11 of node "a" hash alike
    for p in itertools.permutations(["1a", "a", "11a", "1"]):
        cases.append(mk_case(12, 0, [list(p)], ["11a", "111a", "k1", "k2", "a", "1a"]))
    nconf = 45 if quick else 900
    for ci in range(nconf):
        r = rng.random()
        nn = rng.randrange(1, 5) if r < 0.45 else rng.randrange(1, 13)
        names = [rand_name(rng) for _ in range(nn)]
        if rng.random() < 0.8:
            names = list(dict.fromkeys(names))       # mostly distinct names; sometimes a name is listed twice
        r = rng.random()
        if r < 0.08:
            replicas = rng.choice([0, -3, 1])
        elif r < 0.9:
            replicas = rng.randrange(1, 41)
        else:
            replicas = rng.choice([20, 40, 64, 101] if quick else [20, 40, 100, 120, 1001])
        if replicas > 100:
            names = names[:2]
        mod = 0 if rng.random() < 0.6 else rng.choice([1, 2, 3, 7, 16, 251, 65521])
        keys = rand_keys(rng, names, replicas, 24 if quick else 60)
        base = list(names)
        cases.append(mk_case(replicas, mod, [base], keys))
        # permutations: all of them for small sets
        if len(base) <= (4 if quick else 5):
            perms = list(itertools.permutations(base))
            if quick and len(perms) > 12:
                perms = rng.sample(perms, 12)
        else:
            perms = [rng.sample(base, len(base)) for _ in range(4 if quick else 8)]
        for p in perms:
            cases.append(mk_case(replicas, mod, split_groups(rng, list(p)), keys))
        # add one node (anywhere in the list, or by a second Add call)
        for _ in range(2):
            n = rand_name(rng)
            pos = rng.randrange(len(base) + 1)
            bigger = base[:pos] + [n] + base[pos:]
            cases.append(mk_case(replicas, mod, [bigger], keys))
            cases.append(mk_case(replicas, mod, [base, [n]], keys))
        # remove one node (all its listings)
        for m in rng.sample(sorted(set(base)), min(2, len(set(base)))):
            cases.append(mk_case(replicas, mod, [[x for x in base if x != m]], keys))
    return list(dict.fromkeys(cases))


def monitors(cases, table):
    """The property's laws evaluated on the IMPLEMENTATION's answers.
    -> list of (law, case, detail, involved cases)"""
    fails = []
    parsed = {}
    for c in cases:
        a = table.get(c)
        if a is None:
            continue
        if a.startswith("PANIC"):
            fails.append(("no-panic", c, "panic in ringhash", [c]))
            continue
        pa = parse_answer(a)
        if pa is None:
            continue
        parsed[c] = (parse_case(c), pa)
    # index by configuration and multiset of names
    by_set = {}
    by_sig = {}
    for c, ((reps, mod, groups, names, keys), (sig, gets)) in parsed.items():
        if groups is None:
            continue
        ms = tuple(sorted(names))
        by_set.setdefault((reps, mod, keys, ms), []).append(c)
        by_sig.setdefault((mod, keys, sig), []).append(c)
    # order independence: same names in any order / any split into Add calls
    for k, cs in by_set.items():
        first = parsed[cs[0]][1]
        for c in cs[1:]:
            if parsed[c][1] != first:
                what = "signature" if parsed[c][1][0] != first[0] else "owner of some key"
                fails.append(("order-independence", c, "same node names in another order give a different %s than %s" % (what, cs[0]), [cs[0], c]))
    for c, ((reps, mod, groups, names, keys), (sig, gets)) in parsed.items():
        if groups is None:
            continue
        kl = dec_list(keys)
        # every name maps to exactly one live node
        if names and reps > 0:
            for k, g in zip(kl, gets):
                if g not in names:
                    fails.append(("total", c, "key %r is owned by %r which is not a listed node" % (k, g), [c]))
                    break
        cnt = Counter(names)
        for n in cnt:
            # adding n: the ring without one listing of n
            less = list(names)
            less.remove(n)
            for o in by_set.get((reps, mod, keys, tuple(sorted(less))), [])[:1]:
                old = parsed[o][1][1]
                for k, a, b in zip(kl, old, gets):
                    if b != a and b != n:
                        fails.append(("minimal-add", c, "adding node %r moved key %r from %r to %r" % (n, k, a, b), [o, c]))
                        break
            # removing n: the ring without any listing of n
            rest = [x for x in names if x != n]
            for o in by_set.get((reps, mod, keys, tuple(sorted(rest))), [])[:1]:
                new = parsed[o][1][1]
                for k, a, b in zip(kl, gets, new):
                    if a != n and b != a:
                        fails.append(("minimal-remove", c, "removing node %r moved key %r from %r to %r" % (n, k, a, b), [c, o]))
                        break
    # rings that place some key differently must carry different signatures (the gate compares signatures)
    for k, cs in by_sig.items():
        first = parsed[cs[0]][1][1]
        for c in cs[1:]:
            if parsed[c][1][1] != first:
                fails.append(("signature-separates-placements", c,
                              "same signature as %s but a different owner for some key: the gate would let both serve it" % cs[0], [cs[0], c]))
    return fails


def neighbours(ctx, case):
    reps, mod, groups, names, keys = parse_case(case)
    res = []
    kl = dec_list(keys)
    if groups is None:
        return res
    for i in range(len(names)):
        res.append(mk_case(reps, mod, [names[:i] + names[i + 1:]], kl))
    for _ in range(6):
        res.append(mk_case(reps, mod, [ctx.rng.sample(names, len(names))], kl))
    for r in (reps - 1, reps + 1, 1):
        res.append(mk_case(r, mod, [names], kl))
    for m in (0, 1, 7):
        res.append(mk_case(reps, m, [names], kl))
    res.append(mk_case(reps, mod, [names], kl))
    return res


def run_impl(ctx, cases):
    rc, out, err = ctx.run_ext("c17", cases)
    return rc, out, err


def split_table(ans):
    """'G sig gets T table' -> ('G sig gets', table)"""
    i = ans.find(" T ")
    if i < 0:
        return ans, "."
    return ans[:i], ans[i + 3:]


def run_ring(ctx):
    ok, out = ctx.build_ext()
    if not ok:
        ctx.violation("corr", "harness-build-broken", "Go driver no longer builds against /repo: " + out[-1500:],
                      {"correspondence": "build of harness/ext against /repo"})
        return
    if ctx.replay:
        rp = json.load(open(ctx.replay))
        cases = []
        for r in [rp["replay"]] + rp.get("more_cases", []):
            if isinstance(r, dict):
                cases += [c for c in r.get("cases", []) + [r.get("case")] if c and c.startswith("G ")]
    else:
        cases = gen_cases(ctx)
    cases = list(dict.fromkeys(cases))
    if not cases:
        return
    rc, impl_raw, err = run_impl(ctx, cases)
    if rc != 0 or len(impl_raw) != len(cases):
        ctx.violation("corr", "driver-crashed", "implementation driver failed rc=%s: %s" % (rc, err[-1500:]),
                      {"correspondence": "driver run", "stderr": err[-3000:]})
        return
    impl, tables = zip(*[split_table(a) for a in impl_raw])
    rc, model, err = ctx.run_model("c17", ["%s T %s" % (c, t) for c, t in zip(cases, tables)])
    if rc != 0 or len(model) != len(cases):
        ctx.violation("proof", "runner-crashed", "model runner failed: " + err[-1500:], {"theorem_or_obligation": "model runner"})
        return
    table = dict(zip(cases, impl))
    fails = monitors(cases, table)
    for law, case, detail, inv in fails:
        ctx.violation("monitor", law, "law %s fails on the implementation: %s -> %s (%s)" % (law, case, table.get(case), detail),
                      {"case": case, "cases": inv, "impl": {c: table.get(c) for c in inv}, "law": law, "detail": detail})
    mism = [(c, i, m) for c, i, m in zip(cases, impl, model) if i != m]
    searched = 0
    if (mism or not ctx.proof_ok()) and not fails:
        pool = []
        for c, _, _ in mism[:100]:
            pool += neighbours(ctx, c)
        pool = list(dict.fromkeys(pool))[:5000]
        if pool:
            rc, impl2, _ = run_impl(ctx, pool)
            t2 = dict(zip(pool, [split_table(a)[0] for a in impl2]))
            t2.update(table)
            f2 = monitors(list(t2.keys()), t2)
            searched = len(pool)
            for law, case, detail, inv in f2:
                ctx.violation("monitor", law, "law %s fails on the implementation: %s -> %s (%s)" % (law, case, t2.get(case), detail),
                              {"case": case, "cases": inv, "impl": {c: t2.get(c) for c in inv}, "law": law, "detail": detail,
                               "found_by": "search near a correspondence mismatch"})
            fails = f2
    if mism and not fails:
        c, i, m = mism[0]
        ctx.violation("corr", "correspondence-ring",
                      "ring model and ringhash disagree on %d of %d cases, e.g. %s: impl=%s model=%s; no law failure found on %d neighbouring inputs"
                      % (len(mism), len(cases), c, i, m, searched),
                      {"correspondence": "projection ring (Signature, Get)", "case": c, "cases": [c], "impl": i, "model": m,
                       "more": [{"case": a, "impl": b, "model": d} for a, b, d in mism[1:10]]})
    # coverage
    nn, reps, mods, collide, nontriv = Counter(), Counter(), Counter(), 0, 0
    equal_hash_lookups = 0
    for c, t in zip(cases, tables):
        r, mod, groups, names, keys = parse_case(c)
        nn[len(names)] += 1
        reps["<=0" if r <= 0 else "1-10" if r <= 10 else "11-40" if r <= 40 else ">40"] += 1
        mods["crc32" if mod == 0 else "crc32%%%d" % mod] += 1
        if t != ".":
            ents = [e.split(":") for e in t.split(",")]
            kl = set(hx(k) for k in dec_list(keys))
            rep_h = [h for k, h in ents if k not in kl]
            if len(set(rep_h)) < len(rep_h):
                collide += 1
            rset = set(rep_h)
            equal_hash_lookups += sum(1 for k, h in ents if k in kl and h in rset)
        if names and r > 0:
            nontriv += 1
    ctx.coverage.update({
        "evaluations": len(cases), "distinct_nontrivial": nontriv,
        "rule": "ring: seeded random node-name lists of 1..12 names (pool biased to digit prefixes that collide with replica-index prefixes: '1'+'1a' = '11'+'a'; the empty name; a name listed twice), every permutation of lists of <=4 (quick) / <=5 (thorough) names and random shuffles of longer ones, random splits into several Add calls, replica counts 1..40 plus 0, negative and >40, one node added (anywhere / by a second Add) and one node removed, 24 (quick) / 60 (thorough) lookup keys per configuration incl. keys that are replica keys of the ring (equal hash), real crc32 and weak crc32 % m hashes; non-trivial = at least one node and replicas > 0",
        "samples": [{"case": c, "impl": table[c]} for c in (cases[:2] + ctx.rng.sample(cases, min(4, len(cases))))],
        "traces_validated_against_impl": len(cases), "correspondence_mismatches": len(mism),
        "monitor_failures": len(fails), "search_pool": searched,
        "input_distribution": {"nodes_per_ring": dict(sorted(nn.items())), "replicas": dict(reps), "hash": dict(mods),
                               "rings_with_equal_replica_hashes": collide, "lookups_hitting_a_replica_hash": equal_hash_lookups},
        "trusted_base": [
            "harness/ext/c17.go (calls ringhash.New/Add/Get/Signature of /repo; records the hash calls; also builds the same ring with the package's default hash and demands equal answers)",
            "tools/props/c17.py law monitors (python restatement of the ring theorems, evaluated on the implementation's answers)",
            "hash/crc32, hash/fnv, encoding/ascii85, sort.Sort, sort.Search of the Go standard library: the model has its own FNV-128a/ascii85 and binary search, compared byte for byte on every case; crc32 enters the model as the table of values the implementation used",
        ],
    })


# ---------------------------------------------------------------------------
# election: scripts run on real Cluster values (package-main overlay driver) and on the model

FLAP = "3 1 T0:-:- Q0,1,1 P0,1,1 T0:-:1 T0:2:12 H0 T0:2:12 H0 T0:-:1 T0:2:12 H0"
DIVERGE = ("3 1 T0:-:- Q0,1,1 P0,1,1 T0:1:1 T0:1:1 H0 H0 T0:1:1 H0 T1:-:- Q1,2,2 P1,2,2 "
           + " ".join(["T1:02:02 H0 H0"] * 4))


Mirror = c17b.Mirror
parse_obs = c17b.parse_obs


def gen_scripts(ctx):
    rng = ctx.rng
    quick = ctx.tier == "quick"
    scripts = [FLAP, DIVERGE]
    # undirected stream: any enabled event, plus client requests
    for _ in range(40 if quick else 600):
        n = rng.choice([3, 3, 4, 5])
        limit = rng.choice([1, 2, 3])
        m = Mirror(n, limit)
        evs = []
        for _ in range(rng.randrange(8, 40 if quick else 70)):
            ev = c17b.random_event(rng, m, n)
            m.apply(ev)
            evs.append(ev)
        scripts.append("%d %d %s" % (n, limit, " ".join(evs)))
    # directed: a follower that misses elections and checks; a leader that loses its peers (c17b.py)
    scripts += c17b.extra_scripts(ctx)
    return list(dict.fromkeys(scripts))


def election_monitors(scripts, table):
    fails = []
    for sc in scripts:
        a = table.get(sc)
        if a is None:
            continue
        obs = parse_obs(a)
        prev = None
        for k, o in enumerate(obs):
            if isinstance(o, str):
                if o.startswith("PANIC"):
                    fails.append(("el-health-panic", sc, "the run loop of a node died at event %d: %s" % (k, o)))
                else:
                    fails.append(("el-hang", sc, "a vote request was not answered at event %d" % k))
                break
            selfl = {}
            for i, (t, l, cls, part, act) in enumerate(o):
                if l == str(i):
                    if t in selfl:
                        fails.append(("el-safety", sc, "nodes %d and %d both consider themselves leader in term %d after event %d" % (selfl[t], i, t, k)))
                    selfl[t] = i
                if prev is not None and t < prev[i][0]:
                    fails.append(("el-term-monotone", sc, "term of node %d decreased at event %d" % (i, k)))
                # a node that answers 502 believes no more than half of the nodes active, and conversely
                if (2 * len(act) <= len(o)) != (part == "1"):
                    fails.append(("el-partitioned-iff", sc, "node %d: active %s of %d, partitioned=%s after event %d" % (i, act, len(o), part, k)))
            prev = o
        # the closing rounds of the fixed scenario: every node has accepted the leader's checks twice or more
        if sc == DIVERGE and obs and not isinstance(obs[-1], str):
            last = obs[-1]
            lead = [i for i, x in enumerate(last) if x[1] == str(i)]
            if lead:
                L = lead[0]
                for i, x in enumerate(last):
                    if x[0] == last[L][0] and x[1] == str(L) and x[2] != last[L][2]:
                        fails.append(("el-ring-diverges", sc,
                                      "node %d follows leader %d in term %d, has accepted 4 rounds of its health checks, and still has a different ring" % (i, L, x[0])))
    return fails + c17b.monitors(scripts, table)


def shrink_script(ctx, script, law, rounds=6):
    """-> (smaller script, implementation's answer, detail) on which [law] still fails on the implementation, or None"""
    w = script.split()
    head, evs = w[:2], w[2:]
    best = None
    for _ in range(rounds):
        cands = []
        for size in sorted(set([max(1, len(evs) // 2), max(1, len(evs) // 4), 3, 2, 1]), reverse=True):
            for j in range(0, len(evs), 1 if size <= 3 else size):
                c = evs[:j] + evs[j + size:]
                if c and len(c) < len(evs):
                    cands.append(" ".join(head + c))
        for j in range(1, len(evs)):
            cands.append(" ".join(head + evs[:j]))
        cands = list(dict.fromkeys(cands))[:400]
        if not cands:
            break
        rc, ans, _ = ctx.run_main_lines("c17", cands, timeout=600)
        if rc != 0 or len(ans) != len(cands):
            break
        t = dict(zip(cands, ans))
        hits = [(c, d) for l, c, d in election_monitors(cands, t) if l == law]
        if not hits:
            break
        c, d = min(hits, key=lambda x: len(x[0].split()))
        best = (c, t[c], d)
        evs = c.split()[2:]
    return best


def run_election(ctx):
    ok, out = ctx.build_main()
    if not ok:
        ctx.violation("corr", "harness-build-broken", "package-main driver no longer builds against /repo: " + out[-1500:],
                      {"correspondence": "build of harness/overlay against /repo"})
        return
    if ctx.replay:
        rp = json.load(open(ctx.replay))
        scripts = [r["case"] for r in [rp["replay"]] + rp.get("more_cases", [])
                   if isinstance(r, dict) and r.get("case") and not r["case"].startswith(("G ", "X ", "V "))]
    else:
        scripts = gen_scripts(ctx)
    if not scripts:
        return
    rc, impl, log = ctx.run_main_lines("c17", scripts, timeout=1500)
    if rc != 0 or len(impl) != len(scripts):
        ctx.violation("corr", "driver-crashed", "package-main driver failed rc=%s: %s" % (rc, log[-1500:]),
                      {"correspondence": "driver run", "stderr": log[-3000:]})
        return
    rc, model, err = ctx.run_model("c17", scripts)
    if rc != 0 or len(model) != len(scripts):
        ctx.violation("proof", "runner-crashed", "model runner failed: " + err[-1500:], {"theorem_or_obligation": "model runner"})
        return
    table = dict(zip(scripts, impl))
    fails = election_monitors(scripts, table)
    # the first failing script of every law is shrunk on the implementation (events removed while the same
    # law still fails on the real code's trace) and reported first
    known = set(f["key"] for f in ctx.load_findings() if f["property"] == ctx.pid)
    shrunk, seen_laws = [], set()
    for law, case, detail in fails:
        if law in seen_laws or law in known or ctx.replay:
            continue
        seen_laws.add(law)
        small = shrink_script(ctx, case, law)
        if small and small[0] != case:
            table[small[0]] = small[1]
            shrunk.append((law, small[0], small[2] + "; shrunk from: " + case))
    for law, case, detail in shrunk + fails:
        ctx.violation("monitor", law, "law %s fails on the implementation: %s (%s)" % (law, case, detail),
                      {"case": case, "impl": table.get(case), "law": law, "detail": detail})
    # a script on which the implementation died is reported by the monitor law el-health-panic (with the
    # script as failing input); it is not also a correspondence mismatch without a failing input
    # likewise a script on which a law of the property fails is reported with that law
    died = set(f[1] for f in fails if f[0] != "el-ring-diverges")
    mism = [(c, c17b.normalise(c, i), m) for c, i, m in zip(scripts, impl, model) if c17b.normalise(c, i) != m and c not in died]
    if mism:
        c, i, m = mism[0]
        k = next((j for j, (x, y) in enumerate(zip(i.split("|"), m.split("|"))) if x != y), -1)
        ctx.violation("corr", "correspondence-election",
                      "election model and the real Cluster code disagree on %d of %d scripts, first at event %d of: %s: impl=%s model=%s"
                      % (len(mism), len(scripts), k, c, i.split("|")[k] if 0 <= k < len(i.split("|")) else i[-200:],
                         m.split("|")[k] if 0 <= k < len(m.split("|")) else m[-200:]),
                      {"correspondence": "projection election (term, leader, ring class, partitioned, active nodes after every event)",
                       "case": c, "impl": i, "model": m})
    nev = sum(len(sc.split()) - 2 for sc in scripts)
    kinds = Counter(e[0] for sc in scripts for e in sc.split()[2:])
    leaders = sum(1 for sc in scripts for o in parse_obs(table[sc])[-1:] if not isinstance(o, str) and any(x[1] == str(i) for i, x in enumerate(o)))
    terms = Counter(max(x[0] for x in o) for sc in scripts for o in parse_obs(table[sc])[-1:] if not isinstance(o, str))
    ctx.coverage["election"] = {
        "scripts": len(scripts), "events": nev, "events_by_kind": dict(kinds),
        "scripts_ending_with_a_self_leader": leaders, "max_term_at_end": dict(sorted(terms.items())),
        "cluster_sizes": dict(Counter(sc.split()[0] for sc in scripts)),
        "correspondence_mismatches": len(mism), "monitor_failures": len(fails),
        "rule": "4 fixed scenarios (the fixed follower crash, the ring-divergence finding, the follower of a leader re-elected in a later term that gets the delayed request of the election it missed, the leader that loses both followers with every kind of client request before and after) + seeded random scripts for 3/4/5 real Cluster values: ticks (vote_after=1), vote requests/replies delivered in any order, lost, failed, health checks delivered in any order or dropped, per-peer delivery/outcome of every leader check, client requests dispatched by the real Session.dispatch on any node; + directed scripts (tools/props/c17b.py): a follower that hears nothing of 1-3 elections (same node re-elected with probability 0.55) nor of part of the checks and then gets everything in flight (checks of earlier/own/later terms from the leader it follows, another one, or none, with equal and different signatures and node lists, then the delayed vote requests), and a leader whose checks of some peers fail for node_fail_after-1 .. +2 heartbeats with requests of all ten kinds (and of no kind) after every heartbeat; generation aimed at enabled events by a python mirror of the model; no election-timer event (the real timer cannot be injected without a hook: see manifest note)",
    }
    ctx.coverage["election"].update(c17b.coverage(scripts, table))
    ctx.coverage["evaluations"] = ctx.coverage.get("evaluations", 0) + len(scripts)
    ctx.coverage["traces_validated_against_impl"] = ctx.coverage.get("traces_validated_against_impl", 0) + len(scripts)
    ctx.coverage.setdefault("trusted_base", []).append(
        "harness/overlay/server/zz_verif_c17_test.go: real Cluster.run/Health/Vote/electLeader/sendHealthChecks/rehash/isPartitioned; scripted rpc.ClientCodec under the real rpc.Client; the ticker case of run (3 lines) is replayed by the driver with vote_after=1")


def run(ctx):
    ctx.coq_props()
    vlib.proof_violation(ctx)
    ok, out = ctx.build_runner()
    if not ok:
        ctx.violation("proof", "extraction-broken", "model extraction/runner build failed: " + out[-1500:],
                      {"theorem_or_obligation": "extraction of the model"})
        ctx.finish()
    run_ring(ctx)
    run_election(ctx)
    c17gate.run_gate(ctx)
    c17e.run_vote(ctx)
    ctx.finish()
