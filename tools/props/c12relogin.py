"""C12, token RE-ISSUANCE on {login}: theorems c12_relogin_* of coq/Props/PropC12.v about
coq/Sys/Relogin.v (Session.login / Session.onLogin + the records of the three authenticators);
correspondence against the REAL Session.dispatchRaw -> login -> onLogin with real token / code /
basic authenticators (harness/overlay/server/zz_verif_c12x_test.go), two phases: the implementation
runs the generated scenarios (issue secrets with chosen lifetimes / features, chains of {login}
presenting tokens handed back by earlier logins, codes, passwords); the extracted model is then
evaluated on every login with the bytes actually presented and the clock bracket the driver
measured.  The property's laws are evaluated on the IMPLEMENTATION's replies."""
import hashlib
import hmac
import os
import struct
import subprocess
import vlib

SEC = 10 ** 9
KEYS = [bytes(range(1, 33)), bytes(range(101, 141)), bytes([0xAA] * 32)]

# fixture of zz_verif_c11_test.go (+ accounts 8, 9 of zz_verif_c12x_test.go)
STATE_OK = {"1", "2", "5", "6", "7", "8", "9"}      # 3 suspended, 4 soft-deleted, z does not exist
VALIDATED = {"2", "6", "9"}                         # have a validated credential of the required method
BASIC_LEVEL = {"1": 20, "2": 20, "3": 20, "4": 20, "5": 20, "6": 30, "7": 10, "8": 20, "9": 20}
BASIC_REFUSED = {"5", "z"}                          # 5: password record expired an hour ago
F_VALIDATED, F_NOLOGIN = 1, 2


def hx(b):
    return b.hex() if b else "-"


def unhx(h):
    return b"" if h in ("-", "") else bytes.fromhex(h)


def kvs(words):
    return dict(w.split("=", 1) for w in words if "=" in w)


def fields(tok):
    """signed fields of a token: uid, expires, level, serial, features"""
    if tok is None or len(tok) < 18:
        return None
    return struct.unpack("<QIHHH", tok[:18])


# ------------------------------------------------------------------ scenarios
class Scn:
    def __init__(self, sid, key, serial, expire_in, code_expire_in, vld):
        self.id, self.key, self.serial, self.expire_in, self.code_expire_in, self.vld = sid, key, serial, expire_in, code_expire_in, vld
        self.ops = []          # dicts: kind 'iss' | 'login', slot, kv

    def head(self):
        return "scn %s key=%s serial=%d expire_in=%d code_expire_in=%d vld=%d" % (
            self.id, hx(self.key), self.serial, self.expire_in, self.code_expire_in, self.vld)

    def lines(self):
        out = [self.head()]
        for op in self.ops:
            out.append("%s %s %s" % (op["kind"], op["slot"], " ".join("%s=%s" % kv for kv in op["kv"].items())))
        return out + ["end"]

    def iss(self, slot, who, lvl, feat, lt):
        self.ops.append({"kind": "iss", "slot": slot, "kv": {"who": who, "lvl": lvl, "feat": feat, "lt": lt}})

    def login(self, slot, **kv):
        self.ops.append({"kind": "login", "slot": slot, "kv": dict(kv)})

    def op(self, kind, slot, **kv):
        self.ops.append({"kind": kind, "slot": slot, "kv": dict(kv)})

    def sub(self, upto):
        """the scenario reduced to op number [upto] and the ops it descends from (root secret + chain)"""
        need, slots = {upto}, set()
        want = self.ops[upto]["kv"].get("src")
        for i in range(upto - 1, -1, -1):
            if want is not None and self.ops[i]["slot"] == want:
                need.add(i)
                slots.add(want)
                want = self.ops[i]["kv"].get("src")
        # earlier guesses at the same reset code (once / lock-out depend on them)
        for i in range(upto):
            o = self.ops[i]
            if o["kind"] == "login" and o["kv"].get("sch") == "code" and o["kv"].get("src") in slots:
                need.add(i)
        s = Scn(self.id, self.key, self.serial, self.expire_in, self.code_expire_in, self.vld)
        for i in sorted(need):
            op = {"kind": self.ops[i]["kind"], "slot": self.ops[i]["slot"], "kv": dict(self.ops[i]["kv"])}
            if op["kind"] == "login":
                op["kv"]["sess"] = "new"
            s.ops.append(op)
        return s

    @staticmethod
    def from_lines(lines):
        w = lines[0].split()
        kv = kvs(w[2:])
        s = Scn(w[1], unhx(kv["key"]), int(kv["serial"]), int(kv["expire_in"]), int(kv["code_expire_in"]), int(kv["vld"]))
        for l in lines[1:]:
            w = l.split()
            if w and w[0] in ("iss", "login", "reset", "acccred", "accnew"):
                s.ops.append({"kind": w[0], "slot": w[1], "kv": kvs(w[2:])})
        return s


def noise(rng):
    return rng.choice([0, 0, 1, 123456789, 999999999, rng.randrange(SEC)])


def lifetimes(rng, expire_in):
    """lifetimes (ns) of directly issued secrets: aimed at the configured expire_in from both sides;
    never within 30 s of 'now' (the wall clock cannot be set, so no answer may depend on it)"""
    return [0, 0, 30 * SEC, 60 * SEC, 3600 * SEC, 86400 * SEC, 100 * 86400 * SEC,
            max(30, expire_in // 2) * SEC, (expire_in - 1) * SEC if expire_in > 31 else 45 * SEC, (expire_in + 1) * SEC,
            2 * expire_in * SEC, rng.randrange(30, 40 * 86400) * SEC]


def gen_scenarios(ctx, quick, rng=None):
    rng = rng or ctx.rng
    scns = []
    n = 0

    def new(**over):
        nonlocal n
        n += 1
        cfg = dict(key=rng.choice(KEYS), serial=rng.choice([0, 5, 5, 65535, 40000]),
                   expire_in=rng.choice([60, 3600, 86400, 1209600, 1209600, 2592000]),
                   code_expire_in=rng.choice([30, 900, 900, 86400]), vld=rng.choice([0, 0, 1]))
        cfg.update(over)
        s = Scn("s%d" % n, cfg["key"], cfg["serial"], cfg["expire_in"], cfg["code_expire_in"], cfg["vld"])
        scns.append(s)
        return s

    whos = ["1", "2", "1", "2", "6", "7", "8", "9", "5", "3", "4", "z"]
    # (a) systematic: every feature combination x short / long lifetime, exchanged three times in a row on fresh
    #     sessions, under both validator settings; reset code and its chain; passwords
    for vld in (0, 1):
        for expire_in, code_expire_in in ((1209600, 900), (3600, 86400)):
            s = new(vld=vld, expire_in=expire_in, code_expire_in=code_expire_in)
            k = 0
            for who in ("1", "2"):
                for feat in (0, 1, 2, 3):
                    for lt in (3600 * SEC + noise(rng), 2 * expire_in * SEC, 0):
                        k += 1
                        s.iss("i%d" % k, who, 20, feat, lt)
                        prev = "i%d" % k
                        for j in range(3):
                            s.login("i%d_%d" % (k, j), sess="new", sch="token", src=prev)
                            prev = "i%d_%d" % (k, j)
            for who in ("1", "2", "6", "3"):
                k += 1
                s.login("c%d" % k, sess="new", sch="code", who=who, guess="ok")
                s.login("c%d_0" % k, sess="new", sch="token", src="c%d" % k)
                s.login("c%d_1" % k, sess="new", sch="token", src="c%d_0" % k)
                s.login("cb%d" % k, sess="new", sch="code", who=who, guess="bad")
            # the real reset flow ({login scheme=reset} -> authSecretReset -> code handed to the validator):
            # wrong guess, right guess, the same code again, the token it begot exchanged; three wrong guesses
            # and then the right one; a credential nobody owns
            for who in ("1", "2", "6", "3"):
                k += 1
                s.op("reset", "r%d" % k, who=who)
                s.login("r%d_a" % k, sess="new", sch="code", src="r%d" % k, guess="bad")
                s.login("r%d_b" % k, sess="new", sch="code", src="r%d" % k, guess="ok")
                s.login("r%d_c" % k, sess="new", sch="code", src="r%d" % k, guess="ok")
                s.login("r%d_d" % k, sess="new", sch="token", src="r%d_b" % k)
                s.login("r%d_e" % k, sess="new", sch="token", src="r%d_d" % k)
                s.op("reset", "q%d" % k, who=who)
                for j in range(3):
                    s.login("q%d_%d" % (k, j), sess="new", sch="code", src="q%d" % k, guess="bad")
                s.login("q%d_3" % k, sess="new", sch="code", src="q%d" % k, guess="ok")
            s.op("reset", "u%d" % k, who="1", known="0")
            s.login("u%d_0" % k, sess="new", sch="code", src="u%d" % k, guess="ok")
            # temporary tokens of credential-validation requests ({acc}), exchanged twice
            for who in ("1", "2"):
                k += 1
                s.op("acccred", "a%d" % k, who=who)
                s.login("a%d_0" % k, sess="new", sch="token", src="a%d" % k)
                s.login("a%d_1" % k, sess="new", sch="token", src="a%d_0" % k)
            k += 1
            s.op("accnew", "n%d" % k)
            s.login("n%d_0" % k, sess="new", sch="token", src="n%d" % k)
            for who in ("1", "2", "6", "7", "8", "9", "5", "3", "4"):
                k += 1
                s.login("b%d" % k, sess="new", sch="basic", who=who, pw="ok")
                s.login("b%d_0" % k, sess="new", sch="token", src="b%d" % k)
                s.login("bb%d" % k, sess="new", sch="basic", who=who, pw="bad")
    # (b) random histories
    for _ in range(60 if quick else 1500):
        s = new()
        slots = []
        resets = []
        nsess = 0
        for _ in range(rng.randrange(6, 16)):
            x = rng.random()
            slot = "t%d" % len(s.ops)
            sess = "new"
            if nsess and rng.random() < 0.2:
                sess = str(rng.randrange(nsess))
            y = rng.random()
            if y < 0.07:
                s.op("reset", slot, **({"who": rng.choice(whos)} if rng.random() < 0.85 else {"who": "1", "known": "0"}))
                resets.append(slot)
                nsess += 1
                continue
            if y < 0.2 and resets:
                s.login(slot, sess=sess, sch="code", src=rng.choice(resets[-2:]), guess=rng.choice(["ok", "bad", "bad"]))
                if sess == "new":
                    nsess += 1
                slots.append(slot)
                continue
            if y < 0.25:
                s.op("acccred", slot, who=rng.choice(["1", "2", "6", "8", "9"]))
                nsess += 1
                slots.append(slot)
                continue
            if x < 0.3 or not slots:
                lt = rng.choice(lifetimes(rng, s.expire_in))
                if lt:
                    lt += noise(rng)
                if rng.random() < 0.06:
                    lt = rng.choice([1, SEC // 2, -5 * SEC])                    # expired at once / refused by GenSecret
                s.iss(slot, rng.choice(whos), rng.choice([20, 20, 20, 0, 10, 30]),
                      rng.choice([0, 1, 2, 3, 2, 3, 6, 7, 65534, 65533, 4]), lt)
                slots.append(slot)
                continue
            if x < 0.75:
                # chains: mostly the newest tokens
                src = slots[-1] if rng.random() < 0.6 else rng.choice(slots)
                kv = dict(sess=sess, sch="token", src=src)
                if rng.random() < 0.12:
                    kv["mut"] = rng.choice(["flip:%d" % rng.randrange(64, 144), "flip:%d" % rng.randrange(0, 400),
                                            "trunc:%d" % rng.choice([0, 18, 49]), "raw:" + hx(bytes(rng.getrandbits(8) for _ in range(50)))])
                s.login(slot, **kv)
            elif x < 0.87:
                s.login(slot, sess=sess, sch="code", who=rng.choice(whos), guess=rng.choice(["ok", "ok", "ok", "bad"]))
            elif x < 0.97:
                s.login(slot, sess=sess, sch="basic", who=rng.choice(whos), pw=rng.choice(["ok", "ok", "bad"]))
            else:
                s.login(slot, sess=sess, sch="bogus")
            if sess == "new":
                nsess += 1
            slots.append(slot)
    return scns


# ------------------------------------------------------------------ running the implementation
def run_impl(ctx, scns, tag="relogin"):
    fin = os.path.join(ctx.work, tag + "_in.txt")
    fout = os.path.join(ctx.work, tag + "_out.txt")
    lines = []
    for s in scns:
        lines += s.lines()
    open(fin, "w").write("\n".join(lines) + "\n")
    if os.path.exists(fout):
        os.remove(fout)
    env = dict(vlib.GOENV, VERIF_IN=fin, VERIF_OUT=fout)
    try:
        p = subprocess.run([os.path.join(vlib.BUILD, "maindrv.test"), "-test.run", "^TestVerifC12x$", "-test.count=1"],
                           stdout=subprocess.PIPE, stderr=subprocess.STDOUT, timeout=3000, env=env,
                           cwd=os.path.join(vlib.REPO, "server"))
        rc, log = p.returncode, p.stdout.decode("utf-8", "replace")
    except subprocess.TimeoutExpired:
        rc, log = 124, "timeout"
    res, cur = {}, None
    if os.path.exists(fout):
        for l in open(fout, errors="replace").read().split("\n"):
            w = l.split()
            if not w:
                continue
            if w[0] == "scn":
                cur = []
                res[w[1]] = cur
            elif w[0] in ("iss", "r", "reset", "tmp") and cur is not None:
                cur.append((w[0], w[1], w[2] if w[0] == "iss" else None, kvs(w[2:]), l))
    return rc, res, log


class Ev:
    """one op of a scenario with the implementation's answer"""
    pass


MAX_RETRIES = 3      # max_retries of the scenario's code authenticator (driver)


def events(scn, rows):
    """join the ops of a scenario with the driver's rows; track which user / root every slot descends from and,
    for the codes of the reset flow, what Pure/Code.v says about them (used / failed guesses)"""
    evs = []
    who_of = {}
    resets = {}
    for i, (op, row) in enumerate(zip(scn.ops, rows)):
        e = Ev()
        e.i, e.op, e.kind, e.slot, e.kv, e.line = i, op, op["kind"], op["slot"], op["kv"], row[4]
        r = row[3]
        e.r = r
        e.broken = ("broken" in row[4].split()[2:3])
        e.t0, e.t1 = int(r.get("t0", 0)), int(r.get("t1", 0))
        e.tok = unhx(r.get("tok", "-")) or None
        e.exp = None if r.get("exp", "-") == "-" else int(r["exp"])
        e.panic = r.get("panic", "0")
        e.uid = int(r.get("uid", 0))
        if e.kind == "iss":
            e.who = op["kv"]["who"]
            e.ok = row[2] == "ok"
        elif e.kind in ("acccred", "accnew"):
            e.who = op["kv"].get("who", "new")
            e.code = int(r.get("code", 0))
        elif e.kind == "reset":
            e.who = op["kv"]["who"]
            e.code = int(r.get("code", 0))
            e.sent = r.get("sent") == "1"
            e.after = tuple(int(x) for x in r.get("after", "0,0").split(","))
            resets[e.slot] = {"who": e.who, "uid": e.uid, "sent": e.sent, "used": False, "fails": 0, "op": i}
        else:
            e.code = int(r.get("code", 0))
            e.before = tuple(int(x) for x in r["before"].split(","))
            e.after = tuple(int(x) for x in r["after"].split(","))
            e.ptok = unhx(r.get("ptok", "-"))
            e.sch = op["kv"].get("sch")
            e.accepted = e.code in (200, 300)
            e.reset = None
            if e.sch == "token":
                e.who = who_of.get(op["kv"].get("src"))
                e.parent = op["kv"].get("src")
                e.unaltered = "mut" not in op["kv"]
            elif e.sch == "code" and "src" in op["kv"]:
                st = resets.get(op["kv"]["src"])
                e.reset = dict(st) if st else {"who": None, "uid": 0, "sent": False, "used": False, "fails": 0, "op": -1}
                e.who, e.uid = e.reset["who"], e.reset["uid"]
                right = op["kv"].get("guess") == "ok"
                # Pure/Code.v: the row exists until the first success; a guess is compared only below max_retries
                e.code_ok = bool(st) and st["sent"] and not st["used"] and st["fails"] < MAX_RETRIES and right
                if st and st["sent"] and not st["used"] and e.before[0] == 0:     # an authenticated session is answered 409 before Authenticate
                    if e.code_ok:
                        st["used"] = True
                    elif st["fails"] < MAX_RETRIES and not right:
                        st["fails"] += 1
            else:
                e.who = op["kv"].get("who")
                if e.sch == "code":
                    e.code_ok = op["kv"].get("guess") == "ok"
        if e.tok is not None:
            who_of[e.slot] = e.who
        else:
            who_of.pop(e.slot, None)
        evs.append(e)
    return evs


# ------------------------------------------------------------------ the model's view of one login
def model_request(scn, e):
    key = scn.key
    aux = ""
    if e.sch == "token":
        sec = "tok:" + hx(e.ptok)
        if len(e.ptok) >= 18:
            aux = "mac=%s:%s:%s" % (hx(key), hx(e.ptok[:18]), hmac.new(key, e.ptok[:18], hashlib.sha256).hexdigest())
        who = e.who
        f = fields(e.ptok)
        lvl = f[2] if f else 0
    elif e.sch == "code":
        who = e.who
        sec = "code:%d" % e.uid if e.code_ok else "code:-"
        lvl = 0
    elif e.sch == "basic":
        who = e.who
        ok = e.kv.get("pw") == "ok" and who not in BASIC_REFUSED
        lvl = BASIC_LEVEL.get(who, 20)
        sec = "basic:%d:%d:%s" % (e.uid, lvl, e.r.get("bexp", "0")) if ok else "basic:-"
    else:
        who, lvl, sec = None, 0, "bogus"
    state_ok = 1 if (who in STATE_OK or who == "new") else 0
    unvalidated = 1 if (scn.vld and lvl in (20, 30) and who not in VALIDATED) else 0
    return "R %s %d %d %d %d %d %d %d %d %d %s | %s" % (hx(key), scn.serial, scn.expire_in, scn.code_expire_in, state_ok, unvalidated,
                                                       e.before[0], e.before[1], e.t0, e.t1, sec, aux)


def impl_projection(e):
    code = {200: "200", 300: "300", 409: "409"}.get(e.code, "4xx" if e.code >= 400 else str(e.code))
    head = "%s %d,%d" % (code, e.after[0], e.after[1])
    f = fields(e.tok)
    if f is None:
        return head + " -", None
    return head + " %d %d %d" % (f[0], f[2], f[4]), (f[1], e.exp)


def agrees(e, model):
    """projection compared: reply class, session (uid, level) afterwards, signed user / level / features of the token
    handed back, its expiry second and the 'expires' of the reply within the model's bracket"""
    w = model.split()
    if e.kind in ("acccred", "accnew"):
        T = fields(e.tok)
        return len(w) == 5 and [T[0], T[2], T[4]] == [int(x) for x in w[:3]] and int(w[3]) <= T[1] <= int(w[4])
    head, exp = impl_projection(e)
    if w and w[0] == "AMBIG":
        return True       # the answer depends on where inside [t0, t1] the clock was read: not comparable
    if exp is None:
        return model == head
    if len(w) < 9 or " ".join(w[:5]) != head:
        return False
    elo, ehi, xlo, xhi = int(w[5]), int(w[6]), int(w[7]), int(w[8])
    return elo <= exp[0] <= ehi and (exp[1] is None or xlo <= exp[1] <= xhi)


# ------------------------------------------------------------------ laws, on the implementation's replies
def slack_s(e):
    """seconds by which the time spent inside the login itself can move an expiry (0 unless the login stalled)"""
    return (e.t1 - e.t0 + 500000) // SEC


def monitors(scn, evs):
    fails = []
    by_slot = {}

    def fail(law, e, detail):
        fails.append((law, scn, e.i, detail))
    for e in evs:
        if e.kind == "iss":
            if e.tok is not None:
                by_slot[e.slot] = e
            continue
        if e.broken:
            continue
        if e.panic != "0":
            fail("relogin-no-panic", e, "%s panicked / hung: %s" % (e.kind, e.panic))
            continue
        if e.kind == "reset":
            if e.after != (0, 0):
                fail("reset-never-authenticates", e, "session became %s after {login scheme=reset}" % (e.after,))
            continue
        if e.kind in ("acccred", "accnew"):
            # the temporary token handed to the credential validator
            if e.tok is None:
                continue
            T = fields(e.tok)
            if len(e.tok) != 50 or hmac.new(scn.key, e.tok[:18], hashlib.sha256).digest() != e.tok[18:50] or T[3] != scn.serial % 65536:
                fail("relogin-token-signed", e, "the temporary token is not data || HMAC-SHA256(key, data) with the configured serial")
            if T[0] != e.uid:
                fail("tmp-token-owner", e, "temporary token for uid %d, account %d" % (T[0], e.uid))
            if T[1] > (e.t1 + 86400 * SEC + 500000) // SEC:
                fail("tmp-token-24h", e, "temporary token expires %d s after its issue" % (T[1] - e.t1 // SEC))
            if e.kind == "acccred" and T[4] & F_NOLOGIN == 0:
                fail("tmp-token-restricted", e, "temporary token of a credential update has features %d: usable for a full login" % T[4])
            by_slot[e.slot] = e
            continue
        R = fields(e.tok)
        if e.kind == "login" and e.sch == "code" and e.reset is not None and e.accepted:
            st = e.reset
            if not st["sent"]:
                fail("reset-code-never-sent", e, "a code was accepted for a credential nobody owns")
            elif st["used"]:
                fail("reset-code-once", e, "second successful use of the reset code of op %d" % st["op"])
            elif st["fails"] >= MAX_RETRIES:
                fail("reset-code-lockout", e, "success after %d failed attempts (max_retries %d)" % (st["fails"], MAX_RETRIES))
        if not e.accepted:
            # refused: nothing is handed back, the session is as before
            if e.tok is not None:
                fail("relogin-refused-no-token", e, "reply %d carries a token" % e.code)
            if e.after != e.before:
                fail("relogin-refused-never-authenticates", e, "reply %d but the session changed from %s to %s" % (e.code, e.before, e.after))
            by_slot.pop(e.slot, None)
            continue
        # ---- accepted (200 / 300) ----
        if e.sch == "basic" and e.kv.get("pw") == "bad":
            fail("relogin-wrong-password-never", e, "a wrong password was answered with %d" % e.code)
        if e.sch == "code" and e.kv.get("guess") == "bad":
            fail("relogin-wrong-code-never", e, "a wrong reset code was answered with %d" % e.code)
        if e.sch == "bogus":
            fail("relogin-unknown-scheme-never", e, "an unknown scheme was answered with %d" % e.code)
        P = None
        if e.sch == "token":
            P = fields(e.ptok)
            good = (len(e.ptok) >= 50 and hmac.new(scn.key, e.ptok[:18], hashlib.sha256).digest() == e.ptok[18:50])
            if not good:
                fail("relogin-forged-token-refused", e, "a token whose bytes 18..50 are not HMAC-SHA256(key, bytes 0..18) was answered with %d" % e.code)
                continue
            if P[3] != scn.serial % 65536 or not (0 <= scn.serial < 65536):
                fail("relogin-wrong-serial-refused", e, "signed serial %d, configured %d" % (P[3], scn.serial))
            if P[1] * SEC < e.t0:
                fail("relogin-expired-token-refused", e, "token expired at second %d, presented at %d ns" % (P[1], e.t0))
            if P[2] > 30:
                fail("relogin-level-range", e, "level %d accepted" % P[2])
        if e.tok is None:
            # GenSecret cannot fail on these paths (positive lifetimes): an accepted login hands back a token
            fail("relogin-token-handed-back", e, "reply %d without a token" % e.code)
            by_slot.pop(e.slot, None)
            continue
        # the token handed back is one this server issues: 50 bytes, signed with the key, current serial
        if len(e.tok) != 50 or hmac.new(scn.key, e.tok[:18], hashlib.sha256).digest() != e.tok[18:50] or R[3] != scn.serial % 65536:
            fail("relogin-token-signed", e, "the token handed back is not data || HMAC-SHA256(key, data) with the configured serial")
        if e.exp is not None and (e.exp // SEC) % (1 << 32) != R[1]:
            fail("relogin-reply-expires-is-token-expiry", e, "params.expires %d ns, token expiry second %d" % (e.exp, R[1]))
        restricted = (P[4] & F_NOLOGIN) != 0 if P else (e.sch == "code")
        if restricted:
            # (ii) a restricted secret never authenticates the session and begets restricted tokens only
            if e.after != e.before:
                fail("relogin-restricted-never-authenticates", e, "session became %s after presenting a no-login secret" % (e.after,))
            if R[4] & F_NOLOGIN == 0:
                fail("relogin-restricted-stays-restricted", e, "features %d of the token handed back lack the no-login bit" % R[4])
            if P is not None:
                if (R[0], R[2]) != (P[0], P[2]):
                    fail("relogin-restricted-same-identity", e, "presented (uid %d, level %d), handed back (uid %d, level %d)" % (P[0], P[2], R[0], R[2]))
                # (i) never outlives the secret presented
                if R[1] > P[1] + slack_s(e):
                    fail("relogin-restricted-never-outlives", e,
                         "no-login token expiring at second %d exchanged for one expiring at %d (%d s later)" % (P[1], R[1], R[1] - P[1]))
            else:
                if R[0] != e.uid:
                    fail("relogin-code-yields-owner", e, "code made for uid %d, token for uid %d" % (e.uid, R[0]))
                # bounded by one code lifetime from the login
                if R[1] > (e.t1 + scn.code_expire_in * SEC + 500000) // SEC:
                    fail("relogin-code-token-bounded", e, "token for a reset code (expire_in %d s) expires %d s after the login" %
                         (scn.code_expire_in, R[1] - e.t1 // SEC))
        elif e.code == 200:
            # full login: the session is exactly the user / level of the secret, so is the token
            want = (P[0], P[2]) if P else (e.uid, BASIC_LEVEL.get(e.who, 20))
            if e.before == (0, 0) and e.after != want:
                fail("relogin-yields-issued-identity", e, "secret of (uid %d, level %d) authenticated the session as %s" % (want[0], want[1], e.after))
            if (R[0], R[2]) != e.after:
                fail("relogin-token-for-session-identity", e, "session %s, token for (uid %d, level %d)" % (e.after, R[0], R[2]))
            if P is not None and R[4] & ~F_VALIDATED != P[4] & ~F_VALIDATED:
                fail("relogin-features-kept", e, "features %d became %d" % (P[4], R[4]))
            # (iii) re-issued with the configured lifetime, never a longer one
            L = scn.expire_in * SEC
            if R[1] > (e.t1 + L + 500000) // SEC:
                fail("relogin-full-never-outlives-configured", e, "token of a full login expires %d s after the login, expire_in is %d s" %
                     (R[1] - e.t1 // SEC, scn.expire_in))
        else:
            # 300: credentials left to validate; the session must not be authenticated
            if e.after != e.before:
                fail("relogin-unvalidated-never-authenticates", e, "reply 300 but the session became %s" % (e.after,))
            if R[4] != (P[4] if P is not None else 0):
                fail("relogin-unvalidated-features-kept", e, "reply 300: features %d of the secret became %d in the token handed back" %
                     (P[4] if P is not None else 0, R[4]))
            if P is not None and R[1] > P[1] + slack_s(e):
                fail("relogin-unvalidated-never-outlives", e, "token expiring at second %d exchanged (reply 300) for one expiring at %d" % (P[1], R[1]))
        by_slot[e.slot] = e
    # chains: every token that descends from a restricted root through token logins is bounded by the root
    root = {}
    for e in evs:
        if e.tok is None:
            continue
        f = fields(e.tok)
        if e.kind != "login" or e.sch != "token":
            root[e.slot] = (e, 0)
        elif e.accepted and e.parent in root:
            r0, sl = root[e.parent]
            r0f = fields(r0.tok)
            if r0f[4] & F_NOLOGIN:
                sl += slack_s(e)
                root[e.slot] = (r0, sl)
                if f[1] > r0f[1] + sl:
                    fail("relogin-chain-never-outlives-root", e, "descends from the no-login secret of op %d (expiry second %d), expires at %d" % (r0.i, r0f[1], f[1]))
                if f[4] & F_NOLOGIN == 0:
                    fail("relogin-chain-stays-restricted", e, "descends from the no-login secret of op %d but has features %d" % (r0.i, f[4]))
            else:
                root[e.slot] = (e, 0)
        else:
            root.pop(e.slot, None)
    return fails


# ------------------------------------------------------------------ search near a disagreement
def neighbour_scenarios(ctx, scn, n0):
    """histories around a login on which model and implementation disagree: the same configuration, every feature
    combination x lifetimes on both sides of expire_in, exchanged twice; codes; both validator settings"""
    out = []
    k = 0
    for vld in (0, 1):
        k += 1
        s = Scn("n%d_%d" % (n0, k), scn.key, scn.serial, scn.expire_in, scn.code_expire_in, vld)
        j = 0
        for who in ("1", "2"):
            for feat in (0, 1, 2, 3):
                for lt in (60 * SEC, max(30, scn.expire_in // 3) * SEC, 3 * scn.expire_in * SEC, 0):
                    j += 1
                    s.iss("i%d" % j, who, 20, feat, lt)
                    s.login("i%d_0" % j, sess="new", sch="token", src="i%d" % j)
                    s.login("i%d_1" % j, sess="new", sch="token", src="i%d_0" % j)
            s.login("c%s" % who, sess="new", sch="code", who=who, guess="ok")
            s.login("c%s_0" % who, sess="new", sch="token", src="c%s" % who)
            s.login("b%s" % who, sess="new", sch="basic", who=who, pw="ok")
        out.append(s)
    return out


def evaluate(ctx, scns, tag="relogin"):
    """-> (per scenario events, law failures, disagreements, error)"""
    rc, res, log = run_impl(ctx, scns, tag)
    if rc != 0 or any(s.id not in res or len(res[s.id]) != len(s.ops) for s in scns):
        return None, None, None, "package-main driver TestVerifC12x rc=%s: %s" % (rc, log[-1500:])
    all_evs, fails, reqs, req_of = {}, [], [], []
    for s in scns:
        evs = events(s, res[s.id])
        all_evs[s.id] = evs
        fails += monitors(s, evs)
        for e in evs:
            if e.kind == "login" and not e.broken:
                reqs.append(model_request(s, e))
                req_of.append((s, e))
            elif e.kind in ("acccred", "accnew") and not e.broken and e.tok is not None:
                reqs.append("G %s %d %d %s %d %d %d" % (hx(s.key), s.serial, s.expire_in, "create" if e.kind == "accnew" else "update",
                                                       e.uid, e.t0, e.t1))
                req_of.append((s, e))
    rc, model, err = ctx.run_model("c12x", reqs)
    if rc != 0 or len(model) != len(reqs):
        return None, None, None, "model runner c12x failed: " + err[-1500:]
    mism = []
    for (s, e), rq, m in zip(req_of, reqs, model):
        e.model = m.strip()
        if not agrees(e, e.model):
            mism.append((s, e, rq))
    return all_evs, fails, mism, None


def replay_of(ctx, scn, i, law, detail, evs, confirm=True):
    """replay = the scenario reduced to the failing login and its ancestors, if that still fails the law"""
    sub = scn.sub(i)
    lines = scn.lines()
    if confirm:
        try:
            _, f2, _, err = evaluate(ctx, [sub], tag="relogin_shrink")
            if err is None and any(l == law for l, _, _, _ in f2):
                lines = sub.lines()
        except Exception:
            pass
    return {"scenario": lines, "law": law, "detail": detail, "failing_op": scn.ops[i], "impl": evs[i].line[:600],
            "driver": "TestVerifC12x (harness/overlay/server/zz_verif_c12x_test.go)"}


def run(ctx, scns=None):
    """runs the part; records violations in ctx; returns a coverage dict"""
    quick = ctx.tier == "quick"
    if scns is None:
        scns = gen_scenarios(ctx, quick)
    all_evs, fails, mism, err = evaluate(ctx, scns)
    if err:
        ctx.violation("corr", "relogin-driver-crashed", err, {"correspondence": "driver run (token re-issuance)", "stderr": err})
        return {"relogin": "driver failed"}
    seen = set()
    for law, s, i, detail in fails:
        if law in seen:
            continue
        seen.add(law)
        n = len([1 for l, _, _, _ in fails if l == law])
        ctx.violation("monitor", law, "law %s fails on the implementation (%d logins), e.g. scenario %s op %d %s: %s" %
                      (law, n, s.id, i, " ".join("%s=%s" % kv for kv in s.ops[i]["kv"].items()), detail),
                      replay_of(ctx, s, i, law, detail, all_evs[s.id]))
    flagged = set((s.id, i) for _, s, i, _ in fails)
    open_mism = [(s, e, rq) for s, e, rq in mism if (s.id, e.i) not in flagged]
    searched, found = 0, []
    if open_mism or not ctx.proof_ok():
        pool = []
        for k, (s, e, rq) in enumerate(open_mism[:3]):
            pool += neighbour_scenarios(ctx, s, k)
        if not pool:
            pool = neighbour_scenarios(ctx, scns[0], 0)
        evs2, f2, _, err2 = evaluate(ctx, pool, tag="relogin_search")
        if err2 is None:
            searched = sum(len(s.ops) for s in pool)
            for law, s, i, detail in f2:
                if law in seen:
                    continue
                seen.add(law)
                found.append(law)
                rep = replay_of(ctx, s, i, law, detail, evs2[s.id])
                rep["found_by"] = "search near a correspondence mismatch"
                ctx.violation("monitor", law, "law %s fails on the implementation, scenario %s op %d: %s" % (law, s.id, i, detail), rep)
    if open_mism and not found:
        s, e, rq = open_mism[0]
        ctx.violation("corr", "correspondence-relogin",
                      "model (Sys/Relogin.v) and implementation disagree on %d of %d logins, e.g. scenario %s op %d: impl=%s model=%s; "
                      "no law failure found on %d neighbouring operations" %
                      (len(open_mism), sum(len(v) for v in all_evs.values()), s.id, e.i,
                       impl_projection(e) if e.kind == "login" else fields(e.tok), e.model, searched),
                      {"correspondence": "projection reply class / session / token fields / expiry of {login}",
                       "scenario": s.sub(e.i).lines(), "impl": e.line[:600], "model": e.model, "model_request": rq[:600],
                       "more": [{"scenario": s2.sub(e2.i).lines(), "impl": e2.line[:400], "model": e2.model} for s2, e2, _ in open_mism[1:6]]})
    # coverage
    logins = [e for evs in all_evs.values() for e in evs if e.kind == "login"]
    dist = {}
    chains = 0
    restricted_ex = 0
    for e in logins:
        P = fields(e.ptok) if e.sch == "token" else None
        k = "%s:%s:%s" % (e.sch, e.code, "nologin" if (P and P[4] & 2) or (e.sch == "code") else "full")
        dist[k] = dist.get(k, 0) + 1
        if e.accepted and P and P[4] & 2:
            restricted_ex += 1
    for s in scns:
        depth = {}
        for op in s.ops:
            if op["kind"] == "login" and op["kv"].get("sch") == "token":
                depth[op["slot"]] = depth.get(op["kv"].get("src"), 0) + 1
        chains = max([chains] + list(depth.values()))
    kinds = {}
    for evs in all_evs.values():
        for e in evs:
            kinds[e.kind] = kinds.get(e.kind, 0) + 1
    return {"scenarios": len(scns), "logins": len(logins), "ops_by_kind": kinds, "issued_directly": sum(1 for evs in all_evs.values() for e in evs if e.kind == "iss"),
            "restricted_exchanges_accepted": restricted_ex, "longest_chain": chains, "by_scheme_code_kind": dist,
            "correspondence_mismatches": len(open_mism), "monitor_failures": len(fails) + len(found), "search_ops": searched,
            "samples": [e.line[:260] for e in logins[:2]]}
