"""C13, the two concurrency-shaped parts (structured driver TestVerifC13x, harness/overlay/server/zz_verif_c13x_test.go):

  part 1  SLOW CONSUMERS and the request slot Session.inflightReqs - model coq/Sys/Inflight.v (theorems
          c13_inflight_*, c13_evict_without_init_test_*).  Scenarios over a small population (sessions a1 a2 of user 1,
          b1 b2 of user 2, c1 r1 of user 3; group G, p2p topic P, a p2p topic Q that does not exist yet, a missing
          topic X, new topics N): sub / leave / unsub / pub / kp / clog / unclog / disc.  After every operation the
          driver prints, at quiescence, len(inflightReqs.sem) (nil after cleanUp), Session.subs and Topic.sessions;
          the extracted model prints the same lines.  Which stuck connection a presence broadcast selects is a label
          parameter of the model (universally quantified in the theorems): it is taken from the implementation's trace
          (only the evictions of connections that are stuck AND attached are accepted by the model).
  part 2  LOAD OF A TOPIC HELD OPEN with requests queued for it - model coq/Sys/HeldLoad.v (theorems c13_held_load_*).
          The memverif call hook parks topicInit at its first adapter call; other sessions send requests addressed
          to that topic; the load is released to succeed or to fail.  Laws on the implementation's frames: every
          {ctrl}/{meta} a session receives carries the id of one of ITS OWN requests (or no id), every request other
          than a note is answered, a {pub}/{leave}/{del}/{sub} is not answered twice; the extracted model predicts who
          is answered with which id and code.
"""
import json
import os
import re
import subprocess

import vlib

SESS = ["a1", "a2", "b1", "b2", "c1", "r1"]
USER = {"a1": 1, "a2": 1, "b1": 2, "b2": 2, "c1": 3, "r1": 3}
NOTE_KINDS = ("kp", "read", "recv", "ring", "hangup")
ONCE_KINDS = ("pub", "leave", "unsub", "deltopic", "delmsg", "sub")


def hx(s):
    return s.encode().hex() or "-"


def unhx(h):
    return "" if h == "-" else bytes.fromhex(h).decode("utf-8", "replace")


# ---------------- scenario generation ----------------

def gen_slow(rng, n_ops):
    """part 1: a random history, biased towards attached + stuck connections meeting traffic"""
    ops = []
    clogged = set()
    gone = set()
    for _ in range(n_ops):
        live = [s for s in SESS if s not in gone]
        if not live:
            break
        r = rng.random()
        s = rng.choice(live)
        if r < 0.22:
            t = rng.choice(["G", "G", "G", "P", "Q", "X", "N"])
            if t == "Q" and USER[s] == 2:
                t = "G"
            ops.append("sub:%s:%s" % (s, t))
        elif r < 0.32:
            t = rng.choice(["G", "G", "P", "Q"])
            if t == "Q" and USER[s] == 2:
                t = "P"
            ops.append("leave:%s:%s" % (s, t))
        elif r < 0.36:
            s2 = rng.choice([x for x in live if USER[x] != 1] or [s])
            if USER[s2] != 1:
                ops.append("unsub:%s:G" % s2)
        elif r < 0.62:
            t = rng.choice(["G", "G", "G", "P", "Q"])
            if t == "Q" and USER[s] == 2:
                t = "G"
            ops.append("pub:%s:%s" % (s, t))
        elif r < 0.72:
            t = rng.choice(["G", "G", "P"])
            ops.append("kp:%s:%s" % (s, t))
        elif r < 0.86:
            ops.append("clog:%s" % s)
            clogged.add(s)
        elif r < 0.95:
            if clogged:
                s = rng.choice(sorted(clogged))
                clogged.discard(s)
                ops.append("unclog:%s" % s)
        else:
            ops.append("disc:%s" % s)
            gone.add(s)
            clogged.discard(s)
    return ops


def fixed_slow():
    return [
        # the seeded shape: attached, stuck, a broadcast
        ["clog:b1", "pub:a1:G", "pub:a1:G", "unclog:b1", "sub:b1:G", "pub:a1:G"],
        ["clog:a1", "pub:b1:P", "kp:b1:G", "sub:a1:P", "unclog:a1", "sub:a1:P", "leave:a1:G"],
        # the stuck connection has its own {leave} / {sub} in the same window
        ["clog:b1", "leave:b1:G", "sub:b1:G", "pub:a1:G", "leave:b1:P", "pub:a1:P", "sub:b1:P", "unclog:b1", "sub:b1:G"],
        # disconnect of a stuck connection; of the last reader
        ["sub:a2:G", "sub:b2:G", "clog:a2", "clog:b2", "pub:a1:G", "disc:a2", "disc:b2", "pub:b1:G", "disc:a1", "pub:b1:G", "disc:b1"],
        # unsubscribe evicts every connection of the user, the stuck one included (detach waits for the write loop)
        ["sub:b2:G", "clog:b2", "unsub:b1:G", "sub:b1:G", "unclog:b2", "sub:b2:G", "pub:b1:G"],
        # failing loads and refused subscriptions release the slot too
        ["sub:c1:X", "sub:c1:P", "sub:c1:X", "sub:c1:G", "sub:c1:G", "leave:c1:G", "leave:c1:G", "sub:a2:N", "sub:a2:N", "sub:r1:Q", "sub:a2:Q",
         "clog:r1", "pub:a2:Q", "unclog:r1", "sub:r1:Q"],
    ]


HELD_KINDS = ["pub", "pubnoid", "recv", "read", "kp", "ring", "hangup", "getdesc", "getsub", "getdata", "setpriv", "settags", "delmsg", "deltopic",
              "leave", "unsub", "sub", "subget"]


def gen_held(rng, k):
    """part 2: one scenario = [lines]; returns (lines, meta)"""
    target = rng.choice(["S", "S", "S", "G", "G", "P", "P", "Q", "X", "M", "F", "N"])
    pre = []
    if target == "S":
        joiner = "r1"
        pre = ["unload S r1"]
        senders = [s for s in SESS]
    elif target == "G":
        joiner = rng.choice(SESS)
        pre = ["op leave a1 G", "op leave b1 G", "unload G a1"]
        senders = list(SESS)
    elif target == "P":
        joiner = rng.choice(["a1", "a2", "b1", "b2"])
        pre = ["op leave a1 P", "op leave b1 P", "unload P a1"]
        senders = list(SESS)
    elif target == "Q":
        joiner = rng.choice(["a1", "a2", "c1", "r1"])
        senders = list(SESS)
    elif target == "X":
        joiner = rng.choice(SESS)
        senders = list(SESS)
    elif target in ("M", "F"):
        joiner = rng.choice(SESS)
        senders = [s for s in SESS if USER[s] == USER[joiner]]
    else:
        joiner = rng.choice(SESS)
        senders = []
    rel = rng.choice(["ok", "ok", "fail1", "fail1", "fail1", "fail2", "fail3"])
    lines = list(pre)
    jid = "j%d" % k
    jkind = "subget" if rng.random() < 0.25 else "sub"
    lines.append("hold %s %s %s%s" % (joiner, target, jid, " subget" if jkind == "subget" else ""))
    msgs = []
    if senders:
        kinds = list(HELD_KINDS)
        if target == "S":
            kinds += ["pub"] * 8 + ["recv"] * 3
        else:
            # ({del what=topic} on a loading p2p topic is a recorded finding that costs a driver restart when the load fails:
            # the fixed scenarios cover it, the random ones meet it less often)
            kinds += ["recv"] * 5 + ["ring"] * 2 + (["deltopic"] * 2 if target not in ("P", "Q") else [])
        for i in range(rng.choice([1, 2, 3, 4, 5, 6, 8])):
            s = rng.choice(senders)
            kd = rng.choice(kinds)
            if s == joiner and kd in ("sub", "subget", "leave", "unsub"):
                kd = "pub"      # a second {sub}/{leave} of the joiner waits in inflightReqs.Add until the load ends: the read loop is (rightly) blocked
            qid = "q%d-%d" % (k, i)
            lines.append("q %s %s %s %s" % (s, qid, kd, target))
            msgs.append((s, qid, kd))
    lines.append("release " + rel)
    post = []
    if senders and rng.random() < 0.2:
        # requests after the load has ended (the topic is loaded / unregistered again): judged by the laws only
        for i in range(rng.choice([1, 2, 3])):
            s = rng.choice(senders)
            kd = rng.choice(["pub", "recv", "getdesc", "sub", "leave", "kp", "deltopic", "pub"])
            qid = "p%d-%d" % (k, i)
            lines.append("q %s %s %s %s" % (s, qid, kd, target))
            post.append((s, qid, kd))
    return lines, dict(target=target, joiner=joiner, jid=jid, jkind=jkind, rel=rel, msgs=msgs, post=post)


def fixed_held():
    out = []

    def scn(pre, joiner, target, msgs, rel):
        k = len(out)
        lines = list(pre) + ["hold %s %s j%d" % (joiner, target, k)]
        mm = []
        for i, (s, kd) in enumerate(msgs):
            lines.append("q %s f%d-%d %s %s" % (s, k, i, kd, target))
            mm.append((s, "f%d-%d" % (k, i), kd))
        lines.append("release " + rel)
        out.append((lines, dict(target=target, joiner=joiner, jid="j%d" % k, rel=rel, msgs=mm)))
    unS = ["unload S r1"]
    unG = ["op leave a1 G", "op leave b1 G", "unload G a1"]
    unP = ["op leave a1 P", "op leave b1 P", "unload P a1"]
    # the seeded shape and its neighbours: {pub sys} / notes queued, the load fails / succeeds
    scn(unS, "r1", "S", [("a1", "pub"), ("b1", "recv"), ("c1", "pub"), ("a1", "pub"), ("b2", "sub"), ("a2", "getdesc")], "fail1")
    scn(unS, "r1", "S", [("a1", "pub"), ("b1", "recv"), ("c1", "pub"), ("c1", "pubnoid"), ("r1", "pub")], "ok")
    scn(unS, "r1", "S", [("a1", "pub"), ("a1", "deltopic"), ("b1", "pub")], "fail2")
    scn(unG, "b1", "G", [("a1", "recv"), ("a2", "deltopic"), ("c1", "deltopic"), ("a1", "sub"), ("c1", "getsub"), ("a2", "leave"), ("a2", "pub")], "fail1")
    scn(unG, "c1", "G", [("a1", "recv"), ("b1", "recv"), ("b2", "deltopic"), ("a2", "kp"), ("b1", "setpriv")], "ok")
    scn(unP, "b1", "P", [("a1", "recv"), ("a2", "ring"), ("a1", "hangup")], "fail1")
    scn(unP, "a2", "P", [("b1", "recv"), ("b2", "ring")], "ok")
    # a p2p topic deleted while it is being loaded (recorded finding when the load then succeeds)
    scn(unP, "b1", "P", [("a1", "recv"), ("c1", "deltopic")], "ok")
    scn(unP, "b1", "P", [("a1", "recv"), ("a1", "deltopic"), ("a2", "recv")], "fail1")
    scn([], "c1", "X", [("a1", "recv"), ("a2", "deltopic"), ("b1", "sub")], "ok")
    scn([], "a2", "M", [("a1", "recv"), ("a1", "deltopic"), ("a1", "sub"), ("a1", "getdesc")], "fail1")
    scn([], "b2", "F", [("b1", "recv"), ("b1", "leave")], "ok")
    scn([], "a1", "Q", [("c1", "recv"), ("r1", "ring"), ("a2", "sub")], "fail1")
    scn([], "a1", "N", [], "fail1")
    return out


# ---------------- running the driver ----------------

FRAME_RE = re.compile(r"^F (\S+) (\S+)$")


def parse_frames(s):
    out = []
    for f in s.split(","):
        p = f.split(":")
        if p[0] == "c":
            out.append(("c", int(p[1]), unhx(p[2]), unhx(p[3]), unhx(p[4])))
        elif p[0] == "m":
            out.append(("m", 0, unhx(p[1]), "", ""))
        else:
            out.append((p[0], 0, None, "", ""))
    return out


def run_driver(ctx, scenarios, tag):
    """scenarios: list of (name, lines).  Returns (per-scenario list of blocks or None, fatal) where a block is
    dict(head=<first line words>, frames={sess: [...]}, state=[lines])."""
    fin = os.path.join(ctx.work, "c13x_%s_in.txt" % tag)
    fout = os.path.join(ctx.work, "c13x_%s_out.txt" % tag)
    lines = []
    for name, ls in scenarios:
        lines.append("scn " + name)
        lines += ls
        lines.append("end")
    open(fin, "w").write("\n".join(lines) + "\n")
    if os.path.exists(fout):
        os.remove(fout)
    env = dict(vlib.GOENV, VERIF_IN=fin, VERIF_OUT=fout)
    try:
        p = subprocess.run([os.path.join(vlib.BUILD, "maindrv.test"), "-test.run", "^TestVerifC13x$", "-test.count=1", "-test.timeout=%ds" % (240 if ctx.tier == "quick" else 1500) + ""],
                           stdout=subprocess.PIPE, stderr=subprocess.STDOUT, timeout=1700, env=env, cwd=os.path.join(vlib.REPO, "server"))
        rc, log = p.returncode, p.stdout.decode("utf-8", "replace")
    except subprocess.TimeoutExpired as e:
        rc, log = -9, (e.stdout or b"").decode("utf-8", "replace") + "\nTIMEOUT"
    out = open(fout).read().split("\n") if os.path.exists(fout) else []
    res = []
    cur = None
    blk = None
    done = False
    began = None
    for l in out:
        if l.startswith("scn "):
            cur = {"name": l[4:], "blocks": [], "ended": False}
            res.append(cur)
            blk = None
        elif l == "end":
            if cur:
                cur["ended"] = True
        elif l == "done":
            done = True
        elif l.startswith("begin "):
            began = int(l.split()[1])
            if cur is not None:
                cur["began"] = began
        elif l.startswith(("op ", "hold ", "q ", "release ", "unload ")):
            w = l.split()
            blk = {"head": w, "frames": {}, "state": []}
            if cur is not None:
                cur["blocks"].append(blk)
        elif l.startswith("F ") and blk is not None:
            m = FRAME_RE.match(l)
            if m:
                blk["frames"].setdefault(m.group(1), []).extend(parse_frames(m.group(2)))
        elif l.startswith(("S ", "T ")) and blk is not None:
            blk["state"].append(l)
    fatal = None
    if not done:
        from props import c13
        msg, site = c13.site_from_log(log)
        if "test timed out" in log or rc == -9:
            site, msg = "driver-timeout", "the driver did not finish in time (a goroutine of the server or of the driver is blocked): " + msg
        fatal = dict(scenario=len(res) - 1, msg=msg, site=site, log=log[-5000:], rc=rc)
    return res, fatal


def kv(words):
    d = {}
    for w in words:
        if "=" in w:
            a, b = w.split("=", 1)
            d[a] = b
    return d


# ---------------- part 1: laws + model ----------------

def check_slow(ctx, stats, name, ops, rec, fatal_here):
    """ops: list of op tokens; rec: parsed scenario output (or None)"""
    lines_for = ["op " + o.replace(":", " ") for o in ops]
    blocks = [b for b in (rec["blocks"] if rec else []) if b["head"][0] == "op"]
    replay = {"part": "c13x", "scenario": lines_for, "how": "python3 tools/check.py C13 --replay <this file>"}
    # laws on the implementation's trace
    clogged = set()
    extra = []          # per op: attachments the stuck connections lost in the implementation (label parameter of the model)
    prev_subs = None
    for i, b in enumerate(blocks):
        h = b["head"]
        res = kv(h).get("res", "")
        if res.startswith("PANIC"):
            ctx.violation("monitor", "read-loop-panic@" + res.split(":")[1], "slow-consumer scenario: panic in the read loop at op %d %s" % (i + 1, ops[i]),
                          dict(replay, scenario=lines_for[:i + 1]))
        if res.startswith("HANG"):
            ctx.violation("monitor", "slow-consumer-hang", "the server does not come to rest after op %d %s: %s" % (i + 1, ops[i], res), dict(replay, scenario=lines_for[:i + 1]))
        if res.startswith("CLOGLEAK"):
            ctx.violation("monitor", "slow-consumer-driver", "a frame entered a full send buffer: " + res, dict(replay, scenario=lines_for[:i + 1]))
        kind, s = h[2], h[3]
        if kind == "clog" and res == "ok":
            clogged.add(s)
        elif kind in ("unclog", "disc"):
            clogged.discard(s)
        subs = {}
        for l in b["state"]:
            w = l.split()
            if w[0] == "S":
                d = kv(w)
                subs[w[1]] = [x for x in d["subs"].split(",") if x]
                # law (theorem c13_inflight_free_at_rest): at rest every live connection's request slot is free
                if d["inflight"] not in ("0", "nil"):
                    stats["slow"]["slot_not_free"] += 1
                    ctx.violation("monitor", "inflight-slot-not-free", "after op %d (%s) connection %s holds %s request slot(s) although nothing is in flight: "
                                  "its next {sub}/{leave} will block for ever" % (i + 1, ops[i], w[1], d["inflight"]), dict(replay, scenario=lines_for[:i + 1]))
                if d["inflight"] == "nil" and d["term"] != "1":
                    ctx.violation("monitor", "inflight-slot-not-free", "connection %s has no wait group although it is not terminating" % w[1], dict(replay, scenario=lines_for[:i + 1]))
        lost = []
        if prev_subs is not None:
            for c in sorted(clogged):
                if c == s and kind in ("leave", "unsub", "disc"):
                    continue
                before = list(prev_subs.get(c, []))
                for t in subs.get(c, []):
                    if t in before:
                        before.remove(t)
                for t in before:
                    if t in ("G", "P", "Q"):
                        lost.append("%s@%s" % (c, t))
        optopic = ops[i].split(":")[2] if ops[i].count(":") >= 2 else None
        if kind == "sub" and s in clogged and optopic in ("G", "P", "Q") and optopic not in subs.get(s, []):
            # the stuck connection's own {sub}: if it was accepted, a broadcast of the same operation has detached it again
            # (nothing can be seen on a stuck connection): label parameter of the model as above
            lost.append("%s@%s" % (s, optopic))
        extra.append(lost)
        for x in lost:
            stats["slow"]["evictions"][kind] = stats["slow"]["evictions"].get(kind, 0) + 1
        prev_subs = subs
        stats["slow"]["ops"] += 1
    if fatal_here is not None:
        k = len(blocks)
        law = "server-crashed@" + fatal_here["site"]
        ctx.violation("monitor", law, "slow-consumer scenario %s: the server process died at op %d (%s): %s" % (name, k + 1, ops[k] if k < len(ops) else "?", fatal_here["msg"]),
                      dict(replay, scenario=lines_for[:k + 1], trace=fatal_here["log"][-2500:]))
        return None
    if not rec or not rec.get("ended"):
        return None
    return extra


def model_slow(ctx, stats, cases):
    """cases: list of (name, ops, rec, extra)"""
    if not cases:
        return
    lines = []
    for name, ops, rec, extra in cases:
        toks = []
        for o, ex in zip(ops, extra):
            toks.append(o + ("+" + ",".join(ex) if ex else ""))
        lines.append("I 1 " + " ".join(toks))
    rc, ans, err = ctx.run_model("c13x", lines)
    if rc != 0 or len(ans) != len(cases):
        ctx.violation("proof", "runner-crashed", "model runner failed on the slow-consumer scenarios: " + err[-800:], {"theorem_or_obligation": "model runner c13x"})
        return
    mism = []
    for (name, ops, rec, extra), a in zip(cases, ans):
        blocks = [b for b in rec["blocks"] if b["head"][0] == "op"]
        mo = a.split("|")
        for i, b in enumerate(blocks):
            stats["slow"]["compared"] += 1
            want = ";".join(b["state"])
            got = mo[i] if i < len(mo) else "?"
            if want != got:
                mism.append((name, ops, i, want, got))
                break
    stats["slow"]["mismatches"] = len(mism)
    stats["slow"]["first_mismatches"] = [{"scenario": ["op " + o.replace(":", " ") for o in ops[:i + 1]], "impl": want, "model": got} for _, ops, i, want, got in mism[:3]]
    if mism and not real_violations(ctx):
        name, ops, i, want, got = mism[0]
        ctx.violation("corr", "correspondence-inflight", "model coq/Sys/Inflight.v and implementation disagree after op %d (%s) of scenario %s: impl [%s] model [%s]; no monitor failure found"
                      % (i + 1, ops[i], name, want[:400], got[:400]),
                      {"correspondence": "request slot / attachments after every operation", "scenario": ["op " + o.replace(":", " ") for o in ops[:i + 1]],
                       "impl": want, "model": got, "more": len(mism)})


# ---------------- part 2: laws + model ----------------

def check_held(ctx, stats, name, lines, meta, rec, fatal_here):
    replay = {"part": "c13x", "scenario": lines, "how": "python3 tools/check.py C13 --replay <this file>"}
    if fatal_here is not None and not (rec and any(w.startswith(("quiet=STUCK", "quiet=HANG")) for b in rec["blocks"] for w in b["head"])):
        law = "server-crashed@" + fatal_here["site"]
        ctx.violation("monitor", law, "held-load scenario %s: the server process died: %s" % (name, fatal_here["msg"]), dict(replay, trace=fatal_here["log"][-2500:]))
        return None
    if not rec or not (rec.get("ended") or fatal_here is not None):
        return None
    blocks = rec["blocks"]
    hold = [b for b in blocks if b["head"][0] == "hold"]
    if not hold:
        return None
    hd = kv(hold[0]["head"])
    window = blocks[blocks.index(hold[0]):]
    sent = {s: {} for s in SESS}          # session -> id -> kind
    sent[meta["joiner"]][meta["jid"]] = meta.get("jkind", "sub")     # {sub get=..}: the get part may add its own (error) {ctrl}
    for s, qid, kd in meta["msgs"] + meta.get("post", []):
        if kd not in NOTE_KINDS and kd != "pubnoid":
            sent[s][qid] = kd
    got = {s: [] for s in SESS}
    deleted_p2p = False
    for b in window:
        if b["head"][0] == "q" and kv(b["head"]).get("kind") == "deltopic" and meta["target"] in ("P", "Q"):
            qid = unhx(kv(b["head"])["id"])
            s = b["head"][2]
            if any(f[0] == "c" and f[1] == 200 and f[2] == qid for f in b["frames"].get(s, [])):
                deleted_p2p = True
    stuck = False
    for b in window:
        for s, fr in b["frames"].items():
            got[s] += [f for f in fr if f[0] in ("c", "m")]
        for w in b["head"]:
            if w.startswith("quiet=") and w != "quiet=-":
                stuck = True
                if w.startswith("quiet=STUCK") and deleted_p2p and b["head"][0] == "release":
                    law = "topicinit-stuck-p2p-deleted-while-loading"
                else:
                    law = "held-load-hang"
                ctx.violation("monitor", law, "held-load scenario %s (topic %s): after the load ends a goroutine of the server is blocked for ever (%s): the {sub}'s request slot is never "
                              "released, the joiner's next {sub}/{leave} waits for ever" % (name, meta["target"], w[6:]), replay)
            if w.startswith("res=") and w[4:].startswith(("PANIC", "HANG")):
                ctx.violation("monitor", "read-loop-panic@" + (w.split(":")[1] if ":" in w else "hang"), "held-load scenario %s: %s" % (name, " ".join(b["head"])), replay)
    if stuck:
        # the driver leaves after a release that never comes to rest: the requests after it were not sent
        for s0, qid, kd in meta.get("post", []):
            sent[s0].pop(qid, None)
    if not stuck:
        for b in window:
            if b["head"][0] != "release":
                continue
            for l in b["state"]:
                w = l.split()
                if w[0] == "S" and kv(w)["inflight"] not in ("0", "nil"):
                    # law (theorem c13_inflight_free_at_rest): at rest every live connection's request slot is free
                    ctx.violation("monitor", "inflight-slot-not-free", "held-load scenario %s (topic %s, release %s): at rest connection %s still holds %s request slot(s): its next "
                                  "{sub}/{leave} will block for ever" % (name, meta["target"], meta["rel"], w[1], kv(w)["inflight"]), replay)
    stats["held"]["scenarios"] += 1
    stats["held"]["by_target"][meta["target"]] = stats["held"]["by_target"].get(meta["target"], 0) + 1
    held = hd.get("held") == "1"
    stats["held"]["held"] += 1 if held else 0
    rel = [b for b in window if b["head"][0] == "release"]
    loaded = kv(rel[0]["head"]).get("loaded") == "1" if rel else None
    stats["held"]["load_failed" if loaded is False else "load_ok"] += 1
    for s in SESS:
        counts = {}
        for f in got[s]:
            fid = f[2]
            if f[0] == "c" and f[1] == 205 and fid == "" and f[3] == "evicted":
                continue
            if fid == "":
                stats["held"]["replies_without_id"] += 1
                continue
            if fid not in sent[s]:
                # THE law of the clause "replies produced by the request's handler echo the request's id"
                owner = [x for x in SESS if fid in sent[x]]
                ctx.violation("monitor", "id-echo-held-load", "held-load scenario %s (topic %s, load %s): session %s received {%s code=%d} carrying id %r, which is %s; its own pending ids are %s"
                              % (name, meta["target"], "failed" if loaded is False else "succeeded", s, "ctrl" if f[0] == "c" else "meta", f[1], fid,
                                 "the id of a request of session " + owner[0] if owner else "not the id of any request", sorted(sent[s])), replay)
                continue
            if f[0] == "c" and f[4] == "":
                # ({sub get=...} / {get}: the "no content" {ctrl 204 what=..} of a part of the query is not a second answer)
                counts[fid] = counts.get(fid, 0) + 1
        answered = set(f[2] for f in got[s])
        for qid, kd in sent[s].items():
            if qid not in answered:
                if kd in ("sub", "subget") and qid == meta["jid"] and deleted_p2p and loaded is not None:
                    law = "unanswered-sub-p2p-deleted-while-loading"
                elif owner_del(meta["target"], s, kd) and loaded:
                    law = "unanswered-deltopic-owner-while-loading"
                else:
                    law = "unanswered-held-" + kd
                ctx.violation("monitor", law, "held-load scenario %s (topic %s, release %s, topic %s afterwards): the {%s id=%r} of session %s is never answered"
                              % (name, meta["target"], meta["rel"], "loaded" if loaded else "not loaded", kd, qid, s), replay)
            elif kd in ONCE_KINDS and counts.get(qid, 0) > 1:
                ctx.violation("monitor", "answered-twice-held-" + kd, "held-load scenario %s: the {%s id=%r} of session %s is answered by %d {ctrl} frames" % (name, kd, qid, s, counts[qid]), replay)
        stats["held"]["requests"] += len(sent[s])
    comparable = held and hd.get("wasloaded") == "0" and meta["rel"] in ("ok", "fail1") and not stuck and not meta.get("post")
    if meta["target"] in ("P", "Q"):
        # a {sub} that arrives after a {del what=topic} has unregistered the p2p topic starts a SECOND load (and attaches
        # the sender): outside the model of one load
        kinds = [kd for _, _, kd in meta["msgs"]]
        if "deltopic" in kinds and any(k in ("sub", "subget") for k in kinds[kinds.index("deltopic"):]):
            comparable = False
    if not comparable:
        return None
    return dict(got=got, loaded=loaded, at=hd.get("at"))


def owner_del(target, s, kd):
    """{del what=topic} from the stored owner of the topic being loaded: user 1 for the group G"""
    return kd == "deltopic" and target == "G" and USER[s] == 1


def model_kind(target, s, kd):
    return "deltopicO" if owner_del(target, s, kd) else kd


def model_held(ctx, stats, cases):
    if not cases:
        return
    lines = []
    for name, lns, meta, obs in cases:
        t = meta["target"]
        if t == "X":
            rel, code = "fail", ("500" if meta["rel"] == "fail1" else "404")
        elif meta["rel"] == "ok":
            rel, code = "ok", "0"
        else:
            rel, code = "fail", "500"
        msgs = ["%s:%s:%s" % (s, "-" if kd in NOTE_KINDS or kd == "pubnoid" else hx(qid), model_kind(t, s, kd)) for s, qid, kd in meta["msgs"]]
        lines.append("H 1 %d %d %s %s %s %s %s" % (t == "S", t in ("P", "Q"), rel, code, meta["joiner"], hx(meta["jid"]), " ".join(msgs)))
    rc, ans, err = ctx.run_model("c13x", lines)
    if rc != 0 or len(ans) != len(cases):
        ctx.violation("proof", "runner-crashed", "model runner failed on the held-load scenarios: " + err[-800:], {"theorem_or_obligation": "model runner c13x"})
        return
    mism = []
    for (name, lns, meta, obs), a in zip(cases, ans):
        stats["held"]["compared"] += 1
        want = {s: [] for s in SESS}
        if a != "-":
            for r in a.split(","):
                s, code, idh = r.split(":")
                want[s].append((int(code), unhx(idh)))
        why = None
        for s in SESS:
            impl = [f for f in obs["got"][s] if not (f[0] == "c" and f[1] == 205 and f[2] == "" and f[3] == "evicted")]
            # exact-code replies: the same multiset of (code, id); oracle-code replies: at least one frame with that id
            exact = sorted((c, i) for c, i in want[s] if c != 999)
            oracle_ids = [i for c, i in want[s] if c == 999]
            rest = list(impl)
            for c, i in exact:
                hit = [f for f in rest if f[0] == "c" and f[1] == c and f[2] == i]
                if not hit:
                    why = "session %s: the model expects {ctrl code=%d id=%r}, the implementation sent %s" % (s, c, i, [(f[0], f[1], f[2]) for f in impl])
                    break
                rest.remove(hit[0])
            if why:
                break
            for i in oracle_ids:
                if not any(f[2] == i for f in rest):
                    why = "session %s: the model expects a reply with id %r, the implementation sent %s" % (s, i, [(f[0], f[1], f[2]) for f in impl])
                    break
            if why:
                break
            left = [f for f in rest if f[2] not in oracle_ids]
            if left:
                why = "session %s: the implementation sent %s, which the model does not predict (model: %s)" % (s, [(f[0], f[1], f[2]) for f in left], want[s])
                break
        if why:
            mism.append((name, lns, meta, why, a))
    stats["held"]["mismatches"] = len(mism)
    stats["held"]["first_mismatches"] = [{"scenario": lns, "why": why, "model": a} for _, lns, _, why, a in mism[:3]]
    if mism and not real_violations(ctx):
        name, lns, meta, why, a = mism[0]
        ctx.violation("corr", "correspondence-held-load", "model coq/Sys/HeldLoad.v and implementation disagree on scenario %s (topic %s, %s): %s; no monitor failure found"
                      % (name, meta["target"], meta["rel"], why),
                      {"correspondence": "who is answered with which id and code when a held topic load ends", "scenario": lns, "model": a, "more": len(mism)})


def real_violations(ctx):
    """violations other than the recorded findings (a correspondence mismatch is reported only when no monitor failed)"""
    known = set(f["key"] for f in ctx.load_findings() if f["property"] == ctx.pid)
    return [v for v in ctx.violations if v["key"] not in known]


# ---------------- entry ----------------

def run_part(ctx, stats):
    quick = ctx.tier == "quick"
    rng = ctx.rng
    st = stats.setdefault("c13x", {"slow": {"ops": 0, "compared": 0, "mismatches": 0, "evictions": {}, "slot_not_free": 0, "scenarios": 0},
                                   "held": {"scenarios": 0, "held": 0, "load_ok": 0, "load_failed": 0, "requests": 0, "compared": 0, "mismatches": 0,
                                            "by_target": {}, "replies_without_id": 0}})
    if ctx.replay:
        rp = json.load(open(ctx.replay))["replay"]
        scen = [("replay", rp["scenario"], None, None)]
    else:
        scen = []
        for i, ops in enumerate(fixed_slow()):
            scen.append(("slowfix%d" % i, ["op " + o.replace(":", " ") for o in ops], ops, None))
        for i in range(24 if quick else 400):
            ops = gen_slow(rng, 26)
            scen.append(("slow%d" % i, ["op " + o.replace(":", " ") for o in ops], ops, None))
        for i, (lines, meta) in enumerate(fixed_held()):
            scen.append(("heldfix%d" % i, lines, None, meta))
        for i in range(110 if quick else 2500):
            lines, meta = gen_held(rng, i)
            scen.append(("held%d" % i, lines, None, meta))
    pending = scen
    slow_cases, held_cases = [], []
    restarts = 0
    while pending:
        res, fatal = run_driver(ctx, [(n, l) for n, l, _, _ in pending], "r%d" % restarts)
        for k, (name, lines, ops, meta) in enumerate(pending):
            rec = res[k] if k < len(res) else None
            fatal_here = fatal if fatal is not None and k == fatal["scenario"] else None
            if fatal is not None and k > fatal["scenario"]:
                break
            if ops is None and meta is None:
                # a replay: decide the part from its lines
                if any(l.startswith("hold ") for l in lines):
                    meta = meta_of_lines(lines)
                else:
                    ops = [l[3:].replace(" ", ":") for l in lines if l.startswith("op ")]
            if meta is not None:
                obs = check_held(ctx, st, name, lines, meta, rec, fatal_here)
                if obs is not None:
                    held_cases.append((name, lines, meta, obs))
            else:
                st["slow"]["scenarios"] += 1
                extra = check_slow(ctx, st, name, ops, rec, fatal_here)
                if extra is not None:
                    slow_cases.append((name, ops, rec, extra))
        if fatal is None:
            break
        restarts += 1
        st["driver_restarts"] = restarts
        if fatal["scenario"] < 0 or restarts > (25 if quick else 400) or ctx.replay:
            st["scenarios_not_run_after_restart_cap"] = max(0, len(pending) - fatal["scenario"] - 1)
            if fatal["scenario"] < 0:
                ctx.violation("corr", "driver-crashed", "TestVerifC13x failed before the first scenario: %s\n%s" % (fatal["msg"], fatal["log"][-1500:]), {"correspondence": "driver run"})
            break
        pending = pending[fatal["scenario"] + 1:]
    if not ctx.replay:
        ok, out = ctx.build_runner()
        if not ok:
            ctx.violation("proof", "extraction-broken", "model extraction/runner build failed: " + out[-1500:], {"theorem_or_obligation": "extraction of the model"})
            return
        model_slow(ctx, st, slow_cases)
        model_held(ctx, st, held_cases)


def meta_of_lines(lines):
    meta = dict(msgs=[], post=[], rel="ok", target="?", joiner="?", jid="?")
    released = False
    for l in lines:
        w = l.split()
        if w[0] == "hold":
            meta.update(joiner=w[1], target=w[2], jid=w[3], jkind=(w[4] if len(w) > 4 else "sub"))
        elif w[0] == "q":
            meta["post" if released else "msgs"].append((w[1], w[2], w[3]))
        elif w[0] == "release":
            meta["rel"] = w[1]
            released = True
    return meta
