"""C13 no client input crashes the server or goes unanswered.

Two halves (the evidence states the split):
  * PROOF: coq/Props/PropC13.v over coq/Sys/PanicSites.v (reachability of the MODELLED panic sites incl. the
    in-topic default-access site, reply totality, id echo, error-not-silence at the session/hub routing level),
    tied to the code by running the extracted model on the same structured messages as the implementation;
    and over coq/Pure/Drafty.v (message content rendered into previews never panics), tied to the code by
    tools/props/c13drafty.py (extracted model and drafty.PlainText / Preview on the same documents).
  * TESTING IN SUPPORT: the malformed-stream driver TestVerifFuzz (harness/overlay/server/
    zz_verif_c13_test.go) feeding raw bytes / boundary-valued messages / mixed sequences to the real
    dispatchRaw in every session state under a matrix of configurations.  Nothing is proved about Go
    code outside the two models; a panic found here is a monitor failure."""
import itertools
import json
import os
import re
import subprocess
import time

import vlib
from props import c13gen as G
from props import c13slow as SLOW

KNOWN_KINDS = set(G.KINDS)
CONFIGS = [dict(media=m, calls=c, validators=v) for m, c, v in itertools.product((0, 1), repeat=3)]


def cfg_name(c):
    return "media=%d calls=%d validators=%d" % (c["media"], c["calls"], c["validators"])


class Item:
    __slots__ = ("op", "sess", "raw", "shape", "msg", "gen")

    def __init__(self, op, sess, raw, shape, msg=None, gen=""):
        self.op, self.sess, self.raw, self.shape, self.msg, self.gen = op, sess, raw, shape, msg, gen

    def line(self):
        if self.op == "ak":
            return "ak %s" % (self.raw.hex() or "-")
        if self.op == "probe":
            return "probe"
        if self.op in ("clog", "unclog"):
            return "%s %s" % (self.op, self.sess)
        return "%s %s %s" % (self.op, self.sess, self.raw.hex() or "-")

    def show(self):
        return {"op": self.op, "session": self.sess, "bytes": self.raw.decode("utf-8", "backslashreplace")[:600], "hex": self.raw.hex()[:1200]}


def topic_class(t):
    if t is None:
        return "-"
    if t == "":
        return "empty"
    if t in ("me", "fnd", "sys"):
        return t
    if t.startswith("@"):
        return t[:4]
    if len(t) < 3:
        return "short"
    p = t[:3]
    if p in ("usr", "grp", "p2p", "chn", "new", "nch", "sys", "fnd"):
        return p + "+"
    return "other"


def shape_of(m):
    k = next(iter(k for k in m if k != "extra"), "none")
    b = m.get(k) if isinstance(m.get(k), dict) else {}
    ex = m.get("extra") or {}
    return (k, str(b.get("what", ""))[:12], topic_class(b.get("topic")), bool(ex.get("attachments")), bool(ex.get("obo")),
            str(b.get("tmpscheme", ""))[:8] if k == "acc" else "", str(b.get("user", ""))[:3] if k == "acc" else "")


def slow_item(sess, m):
    return Item("in", sess, G.dumps(m), shape_of(m), msg=m, gen="slow-consumer")


def clog_item(op, sess):
    return Item(op, sess, b"", (op,), gen="slow-consumer")


WINDOW_NO = [0]


def gen_group(rng, n, profile):
    """n generated inputs; two clog / traffic / unclog triples (tools/props/c13slow.py) are inserted at random
    positions of EVERY group, so that every run has connections with a full send queue under every kind of traffic."""
    items = gen_plain(rng, n, profile)
    for _ in range(2):
        WINDOW_NO[0] += 1

        def gen_any(sess):
            m = G.gen_msg(rng, G.pick(rng, G.KINDS))
            return Item("in", sess, G.dumps(m), shape_of(m), msg=m, gen="structured")
        w = SLOW.window(rng, slow_item, clog_item, gen_any, WINDOW_NO[0])
        at = rng.randrange(len(items) + 1)
        depth = 0          # not inside the window inserted before
        for it in items[:at]:
            depth += 1 if it.op == "clog" else -1 if it.op == "unclog" else 0
        if depth == 0:
            items[at:at] = w
        else:
            items += w
    return items


def gen_plain(rng, n, profile):
    items = []
    for _ in range(n):
        sess = rng.choices(G.SESSIONS, G.SESS_W)[0]
        r = rng.random()
        if profile == "raw" or (profile == "mixed" and r < 0.25):
            raw = G.gen_raw(rng)
            items.append(Item("in", sess, raw, ("raw",), gen="raw"))
        elif r > 0.97:
            items.append(Item("pb", sess, G.gen_pb(rng), ("pb",), gen="pb"))
        else:
            m = G.gen_msg(rng, G.pick(rng, G.KINDS))
            items.append(Item("in", sess, G.dumps(m), shape_of(m), msg=m, gen="structured"))
    return items


def lifecycle_groups():
    """Structured multi-step sequences on ONE topic (each its own group, so that the population is fresh):
    attach, change own mode (self-ban, junk, owner bit), detach, come back, unsubscribe, come back - for every
    topic kind and session kind.  Random single messages almost never line up three dependent requests on the
    same topic, yet several handler branches (un-self-ban, re-subscription of a deleted row, default access
    of each topic category) are reachable only that way."""
    def I(sess, m):
        return Item("in", sess, G.dumps(m), shape_of(m), msg=m, gen="lifecycle")
    gs = []
    n = 0
    for topic in ("me", "fnd", "sys", "@GG@", "@GC@", "@CC@", "@PP@", "@U2@", "new", "nch"):
        for sess in ("att", "in", "root"):
            for mode in ("N", "JP", "JRWPASDO", "J?"):
                n += 1
                i = "lc%d" % n
                gs.append([
                    I(sess, {"sub": {"id": i + "a", "topic": topic}}),
                    # invite / re-invite another user with the topic's default mode (anotherUserSub -> accessFor) and with a bad id
                    I(sess, {"set": {"id": i + "j", "topic": topic, "sub": {"user": "@U2@" if sess != "peer" else "@U1@"}}}),
                    I(sess, {"set": {"id": i + "k", "topic": topic, "sub": {"user": "usrJunk", "mode": mode}}}),
                    I(sess, {"set": {"id": i + "b", "topic": topic, "sub": {"mode": mode}}}),
                    I(sess, {"sub": {"id": i + "c", "topic": topic}}),
                    I(sess, {"leave": {"id": i + "d", "topic": topic}}),
                    I(sess, {"sub": {"id": i + "e", "topic": topic, "set": {"sub": {"mode": mode}}}}),
                    I(sess, {"get": {"id": i + "f", "topic": topic, "what": "desc sub"}}),
                    I(sess, {"leave": {"id": i + "g", "topic": topic, "unsub": True}}),
                    I(sess, {"sub": {"id": i + "h", "topic": topic}}),
                    I(sess, {"pub": {"id": i + "i", "topic": topic, "content": "x"}}),
                ])
    return gs


def canonical_groups():
    """Corpus run first: the confirmed triggers and their neighbours (each its own group)."""
    def I(sess, s):
        m = None
        try:
            m = json.loads(s)
        except Exception:
            pass
        return Item("in", sess, s.encode(), shape_of(m) if isinstance(m, dict) else ("raw",), msg=m if isinstance(m, dict) else None, gen="corpus")
    gs = [
        [I("hi", '{"acc":{"id":"8","user":"","tmpscheme":"bogus","tmpsecret":"YWJj"}}'),
         I("hi", '{"acc":{"id":"9","user":"usrAAAAAAAAAAA","tmpscheme":"nosuch","tmpsecret":""}}')],
        [I("in", '{"note":{"topic":"ab","what":"call","seq":1}}'), I("in", '{"note":{"topic":"xyzzy","what":"call","seq":1}}'),
         I("in", '{"note":{"topic":"new","what":"call","seq":1,"event":"ringing"}}')],
        [I("in", '{"del":{"id":"9","topic":"ab","what":"topic"}}')],
        [I("in", '{"del":{"id":"9","topic":"xyzzy","what":"topic"}}')],
        [I("att", '{"del":{"id":"9","topic":"newabc","what":"topic","hard":true}}')],
        [I("att", '{"pub":{"id":"10","topic":"@GG@","content":"x"},"extra":{"attachments":["/v0/file/s/abc.jpg"]}}')],
        [I("hi", '{"acc":{"id":"11","user":"new","scheme":"basic","secret":"Ym9iYjpib2JiMTIz","login":false,"desc":{"public":{"fn":"x"}}},"extra":{"attachments":["/v0/file/s/abc.jpg"]}}')],
        [I("att", '{"set":{"id":"12","topic":"@GG@","desc":{"public":{"fn":"y"}}},"extra":{"attachments":["/v0/file/s/abc.jpg"]}}')],
        [I("in", '{"sub":{"id":"13","topic":"new","set":{"desc":{"public":{"fn":"z"}}}},"extra":{"attachments":["/v0/file/s/abc.jpg"]}}')],
        [I("att", '{"set":{"id":"14","topic":"me","desc":{"public":{"fn":"y"}}},"extra":{"attachments":["/v0/file/s/abc.jpg"]}}')],
        [I("att", '{"get":{"id":"7","topic":"me","what":"desc"},"extra":{"obo":"usrX"}}'),
         I("root", '{"get":{"id":"7","topic":"me","what":"desc"},"extra":{"obo":"usrX"}}')],
        [I("root", '{"pub":{"id":"15","topic":"@PR@","content":"x"},"extra":{"obo":"@U2@"}}')],
        [I("root", '{"get":{"id":"16","topic":"@PR@","what":"desc sub data"},"extra":{"obo":"@U2@"}}'),
         I("root", '{"set":{"id":"17","topic":"@PR@","desc":{"private":"x"}},"extra":{"obo":"@U2@"}}'),
         I("root", '{"note":{"topic":"@PR@","what":"read","seq":1},"extra":{"obo":"@U2@"}}'),
         I("root", '{"del":{"id":"18","topic":"@PR@","what":"msg","delseq":[{"low":1}]},"extra":{"obo":"@U2@"}}'),
         I("root", '{"leave":{"id":"19","topic":"@PR@","unsub":true},"extra":{"obo":"@U2@"}}')],
        [Item("pb", "in", G.pb_len(8, G.pb_str(1, "1") + G.pb_str(2, "me") + G.pb_len(3, b"")), ("pb",), gen="corpus"),
         Item("pb", "in", G.pb_len(8, G.pb_str(1, "1") + G.pb_str(2, "me") + G.pb_len(3, G.pb_len(2, b""))), ("pb",), gen="corpus")],
        [Item("ak", "-", k.encode("latin1"), ("ak",), gen="corpus") for k in G.APIKEYS],
        # recorded defect unanswered-leave-root-obo-other-user: attached on behalf of one user, {leave} on behalf of another
        [I("root", '{"sub":{"id":"20","topic":"@GG@"},"extra":{"obo":"@U1@"}}'),
         I("root", '{"leave":{"id":"21","topic":"@GG@"},"extra":{"obo":"@U2@"}}'),
         I("root", '{"leave":{"id":"22","topic":"@GG@"},"extra":{"obo":"@U1@"}}')],
    ]
    return gs


# ---------------- running the driver ----------------

R_RE = re.compile(r"^r (\d+) (\S+) dec=(\S+) id=(\S+) topic=(\S+) st=(\S+) res=(\S+) term=(\d) frames=(\S+) others=(\d+)(?: cl=(\d) ev=(\S+))?$")


def unhx(h):
    return "" if h == "-" else bytes.fromhex(h).decode("utf-8", "replace")


def parse_frames(s):
    out = []
    if s == "-":
        return out
    for f in s.split(","):
        p = f.split(":")
        if p[0] == "c":
            out.append(("c", int(p[1]), unhx(p[2]), unhx(p[3]), unhx(p[4])))
        elif p[0] == "m":
            out.append(("m", 0, unhx(p[1]), "", ""))
        else:
            out.append((p[0], 0, None, "", ""))
    return out


def site_from_log(log):
    """(message, site) of a fatal Go panic trace."""
    m = re.search(r"^(panic: .*|fatal error: .*)$", log, re.M)
    msg = m.group(1) if m else "abnormal exit"
    res = []
    started = False
    for l in log[m.start():].split("\n") if m else []:
        if l.startswith("goroutine ") and "[running]" in l:
            started = True
            continue
        if not started or l.startswith("\t"):
            continue
        if l.strip() == "":
            if res:
                break
            continue
        if l.startswith("github.com/tinode/chat/"):
            f = l[:l.rfind("(")].replace("github.com/tinode/chat/", "")
            if "memverif" in f or "vfGuard" in f:
                continue
            f = re.sub(r"^server/store/", "", f)
            f = re.sub(r"^server/", "", f)
            res.append(f)
            if len(res) == 2:
                break
    return msg, "<".join(res) if res else "?"


def run_driver(ctx, cfg, groups, tag):
    """Runs one process over the groups.  Returns (results, fatal) where results is a list parallel
    to the flattened items (None = not reached) and fatal = None or dict(index, log, msg, site, hang)."""
    fin = os.path.join(ctx.work, "fuzz_%s_in.txt" % tag)
    fout = os.path.join(ctx.work, "fuzz_%s_out.txt" % tag)
    lines = ["cfg " + cfg_name(cfg)]
    flat = []
    for gi, g in enumerate(groups):
        lines.append("group g%d" % gi)
        for it in g:
            lines.append(it.line())
            flat.append(it)
    open(fin, "w").write("\n".join(lines) + "\n")
    if os.path.exists(fout):
        os.remove(fout)
    env = dict(vlib.GOENV, VERIF_IN=fin, VERIF_OUT=fout)
    try:
        p = subprocess.run([os.path.join(vlib.BUILD, "maindrv.test"), "-test.run", "^TestVerifFuzz$", "-test.count=1", "-test.timeout=3000s"],
                           stdout=subprocess.PIPE, stderr=subprocess.STDOUT, timeout=3300, env=env, cwd=os.path.join(vlib.REPO, "server"))
        rc, log = p.returncode, p.stdout.decode("utf-8", "replace")
    except subprocess.TimeoutExpired as e:
        rc, log = -9, (e.stdout or b"").decode("utf-8", "replace") + "\nTIMEOUT"
    out = open(fout).read().split("\n") if os.path.exists(fout) else []
    results = [None] * len(flat)
    began = 0
    done = False
    probes = []
    pres = {}
    for l in out:
        if l.startswith("pre "):
            # state facts of an input, written before it is handled: survive a crash of the process
            m = re.match(r"^pre (\d+) (\S+) dec=(\S+) id=(\S+) topic=(\S+) st=(\S+)$", l)
            if m:
                pres[int(m.group(1)) - 1] = dict(sess=m.group(2), dec=m.group(3), id=unhx(m.group(4)), topic=unhx(m.group(5)), st=m.group(6),
                                                 res="CRASH", term=False, frames=[], others=0)
        elif l.startswith("begin "):
            began = int(l.split()[1])
        elif l.startswith("r "):
            w = l.split()
            k = int(w[1]) - 1
            if w[2] == "probe":
                if flat[k].op == "probe":
                    results[k] = {"probe": " ".join(w[3:])}
                else:
                    probes.append((k, " ".join(w[3:])))
                continue
            if w[2] == "ak":
                results[k] = {"ak": " ".join(w[3:])}
                continue
            if w[2] in ("clog", "unclog"):
                results[k] = {"clog": w[4] if len(w) > 4 else "?", "op": w[2]}
                continue
            m = R_RE.match(l)
            if m:
                results[k] = dict(sess=m.group(2), dec=m.group(3), id=unhx(m.group(4)), topic=unhx(m.group(5)), st=m.group(6), res=m.group(7),
                                  term=m.group(8) == "1", frames=parse_frames(m.group(9)), others=int(m.group(10)),
                                  cl=m.group(11) == "1", ev=[] if m.group(12) in (None, "-") else m.group(12).split("+"))
            else:
                # HANG lines have no term/frames part
                results[k] = dict(sess=w[2], dec="?", id="", topic="", st="", res=[x for x in w if x.startswith("res=")][0][4:], term=False, frames=[], others=0, fatal=True)
        elif l.startswith("final probe"):
            probes.append((len(flat) - 1, l[len("final probe "):]))
        elif l == "done":
            done = True
    fatal = None
    if not done:
        k = began - 1
        if 0 <= k < len(flat) and results[k] is not None and results[k].get("fatal"):
            fatal = dict(index=k, log=log[-6000:], msg=results[k]["res"], site="hang", hang=True)
        elif 0 <= k < len(flat) and results[k] is None:
            msg, site = site_from_log(log)
            fatal = dict(index=k, log=log[-6000:], msg=msg, site=site, hang=False, pre=pres.get(k))
        else:
            msg, site = site_from_log(log)
            fatal = dict(index=min(max(k + 1, 0), len(flat) - 1) if flat else -1, log=log[-6000:], msg="driver failed outside an input (rc=%s): %s" % (rc, msg), site="driver", hang=False, driver=True)
    return flat, results, probes, fatal


# ---------------- monitors on the implementation's answers ----------------

def expected_error(it, r):
    """Classes of requests that the property says must be refused with an error code (>= 400).
    Returns a label or None.  Only classes decidable without a model of the server are listed."""
    dec = r["dec"]
    if dec == "err":
        return "malformed-json"
    if dec == "none":
        return "no-known-kind"
    kind = dec.split("/")[0]
    if "+" in kind or kind not in KNOWN_KINDS or kind == "note":
        return None
    st = r["st"]
    if kind not in ("hi",) and st.startswith("v0"):
        return "out-of-sequence(no hi)"
    if kind in ("pub", "sub", "leave", "get", "set", "del") and "/obo" not in dec and st[2:4] == "u0":
        return "unauthorised(not logged in)"
    if kind in ("pub", "sub", "leave", "get", "set") and "/obo" not in dec and r["topic"] == "":
        return "empty-topic"
    return None


def monitor(cfg, group, items, results):
    """Yields (law, index, detail)."""
    for k, (it, r) in enumerate(zip(items, results)):
        if r is None:
            continue
        if "probe" in r:
            if r["probe"] != "ok":
                yield ("bystander-not-served", k, r["probe"])
            continue
        if "clog" in r:
            # the driver's own sanity: a frame entered a full buffer / the server does not come to rest after the
            # connection reads again
            if r["clog"].startswith("CLOGLEAK"):
                yield ("slow-consumer-driver", k, "a frame entered a send buffer that was full: " + r["clog"])
            elif r["clog"].startswith("HANG"):
                yield ("slow-consumer-hang", k, "after a stuck connection reads again the server does not come to rest: " + r["clog"])
            continue
        if "ak" in r:
            if r["ak"].startswith("PANIC"):
                site = re.search(r"site=(\S+)", r["ak"]).group(1)
                yield ("panic@" + site, k, "checkAPIKey panics (recovered per request by net/http on the HTTP paths: the request is dropped without a reply): " + unhx(r["ak"].split("msg=")[1]))
            continue
        if r["res"].startswith("PANIC:"):
            _, site, msg = r["res"].split(":", 2)
            yield ("read-loop-panic@" + site, k, "panic in the session's read-loop goroutine (no recover in production: the server process dies): " + unhx(msg))
            continue
        if r["term"] or r["dec"] in ("probe1", "pberr", "pbpanic"):
            continue
        if r.get("cl"):
            # the requesting connection is stuck: its replies cannot be queued (Session.queueOut fails on the full
            # buffer) and nothing can be observed on it; only crashes, hangs and the bystander are checked
            continue
        dec = r["dec"]
        kind = dec.split("/")[0]
        single = kind in KNOWN_KINDS
        replies = [f for f in r["frames"] if f[0] in ("c", "m")]
        # {pub} without an id is, by protocol design, not acknowledged when it is accepted (topic.go: "if msg.Id != \"\""):
        # only the {data} echo to attached sessions is sent; it is not counted as an unanswered request
        if ((single and kind != "note") or dec in ("err", "none")) and not (kind == "pub" and r["id"] == ""):
            if not r["frames"]:
                law = "unanswered-" + (kind if single else dec)
                if kind == "leave" and "/obo" in dec and it.sess == "root":
                    # recorded defect (KNOWN_FINDINGS.txt): a root session attached to the topic as ONE user sends {leave} on
                    # behalf of ANOTHER user: handleLeaveRequest finds no session attached as that user and says nothing
                    law = "unanswered-leave-root-obo-other-user"
                yield (law, k, "request got no reply on the requesting session (state %s)" % r["st"])
                continue
        exp = expected_error(it, r)
        if exp is not None:
            if not any(f[0] == "c" and f[1] >= 400 for f in r["frames"]):
                yield ("error-not-silence", k, "%s request answered without an error code: %s" % (exp, r["frames"]))
        if single and kind != "note" and r["id"] != "" and replies and all(unsolicited(f) for f in replies):
            # the only thing the requester was sent is an id-less eviction notice (e.g. {del what=user} of the own
            # account when the write loop takes the stop payload before the queued {ctrl 200}): the handler's
            # answer does not echo the request id
            yield ("id-echo-" + kind, k, "request answered only by an eviction notice that does not carry the request id %r: %s" % (r["id"], replies))
        if single and kind != "note" and r["id"] != "":
            for f in replies:
                if f[2] != r["id"] and not unsolicited(f):
                    law = "id-echo-obo" if "/obo" in dec else "id-echo-" + kind
                    yield (law, k, "reply %s does not carry the request id %r" % (f[:4], r["id"]))
                    break


def unsolicited(f):
    # frames that reach the requesting session but are not replies of the request's handler:
    # eviction notices sent by a topic that is being deleted / by a removed subscription
    return f[0] == "c" and f[1] == 205 and f[2] == "" and f[3] == "evicted"


# ---------------- the fuzz half ----------------

def fuzz(ctx, stats):
    quick = ctx.tier == "quick"
    n_groups = 13 if quick else 160       # 13 x (54 + 2 windows of ~9) = as many generated inputs per configuration as the 16 x 60 of earlier rounds
    glen = 54 if quick else 80         # + two slow-consumer windows of ~9 inputs in every group
    max_restarts = 12 if quick else 60
    total_eval = 0
    if ctx.replay:
        rp = json.load(open(ctx.replay))["replay"]
        cfgs = [rp["cfg"]]
    else:
        cfgs = CONFIGS
    for ci, cfg in enumerate(cfgs):
        rng = ctx.rng
        if ctx.replay:
            rp = json.load(open(ctx.replay))["replay"]
            groups = [[Item(i["op"], i["session"], bytes.fromhex(i["hex"]), ("replay",), gen="replay") for i in rp["inputs"]]]
        else:
            groups = canonical_groups() + (lifecycle_groups() if ci == 0 or not quick else []) + (SLOW.slow_groups(slow_item, clog_item) if ci == 0 or not quick else [])
            for gi in range(n_groups):
                groups.append(gen_group(rng, glen, ["mixed", "mixed", "structured", "raw"][gi % 4] if gi % 8 != 7 else "raw"))
        crashed_shapes = {}
        restarts = 0
        pending = groups
        while pending:
            flat, results, probes, fatal = run_driver(ctx, cfg, pending, "c%d" % ci)
            # map flat index -> (group index, offset)
            pos = []
            for gi, g in enumerate(pending):
                pos += [(gi, j) for j in range(len(g))]
            gstart = {}
            for idx, (gi, j) in enumerate(pos):
                gstart.setdefault(gi, idx)
            for k, pr in probes:
                if pr != "ok":
                    gi, j = pos[k]
                    ctx.violation("monitor", "bystander-not-served", "after input %d of a group the bystander session is no longer served: %s" % (j, pr),
                                  replay_of(cfg, pending[gi][:j + 1], "bystander-not-served", pr))
            upto = fatal["index"] if fatal else len(flat)
            for gi, g in enumerate(pending):
                a = gstart.get(gi, 0)
                its, res = flat[a:a + len(g)], results[a:a + len(g)]
                for law, k, detail in monitor(cfg, g, its, res):
                    single = its[k]
                    ctx.violation("monitor", law, "%s [%s; session %s] input: %s" % (detail, cfg_name(cfg), single.sess, single.show()["bytes"][:300]),
                                  replay_of(cfg, minimise(ctx, cfg, g[:k + 1], law) if law.startswith("read-loop-panic") and stats["minimised"].get(law, 0) < 1 and not ctx.replay else g[:k + 1], law, detail))
                    if law.startswith("read-loop-panic"):
                        stats["minimised"][law] = stats["minimised"].get(law, 0) + 1
                for it, r in zip(its, res):
                    if r is not None:
                        account(stats, cfg, it, r)
                        total_eval += 1
                        if it.msg is not None and "dec" in r and not r.get("cl"):
                            stats.setdefault("model_cases", []).append((cfg, it, r))
            if not fatal:
                break
            gi, j = pos[fatal["index"]] if fatal["index"] >= 0 else (0, 0)
            bad = pending[gi][j]
            if fatal.get("driver"):
                ctx.violation("corr", "driver-crashed", "fuzz driver failed: %s\n%s" % (fatal["msg"], fatal["log"][-1500:]), {"correspondence": "driver run", "log": fatal["log"][-3000:]})
                break
            law = ("read-loop-hang" if fatal["hang"] else "server-crashed") + "@" + fatal["site"]
            small = pending[gi][:j + 1]
            if stats["minimised"].get(law, 0) < 1 and not ctx.replay:
                small = minimise(ctx, cfg, small, law, fatal_site=fatal["site"])
            stats["minimised"][law] = stats["minimised"].get(law, 0) + 1
            ctx.violation("monitor", law, "the server process died (panic outside the read loop: hub/topic goroutine) while handling the input: %s [%s; session %s] input: %s"
                          % (fatal["msg"], cfg_name(cfg), bad.sess, bad.show()["bytes"][:300]),
                          dict(replay_of(cfg, small, law, fatal["msg"]), trace=fatal["log"][-2500:]))
            stats["crashes"].append({"cfg": cfg_name(cfg), "law": law, "input": bad.show()["bytes"][:300]})
            if bad.msg is not None and fatal.get("pre"):
                stats.setdefault("model_cases", []).append((cfg, bad, fatal["pre"]))
            crashed_shapes[bad.shape] = crashed_shapes.get(bad.shape, 0) + 1
            restarts += 1
            if restarts >= max_restarts or ctx.replay:
                stats["aborted_configs"].append(cfg_name(cfg))
                break
            # continue after the fatal input; inputs of a shape that already crashed are skipped (counted)
            rest = [pending[gi][j + 1:]] + pending[gi + 1:]
            newp = []
            for g in rest:
                ng = []
                for it in g:
                    if it.shape in crashed_shapes and it.shape not in (("raw",), ("pb",)):
                        stats["skipped_after_crash"] += 1
                    else:
                        ng.append(it)
                if ng:
                    newp.append(ng)
            pending = newp
    stats["evaluations"] = total_eval


def replay_of(cfg, items, law, detail):
    return {"cfg": cfg, "law": law, "detail": detail, "inputs": [i.show() for i in items],
            "how": "python3 tools/check.py C13 --replay <this file>: rebuilds the population, feeds the inputs in order to the named sessions"}


def minimise(ctx, cfg, items, law, fatal_site=None):
    """Smallest reproducing suffix: the last input alone, else the whole prefix."""
    def reproduces(cand):
        flat, results, probes, fatal = run_driver(ctx, cfg, [cand], "min")
        if fatal_site is not None:
            return fatal is not None and fatal["site"] == fatal_site
        return any(l == law for l, _, _ in monitor(cfg, cand, flat, results))
    cands = [[items[-1]], items[-2:], items[-4:]]
    if any(it.op == "clog" for it in items):
        # slow consumers: the clog / unclog operations of the prefix are kept in front of the last inputs
        for k in (1, 2, 4, 8):
            cands.append([it for it in items[:-k] if it.op in ("clog", "unclog")] + items[-k:])
    for cand in cands:
        if len(cand) < len(items) and reproduces(cand):
            return cand
    return items


def account(stats, cfg, it, r):
    d = stats["dist"]

    def inc(table, key):
        t = d.setdefault(table, {})
        t[key] = t.get(key, 0) + 1
    inc("by_config", cfg_name(cfg))
    inc("by_generator", it.gen)
    if "clog" in r:
        inc("slow_consumer", "%s %s" % (r["op"], r["clog"]))
        return
    if r.get("cl"):
        inc("slow_consumer", "requests sent by a stuck connection")
    for c in r.get("ev", []):
        # attachments a stuck connection lost while this request was handled, by the kind of the request and the
        # category of the topic it was detached from (the request's own {leave} included)
        inc("slow_consumer_detached", "%s%s -> %s" % ("own " if r.get("cl") else "", r["dec"].split("/")[0], c))
    if "probe" in r or "ak" in r:
        inc("by_kind", it.op)
        return
    inc("by_kind", r["dec"].split("/")[0] if r["dec"] not in ("err", "none") else ("(json rejected)" if r["dec"] == "err" else "(no known kind)"))
    inc("by_session_state", r["st"][:6] if r["st"] != "-" else "-")
    codes = [f[1] for f in r["frames"] if f[0] == "c"]
    if r["res"].startswith("PANIC"):
        inc("by_outcome", "PANIC")
    elif not r["frames"]:
        inc("by_outcome", "silent")
    elif codes:
        inc("by_outcome", "ctrl %d" % codes[0])
    else:
        inc("by_outcome", "meta/data")
    if it.msg is not None:
        k = it.shape[0]
        inc("topic_class", it.shape[2])
    if r["dec"] not in ("err", "none") and codes and codes[0] < 300 or (not codes and r["frames"]):
        stats["nontrivial"].add(it.raw)


# ---------------- model correspondence (proof half) ----------------

def run(ctx):
    stats = {"dist": {}, "nontrivial": set(), "crashes": [], "aborted_configs": [], "skipped_after_crash": 0, "minimised": {}, "evaluations": 0}
    have_coq = os.path.exists(os.path.join(vlib.COQ, "Props", "PropC13.v"))
    if have_coq:
        ctx.coq_props()
        vlib.proof_violation(ctx)
    t0 = time.time()
    ok, out = ctx.build_main()
    if not ok:
        ctx.violation("corr", "harness-build-broken", "package-main driver no longer builds against the repository: " + out[-1500:],
                      {"correspondence": "build of harness/overlay against server/"})
        ctx.finish()
    x_replay = bool(ctx.replay) and json.load(open(ctx.replay)).get("replay", {}).get("part") == "c13x"
    ev_replay = bool(ctx.replay) and json.load(open(ctx.replay)).get("replay", {}).get("part") == "c13evict"
    if not x_replay and not ev_replay:
        fuzz(ctx, stats)
    t_fuzz = time.time() - t0
    if x_replay or (not ctx.replay):
        # slow consumers / request slot and held topic load: structured driver + models Inflight.v, HeldLoad.v
        from props import c13x
        t1 = time.time()
        c13x.run_part(ctx, stats)
        stats["c13x"]["wall_s"] = round(time.time() - t1, 1)
    if ev_replay or not ctx.replay:
        # the session store and the stop notice: structured driver TestVerifC13Evict + model EvictStoreC13.v
        from props import c13evict
        t1 = time.time()
        c13evict.run_part(ctx, stats)
        stats["c13evict"]["wall_s"] = round(time.time() - t1, 1)
    if not ctx.replay:
        from props import c13drafty
        c13drafty.run(ctx, stats, have_model=have_coq)
        # push receipts through the code shared by the fcm / tnpg adapters + model PushPreviewC13.v
        from props import c13push
        c13push.run(ctx, stats, have_model=have_coq)
    if have_coq and not ctx.replay:
        from props import c13model
        c13model.correspondence(ctx, stats)
    d = stats["dist"]
    kinds = d.get("by_kind", {})
    total = max(1, sum(kinds.values()))
    if not ctx.replay:
        # every broadcast path must have met a full send queue in this run (coverage note, not a verdict)
        det = d.get("slow_consumer_detached", {})
        for need in ("pub -> grp", "pub -> me", "pub -> p2p", "note -> grp", "set -> me", "del -> grp"):
            if not det.get(need):
                ctx.notes.append("slow consumers: no stuck connection was detached by '%s' in this run" % need)
    ctx.coverage.update({
        "split": {
            "proof_half": "obligations/discharged below count the theorems of coq/Props/PropC13.v (modelled panic sites, reply totality, id echo, error-not-silence at session/hub routing level); model tied to the code by the extracted-model correspondence run (model_correspondence)",
            "proof_half_drafty": "theorems c13_drafty_* over coq/Pure/Drafty.v (toTree / forEach / PlainText / Preview never panic, for every decoded document); tied to the code by running the extracted model and drafty.PlainText / drafty.Preview on the same generated documents (drafty_fuzz: outcome class, plain text, preview compared; law drafty-panic on the implementation's answers)",
            "proof_half_push_preview": "theorems c13_push_preview_* over coq/Pure/PushPreviewC13.v (payloadToData's trimming of the plain-text preview to 128 runes never slices beyond the rune length, for every text; the byte-length-only variant refuted, its trigger characterised exactly); tied to the code by harness/ext/c13push.go (fcm.PrepareV1Notifications(rcpt, nil) = the tnpg adapter's call, under recover, above a fake store.Devices) and the extracted model on the units of the same plain texts (push_payload: exact bytes of data[content] compared; law no-panic-push-payload on the implementation's outcomes)",
            "proof_half_slot_and_held_load": "theorems c13_inflight_* / c13_evict_without_init_test_* over coq/Sys/Inflight.v (every Add / Done site of Session.inflightReqs incl. the slow-consumer drop of broadcastToSessions, as an interleaving model) and c13_held_load_* over coq/Sys/HeldLoad.v (requests queued for a topic that is being loaded; who is answered with which id when the load ends); tied to the code by the structured driver TestVerifC13x (slow_consumers_and_held_load below: state after every operation / frames per session compared with the extracted models; laws inflight-slot-not-free, id-echo-held-load, unanswered-held-*, answered-twice-held-* on the implementation's trace)",
            "testing_half": "evaluations/input_distribution below are the malformed-stream fuzz (TestVerifFuzz, now with slow consumers: connections whose send queue is full): TESTING IN SUPPORT, no proof about Go code outside the models",
        },
        "evaluations": stats["evaluations"] + stats.get("drafty", {}).get("evaluations", 0) + stats.get("push", {}).get("evaluations", 0),
        "distinct_nontrivial": len(stats["nontrivial"]),
        "rule": "per configuration of (media handler, calls, validators) in {0,1}^3: corpus of confirmed triggers, then seeded groups of %s inputs (profiles mixed/structured/raw) over sessions in states nohi/hi/in/att/peer/root of a population rebuilt per group through the real {sub}/{pub} paths; structured = all ten kinds with every field drawn from boundary pools (tools/props/c13gen.py); raw = random bytes, truncated/mutated JSON, wrong types, nesting up to 100000, huge/ill-formed numbers, invalid UTF-8, duplicate/upper-case keys, multi-kind messages; plus protobuf ClientMsg through pbCliDeserialize and API keys through checkAPIKey; non-trivial = accepted (2xx or meta/data answer)" % ("54+18" if ctx.tier == "quick" else "80+18"),
        "traces_validated_against_impl": stats["evaluations"],
        "input_distribution": dict(d, share_rejected_at_json_level=round(kinds.get("(json rejected)", 0) / total, 4)),
        "fuzz_wall_s": round(t_fuzz, 1),
        "server_crashes": stats["crashes"][:20], "configs_aborted_after_restart_cap": stats["aborted_configs"],
        "inputs_skipped_because_their_shape_already_crashed": stats["skipped_after_crash"],
        "drafty_fuzz": stats.get("drafty"),
        "push_payload": stats.get("push"),
        "slow_consumers_and_held_load": stats.get("c13x"),
        "session_store_and_stop_notice": stats.get("c13evict"),
        "model_correspondence": stats.get("model"),
        "open_statements": [
            "c13_no_panic_statement (code as it is): REFUTED by the model and by the implementation (c13_no_panic_refuted, c13_witnesses); the full theorem c13_no_panic holds for the code after findings/C13_*.diff only",
            "c13_id_echo_statement: REFUTED (extra.obo rejected before the id is read; known finding id-echo-obo); c13_id_echo_partial proved",
            "exactness of the trigger predicate (trigger -> panic) is shown by one witness per site, not for all inputs",
            "error code >= 400 for ill-formed / non-existent topic names is not stated: the implementation answers 3xx in some paths (reply, not silence)",
            "c13_drafty_unrepaired_statement (range check before /repo 6cc931e) and c13_default_access_unrepaired_statement (getDefaultAccess before /repo f52b053): REFUTED by vm_compute witnesses; both repairs are in /repo, the full theorems hold for the code as it is",
            "c13_evict_without_init_test_statement (Topic.unregisterSession without the test of msg.init): REFUTED by a vm_compute witness; the code as it is has the test, the full theorem c13_inflight_no_panic holds",
            "c13_held_load_join_id_statement (clientMsg drain of topicInit answering with join.Id): REFUTED by a vm_compute witness; the code as it is answers with msg.Id, c13_held_load_id_echo holds",
            "c13_held_load_answered_statement (code as it is): REFUTED by the model and on the implementation (known findings unanswered-sub-p2p-deleted-while-loading, unanswered-deltopic-owner-while-loading; topicinit-stuck-p2p-deleted-while-loading is outside the models); c13_held_load_answered_partial proved",
            "Inflight.v has no topic unload / deletion / re-creation (C14's model); HeldLoad.v models ONE load; reply codes below the routing level are an oracle",
            "c13_push_preview_bytes_only_statement (payloadToData without the rune-length test): REFUTED by a vm_compute witness (65 Cyrillic letters); the code as it is has the test, the full theorem c13_push_preview_no_panic holds; c13_push_preview_bytes_only_partial gives the exact trigger",
            "panic-freedom of Go code outside the models (JSON decoding, in-topic handlers below the modelled sites, store mappers, auth handlers, the push adapters apart from the preview trimming): not provable here, fuzz only",
        ],
        "trusted_base": [
            "harness/overlay/server/zz_verif_c13_test.go (population, recover wrapper = stand-in for the recover-less read loops, quiescence detector of zz_verif_topic_test.go, stub media handler / validator), memverif adapter",
            "tools/props/c13.py monitors (python restatement of the property on the implementation's answers), c13gen.py / c13slow.py generators",
            "harness/overlay/server/zz_verif_c13x_test.go (clog = the session's drain loop stopped and its send buffer filled to capacity; held load = memverif call hook zz_hook.go parking the first adapter call made after the {sub}; hub-level quiescence while the load is held), harness/runner/r_c13x.ml (mapping of driver operations to model labels; presence broadcasts' choice of stuck connections taken from the implementation), tools/props/c13x.py (laws, comparison)",
            "harness/ext/c13.go (drafty.PlainText / Preview each under recover; its re-implementation of decodeAsDrafty / decodeAsStyle / decodeAsEntity and the uniseg segmentation hand the model the decoded document), harness/runner/r_c13d.ml, tools/props/c13drafty.py (comparison, TrimSpace applied to the model's text)",
            "harness/ext/c13push.go (receipt construction, fake store.Devices, its UTF-8 unit decoder = utf8.DecodeRuneInString, recover), harness/runner/r_c13p.ml, tools/props/c13push.py (generator, UTF-8 encoding of the model's runes, comparison)",
            "NOT proved: panic-freedom of Go code outside the two models (encoding/json, drafty's decoder and copyLight, topic handlers below the modelled sites, store mappers, auth handlers): covered only by the fuzz runs above",
        ],
    })
    ctx.finish()
