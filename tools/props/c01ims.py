"""C01, clause 'the number acknowledged to the publisher is the number every recipient and every later history or
description query shows for that message' - two parts of the C01 check:

run_ims      description queries WITH OPTIONS on a group topic: {get what=desc desc={ims, limit, user}},
             {sub get={what=desc desc={ims}}}, the owner's {set desc public} (moves the topic's metadata timestamp
             t.updated, against which the If-Modified-Since option is tested), unload / restart / faults.
             Model coq/Sys/TopicImsC01.v (wrapper over the group-topic model; theorems c01_desc_options_* of
             PropC01.v), driver harness/overlay/server/zz_verif_c01i_test.go, runner harness/runner/r_c01i.ml.
             The C01 trace laws (c01.monitor) plus desc-seq-same-for-every-option are evaluated on the
             IMPLEMENTATION's trace.

run_channel  channel subscriptions as recipients: the group-topic model has none, so the clause is judged on the
             fan-out slice built for C02 (coq/Sys/Fanout.v; theorems re-stated in PropC01.v as
             c01_every_recipient_shows_acknowledged / c01_channel_subscriptions_are_recipients /
             c01_recipient_numbers_increasing): the C02 driver (zz_verif_c02_test.go: plain group /
             channel-enabled group / p2p topics, sessions attached under the grpXXX or chnXXX name), the same
             extracted model, and C01's number laws evaluated on the IMPLEMENTATION's frames."""
import json
import os
import re
import subprocess
import time
import vlib
from props import statelib
from props import topiclib as T
from props.statelib import kvs

IMS_KINDS = ["a", "z", "o", "j", "e", "n", "f"]
IMS_BEFORE = ("z", "o", "j")
IMS_NOT_BEFORE = ("e", "n", "f")
NEW_KINDS = ("getdesci", "subdesc", "setpub")


# ---------------------------------------------------------------------------------------------
# part 1: options of a description query

def gen_ims_scn(rng, sid, faults):
    sc = T.gen_setup(rng, sid, "msg")
    # the generic head draws the default access at random; most members must be readers for the clause to bite
    sids = sorted(sc.sessions)
    owner_s = [s for s in sids if sc.sessions[s] == 1]
    ops = []

    def flt():
        if faults and rng.random() < faults:
            return rng.choice(["F", "F", "C"]) + str(rng.randint(1, 4))
        return "N"

    def ims(not_before_bias=0.55):
        r = rng.random()
        if r < 0.12:
            return "a"
        if r < 0.12 + (1 - 0.12) * not_before_bias:
            return rng.choice(IMS_NOT_BEFORE)
        return rng.choice(IMS_BEFORE)

    def bad():
        return rng.choice([0] * 14 + [1, 2])

    for s in sids:
        r = rng.random()
        if r < 0.45:
            ops.append(("N", "sub", [s, "-", 0]))
        elif r < 0.85:
            ops.append(("N", "subdesc", [s, "-", 0, ims(), bad()]))
    for _ in range(rng.randint(8, 22)):
        s = rng.choice(sids)
        r = rng.random()
        if r < 0.28:
            ops.append((flt(), "pub", [s, 100 + len(ops), 1 if rng.random() < 0.2 else 0]))
        elif r < 0.50:
            ops.append((flt(), "getdesci", [s, ims(), bad()]))
        elif r < 0.58:
            # the same connection asks twice in a row with different options: the numbers must be the same
            ops.append(("N", "getdesci", [s, "a", 0]))
            ops.append(("N", "getdesci", [s, rng.choice(IMS_KINDS[1:]), 0]))
        elif r < 0.63:
            ops.append((flt(), "getdesc", [s]))
        elif r < 0.72:
            who = rng.choice(owner_s) if owner_s and rng.random() < 0.85 else s
            ops.append((flt(), "setpub", [who, rng.randint(2, 9)]))
        elif r < 0.80:
            ops.append((flt(), "subdesc", [s, "-", 0, ims(), bad()]))
        elif r < 0.85:
            ops.append(("N", "leave", [s, 0]))
        elif r < 0.885:
            ops.append((flt(), "getdata", [s, 0, 0, 0]))
        elif r < 0.93:
            # idle unload and re-attach with a description query in the {sub}
            for y in sids:
                ops.append(("N", "leave", [y, 0]))
            ops.append(("N", "unload", []))
            ops.append((flt(), "subdesc", [rng.choice(sids), "-", 0, ims(), 0]))
        elif r < 0.97:
            ops.append(("N", "unload", []))
        else:
            ops.append(("N", "restart", []))
    sc.ops = ops
    return sc


def ims_run_impl(ctx, scns, tag="i"):
    fin = os.path.join(ctx.work, "iscn_%s.in" % tag)
    fout = os.path.join(ctx.work, "iscn_%s.impl" % tag)
    with open(fin, "w") as f:
        for sc in scns:
            f.write("\n".join(sc.lines()) + "\n")
    if os.path.exists(fout):
        os.remove(fout)
    env = dict(vlib.GOENV, VERIF_IN=fin, VERIF_OUT=fout)
    p = subprocess.run([os.path.join(vlib.BUILD, "maindrv.test"), "-test.run", "^TestVerifC01i$", "-test.count=1", "-test.timeout=3000s"],
                       stdout=subprocess.PIPE, stderr=subprocess.STDOUT, env=env, cwd=os.path.join(vlib.REPO, "server"), timeout=3400)
    out = p.stdout.decode("utf8", "replace")
    lines = open(fout).read().split("\n") if os.path.exists(fout) else []
    log = "\n".join(l for l in out.split("\n") if not (len(l) > 3 and l[0] in "IWE" and l[1:3] == "20"))
    return p.returncode, T.parse_blocks(lines), log


def ims_run_model(ctx, scns):
    lines = []
    for sc in scns:
        lines += sc.lines()
    rc, out, err = ctx.run_model("c01i", lines)
    flat = []
    for o in out:
        flat += o.split("\n")
    return rc, T.parse_blocks(flat), err


def ims_frame(t):
    """C01's projection of a frame: acknowledgements, data copies, the numbers of a description"""
    if t.startswith("ctrl 202") or t.startswith("data "):
        return t
    if t.startswith("desc "):
        return re.sub(r" created=\S+ pub=\S+", "", t)
    return None


def ims_line(kind, l):
    if kind == "store":
        if l.startswith("topic "):
            return l.split(" delid=")[0]
        if l.startswith("msg "):
            return re.sub(r" delid=\S+", "", re.sub(r" content=\S+", "", l))
        return None
    if l.startswith("lastid"):
        return l.split(" delid=")[0]
    return None


def ims_project(op):
    fr = {}
    for sid, t in op["frames"]:
        n = ims_frame(t)
        if n and sid != 0:
            fr.setdefault(sid, []).append(n)
    store = [x for x in (ims_line("store", l) for l in op["store"]) if x]
    cache = [x for x in (ims_line("cache", l) for l in op["cache"]) if x]
    return {"frames": fr, "store": store, "cache": cache, "loaded": op["loaded"], "calls": op["calls"]}


def ims_extras(op):
    """the parts of a description that the options control (compared for the evidence only)"""
    return sorted((sid, " ".join(re.findall(r"(?:created|pub)=\S+", t))) for sid, t in op["frames"] if t.startswith("desc ") and "created=" in t)


def ims_monitor(base_monitor, sc, blocks):
    views = [statelib.View(b) for b in blocks]
    res = base_monitor(sc, views)
    for k, b in enumerate(blocks):
        if b["hang"]:
            res.append(("hang", k, b["hang"]))
    # the same connection, two description queries in a row (nothing in between, no fault): the options change no number
    for k in range(1, len(sc.ops)):
        f0, k0, a0 = sc.ops[k - 1]
        f1, k1, a1 = sc.ops[k]
        if k0 == "getdesci" and k1 == "getdesci" and f0 == "N" and f1 == "N" and a0[0] == a1[0] and int(a0[2]) == 0 and int(a1[2]) == 0:
            d0 = [kvs(t) for s, t in blocks[k - 1]["frames"] if s == a0[0] and t.startswith("desc ")]
            d1 = [kvs(t) for s, t in blocks[k]["frames"] if s == a1[0] and t.startswith("desc ")]
            if len(d0) == 1 and len(d1) == 1 and d0[0]["seq"] != d1[0]["seq"]:
                res.append(("desc-seq-same-for-every-option", k,
                            "connection %s asked for the description twice in a row: with ims=%s it shows seq=%s, with ims=%s seq=%s"
                            % (a0[0], a0[1], d0[0]["seq"], a1[1], d1[0]["seq"])))
    # a description query with well-formed options is answered with a description (never silently, never with an error)
    for k, (f, kind, a) in enumerate(sc.ops):
        if kind == "getdesci" and f == "N" and int(a[2]) == 0:
            got = [t for s, t in blocks[k]["frames"] if s == a[0] and (t.startswith("desc ") or t.startswith("ctrl "))]
            if not any(t.startswith("desc ") for t in got) and not any(t.startswith("ctrl 404") for t in got):
                res.append(("desc-query-answered", k, "description query of connection %s with ims=%s answered with %s" % (a[0], a[1], got)))
    return res


def restore(rp):
    sc = T.Scn(rp["head"][0].split()[1])
    sc.head = rp["head"]
    sc.ops = [tuple(o) for o in rp["ops"]]
    return statelib.restore_sessions(sc)


def run_ims(ctx, base_monitor):
    quick = ctx.tier == "quick"
    rng = ctx.rng
    if ctx.replay:
        scns = [restore(json.load(open(ctx.replay))["replay"])]
    else:
        n = 90 if quick else 3000
        scns = [gen_ims_scn(rng, "i%d" % i, 0.0 if i % 3 else 0.2) for i in range(n)]
    t0 = time.time()
    rc, impl, log = ims_run_impl(ctx, scns)
    t_impl = time.time() - t0
    bad = next((sc for sc in scns if sc.id not in impl or len(impl[sc.id]) != len(sc.ops)), None)
    if rc != 0 or bad is not None:
        ctx.violation("monitor", "server-crashed", "the server process died or stopped answering while running description-options scenario %s: %s"
                      % (bad.id if bad else "?", log[-1500:]),
                      {"part": "ims", "head": bad.head if bad else [], "ops": bad.ops if bad else [], "log": log[-4000:]})
        return
    rc, model, err = ims_run_model(ctx, scns)
    if rc != 0:
        ctx.violation("proof", "runner-crashed", "model runner (c01i) failed: " + err[-1500:], {"theorem_or_obligation": "model runner c01i"})
        return

    def mon(sc, blocks):
        return ims_monitor(base_monitor, sc, blocks)

    fails = []
    for sc in scns:
        for law, k, detail in mon(sc, impl[sc.id]):
            fails.append((sc, law, k, detail))
    known = {f["key"] for f in ctx.load_findings() if f["property"] == ctx.pid}
    seen = {}
    for sc, law, k, detail in fails:
        seen.setdefault(law, []).append((sc, k, detail))
    nshrunk = 0
    for law, lst in seen.items():
        sc, k, detail = min(lst, key=lambda x: (x[1], len(x[0].ops)))
        small = sc.clone(sc.ops[:k + 1])
        if nshrunk < 3 and not ctx.replay and law not in known:
            nshrunk += 1

            def still_bad(c, law=law):
                rc2, im2, _ = ims_run_impl(ctx, [c], tag="shrink")
                return rc2 == 0 and c.id in im2 and len(im2[c.id]) == len(c.ops) and any(l == law for l, _, _ in mon(c, im2[c.id]))
            small = T.shrink(ctx, small, still_bad, budget=15 if quick else 120)
            rc2, im2, _ = ims_run_impl(ctx, [small], tag="shrink")
            dd = [d for l, _, d in mon(small, im2.get(small.id, [])) if l == law] if rc2 == 0 and small.id in im2 and len(im2[small.id]) == len(small.ops) else []
            detail = dd[0] if dd else detail
        ctx.violation("monitor", law, "law %s fails on the implementation's trace of a group topic queried with description options (%d scenarios this run): %s"
                      % (law, len(lst), detail),
                      {"part": "ims", "head": small.head, "ops": small.ops, "law": law, "detail": detail, "scenarios_failing": len(lst)})
    mism, extras_mism = [], 0
    for sc in scns:
        io, mo = impl[sc.id], model.get(sc.id, [])
        if len(io) != len(mo):
            mism.append((sc, -1, "shape %d/%d" % (len(io), len(mo))))
            continue
        for k in range(len(io)):
            a, b = ims_project(io[k]), ims_project(mo[k])
            if a != b:
                mism.append((sc, k, {key: (a[key], b[key]) for key in a if a[key] != b[key]}))
                break
            if ims_extras(io[k]) != ims_extras(mo[k]):
                extras_mism += 1
    fails = [f for f in fails if f[1] not in known]
    searched = 0
    if mism and not fails:
        sc, k, d = min(mism, key=lambda x: (x[1] if x[1] >= 0 else 10 ** 6, len(x[0].ops)))
        base = sc.clone(sc.ops[:k + 1]) if k >= 0 else sc
        sids = sorted(sc.sessions)
        pool = []
        for j in range(40 if quick else 400):
            c = base.clone(list(base.ops))
            c.id = "n%d" % j
            c.head = [re.sub(r"^scn \S+", "scn " + c.id, base.head[0])] + base.head[1:]
            extra = []
            for _ in range(rng.randint(1, 6)):
                x = rng.choice(sids)
                extra.append(rng.choice([("N", "pub", [x, 900 + len(extra), 0]), ("N", "getdesci", [x, rng.choice(IMS_KINDS), 0]),
                                         ("N", "subdesc", [x, "-", 0, rng.choice(IMS_KINDS), 0]), ("N", "getdata", [x, 0, 0, 0]),
                                         ("N", "setpub", [x, rng.randint(2, 9)]), ("N", "leave", [x, 0]), ("N", "unload", []), ("N", "restart", []),
                                         ("N", "getdesci", [x, rng.choice(IMS_NOT_BEFORE), 0])]))
            c.ops = list(base.ops) + extra
            pool.append(c)
        rc2, im2, _ = ims_run_impl(ctx, pool, tag="search")
        searched = len(pool)
        if rc2 == 0:
            for c in pool:
                if c.id in im2 and len(im2[c.id]) == len(c.ops):
                    hit = [h for h in mon(c, im2[c.id]) if h[0] not in known]
                    if hit:
                        law, kk, detail = hit[0]
                        ctx.violation("monitor", law, "law %s fails on the implementation's trace of a group topic queried with description options: %s" % (law, detail),
                                      {"part": "ims", "head": c.head, "ops": c.ops[:kk + 1], "law": law, "detail": detail,
                                       "found_by": "search near a correspondence mismatch"})
                        fails.append((c, law, kk, detail))
                        break
        if not fails:
            ctx.violation("corr", "correspondence-desc-options-" + (sc.ops[k][1] if k >= 0 else "shape"),
                          "model (Sys/TopicImsC01.v) and implementation disagree on %d of %d histories with description options on C01's projection; first (prefix): op %d %s: %s; no law failure found on %d neighbouring histories"
                          % (len(mism), len(scns), k, sc.ops[k] if k >= 0 else "", json.dumps(d, default=str)[:800], searched),
                          {"part": "ims", "correspondence": "projection of C01 on histories with description options", "head": base.head, "ops": base.ops, "diff": d})
    # coverage, measured on the implementation's trace
    kinds, opts, shown = {}, {}, {}
    nops, acks = 0, 0
    nt = set()
    for sc in scns:
        sig = []
        floor = 0
        moved = False
        for k, o in enumerate(sc.ops):
            nops += 1
            b = impl[sc.id][k]
            kinds[o[1]] = kinds.get(o[1], 0) + 1
            for sid, t in b["frames"]:
                if t.startswith("ctrl 202 seq"):
                    acks += 1
                    floor = max(floor, int(kvs(t)["seq"]))
            if o[1] == "setpub" and any(t.startswith("ctrl 200") for s, t in b["frames"]):
                moved = True
            if o[1] in ("getdesci", "subdesc"):
                i = o[2][1] if o[1] == "getdesci" else o[2][3]
                cls = "absent" if i == "a" else "before" if i in IMS_BEFORE else "not-before"
                for sid, t in b["frames"]:
                    if t.startswith("desc ") and "created=" in t:
                        d = kvs(t)
                        key = "%s:%s%s%s" % (o[1], cls, " after-set-desc" if moved else "", " messages-published" if floor else "")
                        opts[key] = opts.get(key, 0) + 1
                        if int(d["seq"]) > 0:
                            shown[cls] = shown.get(cls, 0) + 1
            sig.append((o, tuple(b["frames"])))
        if floor:
            nt.add(hash(tuple(map(repr, sig))))
    ctx.coverage["description_options"] = {
        "evaluations": len(scns), "distinct_nontrivial": len(nt), "operations_executed": nops,
        "rule": "seeded random histories over one group topic (head as in the topic-history generator: 2-5 users x 1-2 connections, member modes incl. read-less / write-less): sub / {sub get=desc desc={ims}} / pub / {get desc desc={ims[,limit|user]}} with ims absent | zero | 2001 | t.updated-1ms | t.updated | now | +1h / two queries in a row with different options / {get desc} / owner's (sometimes a member's) {set desc public} / leave / get data / idle unload and re-attach with a query in the {sub} / restart; a third of the histories with a failing (F k) or crashing (C k) adapter call k=1..4 on random requests; non-trivial = at least one acknowledged number; distinct by (ops, replies)",
        "acknowledged_numbers": acks, "op_kinds": kinds, "answers_by_option": opts, "answers_showing_a_number_by_option": shown,
        "correspondence_mismatches": len(mism), "option_controlled_parts_mismatches (created/public, not part of C01's projection)": extras_mism,
        "monitor_failures": len(fails), "search_pool": searched, "impl_wall_s": round(t_impl, 1),
        "samples": [{"head": sc.head, "ops": sc.ops} for sc in scns[:1]],
    }


# ---------------------------------------------------------------------------------------------
# part 2: channel subscriptions as recipients (fan-out slice of C02)

def chan_monitor(c02, sc, views):
    """C01's number laws on one fan-out history (implementation's frames): the acknowledged number is the number of
    every copy at every recipient - connections attached under the channel name included - and of the push receipt;
    acknowledged numbers are consecutive and never reused; every connection sees strictly increasing numbers."""
    res = []
    prev = c02.View([])
    last_ack = None
    acked = set()
    inc = {}
    clogged = set()
    for k, v in enumerate(views):
        kind, args = sc.ops[k]
        if v.hang:
            res.append(("hang", k, v.hang))
        if v.skipped:
            prev = c02.carry(prev, v)
            continue
        s = int(args[0])
        for x, d in (v.data if kind == "pub" else []):      # live copies only (history answers: run_queries)
            if x in inc and d["seq"] <= inc[x]:
                res.append(("recipient-numbers-increasing", k, "connection %d (%s) received number %d after number %d"
                            % (x, "channel subscription" if prev.att.get(x, (0, False))[1] else "subscriber", d["seq"], inc[x])))
            inc[x] = d["seq"]
        if kind == "clog":
            clogged.add(s)
        elif kind in ("unclog", "disc"):
            clogged.discard(s)
        if kind == "disc":
            inc.pop(s, None)
        if kind != "pub":
            prev = c02.carry(prev, v)
            continue
        hasid = int(args[4]) == 1
        cur = prev.lastid if (k > 0 and views[k - 1].loaded) else None     # lastID right before this publish, if the topic was loaded
        if cur is None:
            last_ack, acked = None, set()      # (re)created or reloaded topic: judged by the main part of the check
        acks = [q for x, c, mine, q in v.ctrl if x == s and mine and c == 202]
        seq = acks[0] if acks else None
        if not hasid and cur is not None and v.loaded and v.lastid == cur + 1:
            seq = v.lastid          # a publish without id is not acknowledged: the number is the new lastID
        if seq is None:
            prev = c02.carry(prev, v)
            continue
        if acks:
            if seq in acked:
                res.append(("number-issued-twice", k, "number %d acknowledged twice" % seq))
            acked.add(seq)
        if cur is not None and seq != cur + 1:
            res.append(("numbers-consecutive", k, "number %d issued, lastID was %d" % (seq, cur)))
        last_ack = seq
        if v.loaded and v.lastid != seq:
            res.append(("ack-number-is-lastid", k, "number %d issued, lastID afterwards %d" % (seq, v.lastid)))
        for x, d in v.data:
            if d["seq"] != seq:
                u, ch = prev.att.get(x, (0, False))
                res.append(("recipient-shows-acknowledged-number", k,
                            "copy to connection %d (user %d, %s) carries number %d, acknowledged number %d"
                            % (x, u, "attached under the channel name" if ch else "attached under the group name", d["seq"], seq)))
        for pr in v.push:
            if pr["seq"] != seq:
                res.append(("push-shows-acknowledged-number", k, "push receipt names number %d, acknowledged number %d" % (pr["seq"], seq)))
        # every attached channel subscription is a recipient (unless it is the publishing connection with no echo, or stuck)
        noecho = int(args[3]) == 1
        got = {x for x, d in v.data}
        for x, (u, ch) in prev.att.items():
            if ch and x not in clogged and not (noecho and x == s) and x not in got:
                res.append(("channel-subscription-is-recipient", k, "connection %d attached under the channel name got no copy of message %d" % (x, seq)))
        prev = c02.carry(prev, v)
    return res


def run_channel(ctx):
    from props import c02
    quick = ctx.tier == "quick"
    if ctx.replay:
        scns = [c02.Scn.from_replay(json.load(open(ctx.replay))["replay"]["scenario"], "replay")]
    else:
        scns = [c02.mk(*c, sid="c%d" % i) for i, c in enumerate(c02.CORPUS)]
        # channel-enabled topics mostly: regenerate until the share is high
        want = 70 if quick else 1500
        pool = c02.gen_scenarios(ctx, int(want * 1.6), prefix="h")
        chn = [sc for sc in pool if sc.kind == "chn"]
        rest = [sc for sc in pool if sc.kind != "chn"]
        scns += chn[:int(want * 0.8)] + rest[:want - min(len(chn), int(want * 0.8))]
    t0 = time.time()
    rc, impl, log = c02.run_impl(ctx, scns, tag="c01chan")
    t_impl = time.time() - t0
    bad = next((sc for sc in scns if sc.id not in impl or len(impl[sc.id]) != len(sc.ops)), None)
    if rc != 0 or bad is not None:
        ctx.violation("monitor", "server-crashed", "the server process died or stopped answering in the channel-recipients part (scenario %s): %s"
                      % (bad.id if bad else "?", log[-1200:]), {"part": "chan", "scenario": bad.replay() if bad else {}})
        return
    rc, model, err = c02.run_model(ctx, scns)
    seen = {}
    for sc in scns:
        for law, k, detail in chan_monitor(c02, sc, impl[sc.id]):
            seen.setdefault(law, []).append((sc, k, detail))
    known = {f["key"] for f in ctx.load_findings() if f["property"] == ctx.pid}
    nshrunk = 0
    for law, lst in seen.items():
        sc, k, detail = min(lst, key=lambda x: (x[1], len(x[0].sessions)))
        small = sc.clone(sc.ops[:k + 1])
        if nshrunk < 3 and not ctx.replay and law not in known:
            nshrunk += 1

            def still_bad(c, law=law):
                rc2, im2, _ = c02.run_impl(ctx, [c], tag="c01chanshrink")
                return rc2 == 0 and c.id in im2 and len(im2[c.id]) == len(c.ops) and any(l == law for l, _, _ in chan_monitor(c02, c, im2[c.id]))
            small = c02.shrink(small, still_bad, 10 if quick else 120)
            rc2, im2, _ = c02.run_impl(ctx, [small], tag="c01chanshrink")
            dd = [d for l, _, d in chan_monitor(c02, small, im2.get(small.id, [])) if l == law]
            detail = dd[0] if dd else detail
        ctx.violation("monitor", law, "law %s fails on the implementation's frames of a %s topic (%d requests this run): %s"
                      % (law, {"chn": "channel-enabled group", "grp": "group", "p2p": "peer-to-peer"}.get(sc.kind, sc.kind), len(lst), detail),
                      {"part": "chan", "scenario": small.replay(), "law": law, "detail": detail, "scenarios_failing": len(set(x[0].id for x in lst))})
    mism = 0
    if rc == 0:
        for sc in scns:
            mo = model.get(sc.id, [])
            for k, o in enumerate(sc.ops):
                if k >= len(mo) or mo[k].oos:
                    break
                if o[0] != "pub":
                    continue
                iv, mv = impl[sc.id][k], mo[k]
                def nums(v):
                    pj = c02.proj(sc, k, v)      # C02's projection of a publish; only the numbers are read here
                    return ([(x, dict(f)["seq"]) for x, f in pj["copies"]], [list(q) for q in pj["ack"]], [q[0] for q in pj["push"]],
                            v.lastid if v.loaded else None)
                a, b = nums(iv), nums(mv)
                # lastID is compared only when the topic is loaded on both sides (the fan-out model has no notion of an
                # unloaded topic: a publish refused with 409 before anybody attached leaves the real topic unloaded)
                if a[3] is None or b[3] is None:
                    a, b = a[:3], b[:3]
                if a != b:
                    mism += 1
                    if not seen:
                        ctx.violation("corr", "correspondence-recipient-numbers",
                                      "fan-out model (Sys/Fanout.v) and implementation disagree on the numbers of a publish: op %d %s: implementation (copies, ack, push, lastID) %s, model %s"
                                      % (k, o, json.dumps(a)[:400], json.dumps(b)[:400]),
                                      {"part": "chan", "correspondence": "recipients and numbers of a publish (Fanout.v)", "scenario": sc.clone(sc.ops[:k + 1]).replay()})
                    break
    else:
        ctx.violation("proof", "runner-crashed", "model runner (c02) failed: " + err[-1000:], {"theorem_or_obligation": "model runner c02"})
    pubs = copies = chan_copies = 0
    topics = {}
    for sc in scns:
        topics[sc.kind] = topics.get(sc.kind, 0) + 1
        prev = c02.View([])
        for k, (kind, args) in enumerate(sc.ops):
            v = impl[sc.id][k]
            if kind == "pub" and v.data:
                pubs += 1
                copies += len(v.data)
                chan_copies += sum(1 for x, d in v.data if prev.att.get(x, (0, False))[1])
            prev = c02.carry(prev, v)
    ctx.coverage["channel_recipients"] = {
        "evaluations": len(scns), "topic_kinds": topics, "publishes_with_copies": pubs, "copies": copies,
        "copies_to_channel_subscriptions": chan_copies, "law_failures": sum(len(v) for v in seen.values()),
        "correspondence_mismatches": mism, "impl_wall_s": round(t_impl, 1),
        "rule": "the 3 hand-written histories of the C02 corpus + seeded model-guided fan-out histories (tools/props/c02.py generator) selected so that about 80% run on a channel-enabled group (owner, members, stored channel readers; connections attached under the grpXXX or the chnXXX name), the rest on plain groups and p2p topics; laws: recipient-shows-acknowledged-number, push-shows-acknowledged-number, ack-number-is-lastid, numbers-consecutive, number-issued-twice, recipient-numbers-increasing, channel-subscription-is-recipient",
    }


# ---------------------------------------------------------------------------------------------
# part 3: later queries ({get desc}, {get data}) of channel subscriptions, p2p participants and sessions acting on
# behalf of a user.  Model coq/Sys/FanoutQueryC01.v (theorems c01_query_* of PropC01.v), driver
# harness/overlay/server/zz_verif_c01q_test.go (the C02 fan-out driver's scenarios + qdesc / qdata), runner c01q.

def q_run_impl(ctx, c02, scns, tag="q"):
    fin = os.path.join(ctx.work, "qscn_%s.in" % tag)
    fout = os.path.join(ctx.work, "qscn_%s.impl" % tag)
    with open(fin, "w") as f:
        for sc in scns:
            f.write("\n".join(sc.lines()) + "\n")
    if os.path.exists(fout):
        os.remove(fout)
    env = dict(vlib.GOENV, VERIF_IN=fin, VERIF_OUT=fout)
    p = subprocess.run([os.path.join(vlib.BUILD, "maindrv.test"), "-test.run", "^TestVerifC01q$", "-test.count=1", "-test.timeout=3000s"],
                       stdout=subprocess.PIPE, stderr=subprocess.STDOUT, env=env, cwd=os.path.join(vlib.REPO, "server"), timeout=3400)
    out = p.stdout.decode("utf8", "replace")
    lines = open(fout).read().split("\n") if os.path.exists(fout) else []
    log = "\n".join(l for l in out.split("\n") if not (len(l) > 3 and l[0] in "IWE" and l[1:3] == "20"))
    return p.returncode, c02.parse_blocks(lines), log


def q_run_model(ctx, c02, scns):
    lines = []
    for sc in scns:
        lines += sc.lines()
    rc, out, err = ctx.run_model("c01q", lines)
    flat = []
    for o in out:
        flat += o.split("\n")
    return rc, c02.parse_blocks(flat), err


def q_add_queries(rng, c02, sc, mviews, rate=0.45):
    """inserts description / history queries of connections that are attached (by the fan-out model's state) after
    random requests of a fan-out scenario; queries change no state, so the rest of the scenario is unaffected"""
    ops = []
    clogged = set()
    p2p = sc.kind == "p2p"
    for k, (kind, args) in enumerate(sc.ops):
        ops.append((kind, list(args)))
        if kind == "clog":
            clogged.add(int(args[0]))
        elif kind in ("unclog", "disc"):
            clogged.discard(int(args[0]))
        if k >= len(mviews) or mviews[k].oos or mviews[k].skipped:
            ops += [(kk, list(aa)) for kk, aa in sc.ops[k + 1:]]
            break
        v = mviews[k]
        att = [s for s in v.att if s not in clogged and s in sc.sessions]
        if clogged or not att or rng.random() >= rate:
            continue
        for _ in range(rng.choice([1, 1, 2, 3])):
            s = rng.choice(att)
            u, ch = v.att[s]
            a = u if sc.sessions[s][1] else 0
            sp = "c" if ch else ("u" if p2p else "g")
            if sc.kind == "chn" and rng.random() < 0.12:
                sp = "g" if sp == "c" else "c"
            if p2p and rng.random() < 0.15:
                sp = "T"
            last = v.lastid
            if rng.random() < 0.5:
                ops.append(("qdesc", [s, a, sp, rng.choice(IMS_KINDS)]))
            else:
                since = max(0, rng.choice([0, 0, 0, 1, last, last - 1, rng.randint(0, last + 1)]))
                before = max(0, rng.choice([0, 0, 0, last + 1, last, rng.randint(0, last + 2)]))
                ops.append(("qdata", [s, a, sp, since, before, rng.choice([0, 0, 0, 1, 2, 3])]))
    return sc.clone(ops)


def q_frames(v, s):
    descs = [kvs(t) for x, t in v.other if x == s and t.startswith("desc ")]
    datas = [d for x, d in v.data if x == s]
    return descs, datas


def query_monitor(c02, sc, views):
    res = chan_monitor(c02, sc, views)
    prev = c02.View([])
    published = {}
    R = c02.R
    for k, v in enumerate(views):
        kind, args = sc.ops[k]
        if v.skipped:
            prev = c02.carry(prev, v)
            continue
        s = int(args[0])
        if kind == "pub":
            cur = prev.lastid if (k > 0 and views[k - 1].loaded) else None
            if cur is None:
                published = {}
            acks = [q for x, c, mine, q in v.ctrl if x == s and mine and c == 202]
            seq = acks[0] if acks else (v.lastid if (int(args[4]) == 0 and cur is not None and v.loaded and v.lastid == cur + 1) else None)
            if seq is not None:
                published[seq] = str(args[5])
        elif kind in ("qdesc", "qdata") and s in prev.att and k > 0 and views[k - 1].loaded:
            u = sc.acting(args)
            pu = prev.users.get(u)
            reader = pu is not None and not pu["deleted"] and bool(prev.eff(u) & R)
            name_ok = not (args[2] == "c" and sc.kind != "chn")
            descs, datas = q_frames(v, s)
            who = "connection %d (user %d%s, attached under the %s name, asking as %s)" % (
                s, u, ", channel reader" if (pu and pu["chan"]) else "", "channel" if prev.att[s][1] else "group/p2p", args[2])
            if kind == "qdesc" and reader and name_ok:
                want = max(published) if published else 0
                if len(descs) != 1:
                    res.append(("query-answered", k, "%s: description query with ims=%s answered with %d descriptions" % (who, args[3], len(descs))))
                elif int(descs[0]["seq"]) != want:
                    res.append(("description-shows-acknowledged-number", k, "%s: description (ims=%s) shows seq=%s, last acknowledged number %d"
                                % (who, args[3], descs[0]["seq"], want)))
            if kind == "qdata" and name_ok:
                since, before, limit = int(args[3]), int(args[4]), int(args[5])
                for d in datas:
                    if published.get(d["seq"]) != d["content"]:
                        res.append(("history-shows-acknowledged-number", k, "%s: history shows message %d with content %s; acknowledged: %s"
                                    % (who, d["seq"], d["content"], published.get(d["seq"], "never"))))
                if reader:
                    exp = sorted((n for n in published if n >= since and (before <= 0 or n < before)), reverse=True)
                    exp = exp[:limit if 0 < limit < 100 else 100]
                    got = [d["seq"] for d in datas]
                    if got != exp and all(published.get(d["seq"]) == d["content"] for d in datas):
                        res.append(("history-shows-acknowledged-number", k, "%s: history since=%d before=%d limit=%d shows numbers %s, acknowledged numbers in range (newest first) %s"
                                    % (who, since, before, limit, got, exp)))
        prev = c02.carry(prev, v)
    return res


def run_queries(ctx):
    from props import c02
    quick = ctx.tier == "quick"
    rng = ctx.rng
    if ctx.replay:
        scns = [c02.Scn.from_replay(json.load(open(ctx.replay))["replay"]["scenario"], "replay")]
    else:
        base = [c02.mk(*c, sid="k%d" % i) for i, c in enumerate(c02.CORPUS)]
        want = 60 if quick else 1500
        pool = c02.gen_scenarios(ctx, int(want * 1.5), prefix="q")
        chn = [sc for sc in pool if sc.kind == "chn"]
        rest = [sc for sc in pool if sc.kind != "chn"]
        base += chn[:int(want * 0.7)] + rest[:want - min(len(chn), int(want * 0.7))]
        rc, mv, err = c02.run_model(ctx, base)
        if rc != 0:
            ctx.violation("proof", "runner-crashed", "model runner (c02) failed: " + err[-1000:], {"theorem_or_obligation": "model runner c02"})
            return
        scns = [q_add_queries(rng, c02, sc, mv.get(sc.id, [])) for sc in base]
    t0 = time.time()
    rc, impl, log = q_run_impl(ctx, c02, scns)
    t_impl = time.time() - t0
    bad = next((sc for sc in scns if sc.id not in impl or len(impl[sc.id]) != len(sc.ops)), None)
    if rc != 0 or bad is not None:
        ctx.violation("monitor", "server-crashed", "the server process died or stopped answering in the later-queries part (scenario %s): %s"
                      % (bad.id if bad else "?", log[-1200:]), {"part": "queries", "scenario": bad.replay() if bad else {}})
        return
    rc, model, err = q_run_model(ctx, c02, scns)
    if rc != 0:
        ctx.violation("proof", "runner-crashed", "model runner (c01q) failed: " + err[-1000:], {"theorem_or_obligation": "model runner c01q"})
        return
    seen = {}
    for sc in scns:
        for law, k, detail in query_monitor(c02, sc, impl[sc.id]):
            seen.setdefault(law, []).append((sc, k, detail))
    known = {f["key"] for f in ctx.load_findings() if f["property"] == ctx.pid}
    nshrunk = 0
    for law, lst in seen.items():
        sc, k, detail = min(lst, key=lambda x: (x[1], len(x[0].sessions)))
        small = sc.clone(sc.ops[:k + 1])
        if nshrunk < 3 and not ctx.replay and law not in known:
            nshrunk += 1

            def still_bad(c, law=law):
                rc2, im2, _ = q_run_impl(ctx, c02, [c], tag="shrink")
                return rc2 == 0 and c.id in im2 and len(im2[c.id]) == len(c.ops) and any(l == law for l, _, _ in query_monitor(c02, c, im2[c.id]))
            small = c02.shrink(small, still_bad, 10 if quick else 120)
            rc2, im2, _ = q_run_impl(ctx, c02, [small], tag="shrink")
            dd = [d for l, _, d in query_monitor(c02, small, im2.get(small.id, [])) if l == law]
            detail = dd[0] if dd else detail
        ctx.violation("monitor", law, "law %s fails on the implementation's answers on a %s topic (%d requests this run): %s"
                      % (law, {"chn": "channel-enabled group", "grp": "group", "p2p": "peer-to-peer"}.get(sc.kind, sc.kind), len(lst), detail),
                      {"part": "queries", "scenario": small.replay(), "law": law, "detail": detail, "scenarios_failing": len(set(x[0].id for x in lst))})
    mism, diag = 0, 0
    nq = {"qdesc": 0, "qdata": 0}
    by = {}
    for sc in scns:
        mo = model.get(sc.id, [])
        prev = c02.View([])
        for k, (kind, args) in enumerate(sc.ops):
            if k >= len(mo) or mo[k].oos:
                break
            iv, mv = impl[sc.id][k], mo[k]
            if kind in ("qdesc", "qdata"):
                s = int(args[0])
                nq[kind] += 1
                (di, da), (mdi, mda) = q_frames(iv, s), q_frames(mv, s)
                a = ([d["seq"] for d in di], [(d["seq"], d["content"]) for d in da])
                b = ([d["seq"] for d in mdi], [(d["seq"], d["content"]) for d in mda])
                cls = "%s:%s:%s" % (sc.kind, "channel-subscription" if prev.att.get(s, (0, False))[1] else "obo" if int(args[1]) else "own", kind)
                by[cls] = by.get(cls, 0) + 1
                if a != b:
                    mism += 1
                    if not seen and mism == 1:
                        ctx.violation("corr", "correspondence-later-queries",
                                      "model (Sys/FanoutQueryC01.v) and implementation disagree on the numbers of an answer: op %d %s %s: implementation (desc seq, history) %s, model %s"
                                      % (k, kind, args, json.dumps(a)[:400], json.dumps(b)[:400]),
                                      {"part": "queries", "correspondence": "numbers shown by {get desc} / {get data} (FanoutQueryC01.v)",
                                       "scenario": sc.clone(sc.ops[:k + 1]).replay()})
                    break
                full = ([d.get("full") for d in di], [(d["frm"], d["topic"]) for d in da], sorted(c for x, c, m_, q in iv.ctrl if x == s))
                mfull = ([d.get("full") for d in mdi], [(d["frm"], d["topic"]) for d in mda], sorted(c for x, c, m_, q in mv.ctrl if x == s))
                if full != mfull:
                    diag += 1
            prev = c02.carry(prev, iv)
    ctx.coverage["later_queries"] = {
        "evaluations": len(scns), "queries": nq, "queries_by_topic_kind_and_connection": by,
        "law_failures": sum(len(v) for v in seen.values()), "correspondence_mismatches": mism,
        "mismatches_outside_C01s_projection (acs present, author, topic name, ctrl codes)": diag, "impl_wall_s": round(t_impl, 1),
        "rule": "the fan-out histories of the C02 generator (3 hand-written + seeded model-guided; ~70% channel-enabled groups, the rest plain groups and p2p topics) with description queries (ims absent | zero | 2001 | t.updated-1ms | t.updated | now | +1h) and history queries (since / before / limit around lastID) inserted after random requests for connections that are attached by the model's state: own connections, connections attached under the channel name, root connections acting on behalf of a user, sometimes under the other spelling of the topic name; laws: description-shows-acknowledged-number, history-shows-acknowledged-number, query-answered + the channel_recipients laws",
    }
