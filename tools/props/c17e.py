"""C17, part E: one run of the REAL Cluster.electLeader against real net/rpc + gob vote
servers (harness/overlay/server/zz_verif_c17e_test.go) compared with the extracted model
coq/Sys/VoteTallyC17e.v (runner harness/runner/r_c17e.ml), and the laws of the clause
'a candidate becomes leader only after votes from a strict majority of all configured
nodes' / 'no two nodes consider themselves leader in the same term' evaluated on the
implementation's outcome.

Scenario line:  V <tag> <n> <self> <t0> <leader before> <timer ms> <specs> <order>
(see the driver for the fields).  The python mirror of the loop below only AIMS the
generator (which scenarios need the election timer); verdicts come from the extracted
model (correspondence) and from the laws, which look at what the fake nodes really sent."""
import itertools
import json
from collections import Counter


def mk(tag, n, me, t0, pre, hb, specs, order):
    return "V %s %d %d %d %s %d %s %s" % (tag, n, me, t0, "-" if pre is None else str(pre), hb, ",".join(specs),
                                          ",".join(str(x) for x in order) if order else "-")


def parse(line):
    w = line.split()
    n, me = int(w[2]), int(w[3])
    peers = [i for i in range(n) if i != me]
    specs = dict(zip(peers, w[7].split(",")))
    order = [] if w[8] == "-" else [int(x) for x in w[8].split(",")]
    order = [p for p in order if specs.get(p, "L")[0] in "YNED"]
    return {"tag": w[1], "n": n, "self": me, "t0": int(w[4]), "pre": w[5], "hb": int(w[6]), "peers": peers,
            "specs": specs, "order": order, "npre": sum(1 for p in peers if specs[p][0] == "U")}


def parse_answer(a):
    """-> dict or None (SLOW / PANIC / HANG before the first answer / junk)"""
    w = (a or "").split()
    if len(w) < 5 or w[0] != "E":
        return None
    kind = "k" if w[3].startswith("k") else "T" if w[3].startswith("T") else "HANG"
    try:
        j = int(w[3][len(kind):])
    except ValueError:
        return None
    reqs = []
    if w[4] != "-":
        for r in w[4].split(","):
            f = r.split(":")
            reqs.append((int(f[0]), f[1], f[2]))
    return {"term": w[1], "leader": w[2], "ret": kind, "taken": j, "reqs": reqs}


def project(a):
    """what model and implementation are compared on: everything except the model-only voteCount"""
    return " ".join(x for x in (a or "").split() if not x.startswith("votes="))


def expect(nc):
    return ((nc + 1) >> 1) + 1


def mirror(n, t0, arrivals):
    """python replica of the loop, used to AIM the generator only.  arrivals: specs in order of arrival
    -> (leader?, needs the timer?)"""
    nc, ev, term = n - 1, expect(n - 1), t0 + 1
    i, vc = 0, 1
    for s in arrivals:
        if not (i < nc and vc < ev):
            break
        if s[0] == "Y":
            vc += 1
        elif s[0] == "N" and term < int(s[1:]):
            i, vc = nc, 0
        i += 1
    return vc >= ev, (i < nc and vc < ev)


def finish(rng, tag, n, me, t0, pre, specs, order, timer_ms):
    """choose the timer: 0 (never fires) unless the scripted replies leave the loop waiting"""
    sp = dict(zip([i for i in range(n) if i != me], specs))
    arr = [sp[p] for p in sorted(sp) if sp[p][0] == "U"] + [sp[p] for p in order]
    _, waits = mirror(n, t0, arr)
    return mk(tag, n, me, t0, pre, timer_ms if waits else 0, specs, order), waits


def orders_of(rng, peers, specs):
    """arrival orders of the answering nodes: YES first, YES last, alternating, random"""
    sp = dict(zip(peers, specs))
    ans = [p for p in peers if sp[p][0] in "YNED"]
    yes = [p for p in ans if sp[p][0] == "Y"]
    oth = [p for p in ans if sp[p][0] != "Y"]
    rng.shuffle(yes)
    rng.shuffle(oth)
    inter = [x for pair in itertools.zip_longest(yes, oth) for x in pair if x is not None]
    rnd = list(ans)
    rng.shuffle(rnd)
    res = [yes + oth, oth + yes, inter, rnd]
    return [list(x) for x in dict.fromkeys(tuple(o) for o in res)]


def no_term(rng, T):
    """term of a NO reply that does not abandon the election: the voter has voted in this term already (T),
    is behind (an honest voter would then say yes; a fake one may say anything) or sends the zero value,
    which gob does not put on the wire at all"""
    r = rng.random()
    return T if r < 0.6 else 0 if r < 0.8 else rng.randrange(0, T + 1)


def gen_scenarios(ctx):
    rng = ctx.rng
    quick = ctx.tier == "quick"
    plain, timed = [], []

    def add(tag, n, me, t0, pre, specs, order):
        line, waits = finish(rng, tag, n, me, t0, pre, specs, order, 40)
        (timed if waits else plain).append(line)

    # 1. the clause, systematically: every node count 3..7, every split of the other nodes into
    #    yes / no / error / late, each in up to four orders of arrival
    for n in range(3, 8):
        nc = n - 1
        for y in range(nc + 1):
            for no in range(nc + 1 - y):
                for e in range(nc + 1 - y - no):
                    late = nc - y - no - e
                    me, t0 = rng.randrange(n), rng.randrange(0, 6)
                    T = t0 + 1
                    specs = (["Y%d" % T] * y + ["N%d" % no_term(rng, T) for _ in range(no)]
                             + [rng.choice("ED") for _ in range(e)] + ["L"] * late)
                    rng.shuffle(specs)
                    peers = [i for i in range(n) if i != me]
                    ords = orders_of(rng, peers, specs)
                    if quick and len(ords) > 2:
                        ords = ords[:1] + rng.sample(ords[1:], 1 if (late or e) else 2)
                    for o in ords:
                        add("s", n, me, t0, None, specs, o)
    # 2. random: unconnected nodes, NO replies of a later term (abandon), a leader followed before,
    #    YES replies with odd terms
    for _ in range(150 if quick else 3000):
        n = rng.randrange(3, 8)
        me, t0 = rng.randrange(n), rng.randrange(0, 9)
        T = t0 + 1
        peers = [i for i in range(n) if i != me]
        specs = []
        for _p in peers:
            r = rng.random()
            if r < 0.38:
                specs.append("Y%d" % (T if rng.random() < 0.8 else rng.choice([0, T + 1, rng.randrange(0, T + 3)])))
            elif r < 0.70:
                specs.append("N%d" % (no_term(rng, T) if rng.random() < 0.85 else T + rng.randrange(1, 4)))
            elif r < 0.80:
                specs.append(rng.choice("ED"))
            elif r < 0.88:
                specs.append("U")
            else:
                specs.append("L")
        pre = None if rng.random() < 0.5 else rng.choice(peers)
        add("r", n, me, t0, pre, specs, rng.choice(orders_of(rng, peers, specs)))
    # 3. two candidates of ONE term on voters that vote once: candidate a gets YES from its voters and NO (term T)
    #    from everybody else, b likewise; the splits are aimed at 'one real YES short of a majority'
    pairs = 0
    for k in range(60 if quick else 900):
        n = rng.randrange(4, 8)
        t0 = rng.randrange(0, 6)
        T = t0 + 1
        a, b = rng.sample(range(n), 2)
        others = [i for i in range(n) if i not in (a, b)]
        ballot = {}
        ev = expect(n - 1)
        # a majority for b (b's own vote included), the rest for a / a third candidate / nobody reachable
        kb = min(len(others), rng.choice([ev - 1, ev - 1, ev - 2, ev]))
        shuffled = rng.sample(others, len(others))
        for v in shuffled[:kb]:
            ballot[v] = b
        for v in shuffled[kb:]:
            ballot[v] = rng.choice([a, a, a, "third"])
        for cand, tag in ((a, "pA%d" % k), (b, "pB%d" % k)):
            peers = [i for i in range(n) if i != cand]
            specs = []
            for p in peers:
                if p in (a, b):
                    specs.append("N%d" % T)              # the other candidate has voted for itself
                elif ballot[p] == cand:
                    specs.append("Y%d" % T)
                else:
                    specs.append("N%d" % T if rng.random() < 0.92 else rng.choice(["E", "D", "L"]))
            ords = orders_of(rng, peers, specs)
            o = ords[0] if rng.random() < 0.5 else rng.choice(ords)
            add(tag, n, cand, t0, None, specs, o)
        pairs += 1
    # scenarios that end by the election timer cost real time: a sample (both halves of a pair always stay)
    lim = 24 if quick else 300
    tp = [t for t in timed if parse(t)["tag"][0] == "p"]
    to = [t for t in timed if parse(t)["tag"][0] != "p"]
    if len(to) > lim:
        to = rng.sample(to, lim)
    timed = to + tp
    return list(dict.fromkeys(plain + timed))


def released_yes(p, r):
    """YES replies the fake nodes had really sent when electLeader returned"""
    if r["ret"] == "k":
        k = max(0, r["taken"] - p["npre"])
        rel = p["order"][:k]
    else:
        rel = p["order"]
    return sum(1 for x in rel if p["specs"][x][0] == "Y"), rel


def monitors(scs, table):
    """-> list of (law, scenario, detail, involved scenarios)"""
    fails = []
    by_pair = {}
    for sc in scs:
        p, r = parse(sc), parse_answer(table.get(sc))
        if r is None or r["ret"] == "HANG":
            continue
        me = str(p["self"])
        if r["leader"] == me:
            yes, rel = released_yes(p, r)
            if 2 * (1 + yes) <= p["n"]:
                fails.append(("leader-needs-real-majority", sc,
                              "node %s of %d declared itself leader of term %s after %d YES repl%s (%s) + its own vote; replies given, in order: %s"
                              % (me, p["n"], r["term"], yes, "y" if yes == 1 else "ies",
                                 "a strict majority needs %d votes" % (p["n"] // 2 + 1),
                                 " ".join("%d:%s" % (x, p["specs"][x]) for x in rel) or "none"), [sc]))
        for (to, node, term) in r["reqs"]:
            if node != me or term != r["term"]:
                fails.append(("vote-request-names-candidate-and-term", sc,
                              "node %d received a vote request naming %s, term %s; the candidate is %s and its term is %s"
                              % (to, node, term, me, r["term"]), [sc]))
                break
        if p["tag"][0] == "p":
            by_pair.setdefault(p["tag"][2:], []).append((sc, p, r))
    for k, l in by_pair.items():
        lead = [(sc, p, r) for sc, p, r in l if r["leader"] == str(p["self"])]
        if len(lead) >= 2 and lead[0][2]["term"] == lead[1][2]["term"] and lead[0][1]["self"] != lead[1][1]["self"]:
            fails.append(("no-two-leaders-per-term-rpc", lead[0][0],
                          "nodes %d and %d both declared themselves leader of term %s although every voter said YES to at most one of them"
                          % (lead[0][1]["self"], lead[1][1]["self"], lead[0][2]["term"]), [lead[0][0], lead[1][0]]))
    return fails


def neighbours(ctx, sc):
    """scenarios near a correspondence mismatch: the same replies in other orders, late / failed nodes answering NO"""
    p = parse(sc)
    w = sc.split()
    specs = [p["specs"][x] for x in p["peers"]]
    T = p["t0"] + 1
    res = []
    variants = [specs, [("N%d" % T if s[0] in "LED" else s) for s in specs], [("N0" if s[0] in "LED" else s) for s in specs]]
    for v in variants:
        for o in orders_of(ctx.rng, p["peers"], v):
            res.append(finish(ctx.rng, "n", p["n"], p["self"], p["t0"], None if w[5] == "-" else int(w[5]), v, o, 40)[0])
    return list(dict.fromkeys(res))


def run_vote(ctx):
    if ctx.replay:
        rp = json.load(open(ctx.replay))
        scs = []
        for r in [rp["replay"]] + rp.get("more_cases", []):
            if isinstance(r, dict):
                scs += [c for c in [r.get("case")] + list(r.get("cases", [])) if c and c.startswith("V ")]
        scs = list(dict.fromkeys(scs))
    else:
        scs = gen_scenarios(ctx)
    if not scs:
        return
    rc, impl, log = ctx.run_main_lines("c17e", scs, timeout=1500)
    if rc != 0 or len(impl) != len(scs):
        ctx.violation("corr", "driver-crashed", "package-main vote driver failed rc=%s: %s" % (rc, log[-1500:]),
                      {"correspondence": "vote driver run", "stderr": log[-3000:]})
        return
    rc, model, err = ctx.run_model("c17e", scs)
    if rc != 0 or len(model) != len(scs):
        ctx.violation("proof", "runner-crashed", "vote model runner failed: " + err[-1500:], {"theorem_or_obligation": "model runner"})
        return
    table = dict(zip(scs, impl))
    mtab = dict(zip(scs, model))
    slow = [sc for sc in scs if table[sc] == "SLOW"]
    fails = monitors(scs, table)
    mism = [(sc, table[sc], mtab[sc]) for sc in scs if table[sc] != "SLOW" and project(table[sc]) != project(mtab[sc])]
    searched = 0
    if mism and not fails:
        pool = []
        for sc, _, _ in mism[:40]:
            pool += neighbours(ctx, sc)
        pool = [x for x in dict.fromkeys(pool) if x not in table][:600]
        if pool:
            rc2, impl2, _ = ctx.run_main_lines("c17e", pool, timeout=1500)
            if rc2 == 0 and len(impl2) == len(pool):
                t2 = dict(zip(pool, impl2))
                fails = monitors(pool, t2)
                table.update(t2)
                searched = len(pool)
    seen = set()
    for law, sc, detail, inv in fails:
        if law in seen:
            continue
        seen.add(law)
        n_same = sum(1 for f in fails if f[0] == law)
        ctx.violation("monitor", law, "law %s fails on the implementation (%d failing scenarios this run): %s -> %s (%s)"
                      % (law, n_same, sc, table.get(sc), detail),
                      {"case": sc, "cases": inv, "impl": {c: table.get(c) for c in inv}, "law": law, "detail": detail,
                       "how_to_read": "V <tag> <n> <candidate> <term before> <leader before> <timer ms> <reply of every other node by index: "
                                      "Y<term> N<term> E(rror) D(ropped) U(nconnected) L(ate)> <order of arrival>; answer: E <term> <leader> "
                                      "<k<j>: returned after j replies | T<j>: by timer> <receiver:Node:Term of every request received>; "
                                      "driver harness/overlay/server/zz_verif_c17e_test.go"})
    failing = set(c for f in fails for c in f[3])
    mism = [m for m in mism if m[0] not in failing]
    if mism and not fails:
        sc, i, m = mism[0]
        ctx.violation("corr", "correspondence-elect",
                      "the model of electLeader and the real electLeader (real net/rpc + gob vote servers) disagree on %d of %d scenarios, "
                      "e.g. %s: impl=%s model=%s; no law failure found on %d neighbouring scenarios"
                      % (len(mism), len(scs), sc, i, project(m), searched),
                      {"correspondence": "projection electLeader (term, leader, reply at which it returned / timer, requests received by every node)",
                       "case": sc, "cases": [sc], "impl": i, "model": m,
                       "more": [{"case": a, "impl": b, "model": d} for a, b, d in mism[1:10]]})
    # coverage
    sizes, outcome, firsts, kinds = Counter(), Counter(), Counter(), Counter()
    boundary = yes_then_no = no_then_yes = zero_no = 0
    for sc in scs:
        p, r = parse(sc), parse_answer(table[sc])
        sizes[p["n"]] += 1
        for s in p["specs"].values():
            kinds[s[0]] += 1
        if r is None:
            outcome["inconclusive (machine too slow for the timer)" if table[sc] == "SLOW" else "other"] += 1
            continue
        outcome[("leader" if r["leader"] == str(p["self"]) else "no leader") + {"k": "", "T": " (timer)", "HANG": " (hang)"}[r["ret"]]] += 1
        arr = [p["specs"][x][0] for x in p["order"]]
        if arr:
            firsts[arr[0]] += 1
        ys = sum(1 for x in arr if x == "Y")
        if 1 + ys in (expect(p["n"] - 1) - 1, expect(p["n"] - 1)):
            boundary += 1
        if "Y" in arr and "N" in arr[arr.index("Y"):]:
            yes_then_no += 1
        if "N" in arr and "Y" in arr[arr.index("N"):]:
            no_then_yes += 1
        if any(s == "N0" for s in p["specs"].values()):
            zero_no += 1
    ctx.coverage["vote_tally"] = {
        "scenarios": len(scs), "cluster_sizes": dict(sorted(sizes.items())), "outcomes": dict(sorted(outcome.items())),
        "first_reply": dict(firsts), "reply_kinds": dict(kinds),
        "scenarios_at_the_majority_boundary": boundary, "a_NO_arrives_after_a_YES": yes_then_no, "a_YES_arrives_after_a_NO": no_then_yes,
        "with_an_all_zero_NO_reply": zero_no, "two_candidate_pairs": len(set(parse(sc)["tag"][2:] for sc in scs if parse(sc)["tag"][0] == "p")),
        "timer_scenarios": sum(1 for sc in scs if parse(sc)["hb"] > 0), "inconclusive_slow": len(slow),
        "correspondence_mismatches": len(mism), "monitor_failures": len(fails), "search_pool": searched,
        "rule": "one run of the real electLeader per scenario against real rpc.Server values (gob, net.Pipe) whose Cluster.Vote answers as scripted, "
                "released one by one in the scripted order of arrival: (1) every node count 3..7 x every split of the other nodes into "
                "yes / no / error / late x orders (YES first, YES last, alternating, random); (2) seeded random scenarios with unconnected nodes, "
                "handler errors, dropped connections, NO replies of a later term, of the candidate's term, of term 0 (nothing on the wire), YES "
                "replies with odd terms, a leader followed before; (3) two candidates of one term on voters that answer YES to at most one of "
                "them, split aimed at one vote short of a majority; scenarios that end by the election timer: a sample, 60 ms timer, "
                "re-run with a longer timer when the machine was too slow for the scripted replies to be taken in half of it",
    }
    ctx.coverage["evaluations"] = ctx.coverage.get("evaluations", 0) + len(scs)
    ctx.coverage["traces_validated_against_impl"] = ctx.coverage.get("traces_validated_against_impl", 0) + len(scs) - len(slow)
    ctx.coverage.setdefault("trusted_base", []).append(
        "harness/overlay/server/zz_verif_c17e_test.go: real Cluster.electLeader / failoverInit / ClusterNode.callAsync / handleRpcResponse, real "
        "rpc.Client and rpc.Server with the gob codec over net.Pipe; the fake nodes' Cluster.Vote handler and the release order are the driver's; "
        "quiescence (all goroutines parked) stands for 'electLeader has taken the reply'; tools/props/c17e.py law monitors")
