"""C03 (s03f): creation of a peer-to-peer topic by {sub usrB} from the creator's own session (auth / anon) or from a ROOT
session with extra.obo / extra.authlevel, followed by publishes by the same routes.  Model Sys/P2PCreateC03f.v (runner
r_c03f.ml), driver harness/overlay/server/zz_verif_c03f_test.go (TestVerifC03fP2PCreate).  One line per scenario."""
import json
import os
import subprocess
import vlib

MODES_W = [31, 31, 23, 15, 31 - 16]          # with W (JRWPA, JRWA, JRWP, JRWP without A)
MODES_NOW = [27, 27, 11, 3, 25]              # J.. without W
MODES_N = [0, 0, 30]                          # N, or no J at all
LV = {"anon": "anon", "auth": "auth", "root": "root"}


def pick_mode(rng):
    return rng.choice(rng.choice([MODES_W, MODES_NOW, MODES_N]))


def gen_line(rng, sid):
    a = (rng.choice([31, 31, 31, 27, 15, pick_mode(rng)]), pick_mode(rng))
    b = (pick_mode(rng), pick_mode(rng))
    la = rng.choice(["auth", "auth", "anon"])
    pre = rng.choice([0, 0, 0, 0, 1, 1, 2, 3])
    ra = (rng.choice([31, 31, 27, 30, pick_mode(rng)]), pick_mode(rng))
    rb = (rng.choice([31, 31, 27, pick_mode(rng)]), rng.choice([31, 27, pick_mode(rng)]))
    ops = []
    xl = lambda: rng.choice(["-", "-", "auth", "anon", "anon", "root", "junk"])
    routes = []
    # the creator: A through a root session, A's own session, or B
    first = rng.choice(["rootA", "rootA", "rootA", "ownA", "ownA", "ownB", "rootB"])
    def sub(route):
        if route == "rootA":
            r = rng.choice([1, 1, 3])
            x = xl()
            routes.append((r, "a", x))
            return "%d:a:%s:sub" % (r, x)
        if route == "rootB":
            r = rng.choice([1, 3])
            x = xl()
            routes.append((r, "b", x))
            return "%d:b:%s:sub" % (r, x)
        if route == "ownA":
            routes.append((0, "-", "-"))
            return "0:-:-:sub"
        routes.append((2, "-", "-"))
        return "2:-:-:sub"
    ops.append(sub(first))
    for _ in range(rng.randint(2, 7)):
        z = rng.random()
        if z < 0.5 and routes:
            r, o, x = rng.choice(routes)
            if o != "-" and rng.random() < 0.3:
                o = rng.choice(["a", "b"])
            ops.append("%d:%s:%s:pub" % (r, o, x if o != "-" else "-"))
        elif z < 0.8:
            ops.append(sub(rng.choice(["rootA", "ownA", "ownB", "rootB"])))
        elif z < 0.9:
            ops.append("%d:%s:-:%s" % (rng.choice([0, 2]), rng.choice(["a", "b"]), rng.choice(["sub", "pub"])))   # obo from an ordinary session
        else:
            ops.append("%d:x:-:%s" % (rng.choice([1, 3]), rng.choice(["sub", "pub"])))
    return "scn %s A=%d,%d B=%d,%d la=%s pre=%d ra=%d,%d rb=%d,%d ops %s" % ((sid,) + a + b + (la, pre) + ra + rb + (" ".join(ops),))


def parse_state(txt):
    w = txt.split()
    d = {"code": w[0], "seqp": w[1]}
    for x in w[2:]:
        k, _, v = x.partition("=")
        d[k] = v
    return d


def parse_out(line):
    parts = [p.strip() for p in line.split("|")]
    return parts[0].split()[1], parts[1:]


def acting(la, op):
    """python restatement of dispatch_c03f: (user 'a'|'b'|'r', level) or a refusal code"""
    sid, obo, xl, kind = op.split(":")
    suser, slvl = {"0": ("a", la), "1": ("r", "root"), "2": ("b", "auth"), "3": ("r", "root")}[sid]
    if obo == "-":
        return (suser, slvl)
    if slvl != "root":
        return 403
    if obo == "x":
        return 400
    return (obo, LV.get(xl, "auth"))


def select(lvl, auth, anon):
    return {"anon": anon, "auth": auth, "root": 31}[lvl]


def row(v):
    if v == "-":
        return None
    a, b = v.split("/")
    return (int(a), int(b))


def monitor(line, outs):
    """laws on the implementation's trace; -> [(law, k, detail)]"""
    w = line.split()
    kv = dict(x.split("=", 1) for x in w[2:w.index("ops")])
    ops = w[w.index("ops") + 1:]
    defs = {"a": tuple(map(int, kv["A"].split(","))), "b": tuple(map(int, kv["B"].split(",")))}
    pre = int(kv["pre"])
    prev = {"ex": "1" if pre else "0", "seq": "0", "msgs": "", "sa": kv["ra"].replace(",", "/") if pre in (2, 3) else "-",
            "sb": kv["rb"].replace(",", "/") if pre in (1, 3) else "-", "ld": "0", "last": "0", "ca": "-", "cb": "-", "att": ""}
    res = []
    for k, op in enumerate(ops):
        if k >= len(outs):
            break
        cur = parse_state(outs[k])
        if cur["code"] in ("HANG", "none"):
            res.append(("one-reply", k, "request %s got no {ctrl} reply (%s)" % (op, cur["code"])))
            break
        sid, obo, xl, kind = op.split(":")
        act = acting(kv["la"], op)
        state_keys = ("ex", "seq", "msgs", "sa", "sb", "ld", "last", "ca", "cb", "att")
        if not isinstance(act, tuple):
            if cur["code"] != str(act):
                res.append(("obo-needs-root", k, "request %s: expected %d, got %s" % (op, act, cur["code"])))
            if any(cur[x] != prev[x] for x in state_keys):
                res.append(("rejected-no-effect", k, "refused request %s changed the state: %s -> %s" % (op, prev, cur)))
        elif act[0] in ("a", "b"):
            u, lvl = act
            peer = "b" if u == "a" else "a"
            mine_prev, mine_cur = row(prev["s" + u]), row(cur["s" + u])
            if kind == "sub" and mine_prev is None and mine_cur is not None:
                exp = select(lvl, defs[peer][0], defs[peer][1])
                if mine_cur[1] != exp:
                    res.append(("p2p-creator-grant-follows-acting-user", k,
                                "request %s executed as user %s at level %s created his subscription with given=%d; the peer's default access for level %s is %d (defaults auth=%d anon=%d; stored row %s, cached %s)"
                                % (op, u, lvl, mine_cur[1], lvl, exp, defs[peer][0], defs[peer][1], cur["s" + u], cur["c" + u])))
            if kind == "sub" and mine_prev is not None and mine_cur is not None and mine_cur[1] != mine_prev[1]:
                res.append(("p2p-existing-grant-changed", k, "request %s changed the stored granted mode of %s: %s -> %s" % (op, u, prev["s" + u], cur["s" + u])))
            if kind == "pub":
                attached = any(x.split(":")[0] == sid for x in prev["att"].split(",") if x)
                sw = mine_prev is not None and (mine_prev[0] & 4) and (mine_prev[1] & 4)
                cw_row = row(prev["c" + u]) if prev["ld"] == "1" else None
                cw = cw_row is not None and (cw_row[0] & 4) and (cw_row[1] & 4)
                ok = cur["code"] == "202"
                if ok and not (sw and cw):
                    res.append(("publish-by-non-writer-accepted", k, "{pub} %s as user %s accepted (202) but his stored row is %s, cached %s" % (op, u, prev["s" + u], prev["c" + u])))
                if ok and not attached:
                    res.append(("publish-not-attached-accepted", k, "{pub} %s accepted from a session that is not attached (%s)" % (op, prev["att"])))
                if not ok and attached and sw and cw:
                    res.append(("publish-by-writer-rejected", k, "{pub} %s as user %s refused (%s) although attached and stored %s / cached %s have W" % (op, u, cur["code"], prev["s" + u], prev["c" + u])))
                if ok:
                    n = int(prev["last"]) + 1
                    want_msgs = (prev["msgs"] + "," if prev["msgs"] else "") + "%d:%s" % (n, u)
                    if cur["seqp"] != str(n) or cur["seq"] != str(n) or cur["last"] != str(n) or cur["msgs"] != want_msgs:
                        res.append(("accepted-publish-numbered", k, "accepted {pub} %s: expected seq %d by %s, got params.seq=%s stored seqid=%s lastID=%s msgs=%s" % (op, n, u, cur["seqp"], cur["seq"], cur["last"], cur["msgs"])))
                elif any(cur[x] != prev[x] for x in state_keys):
                    res.append(("rejected-no-effect", k, "refused {pub} %s (%s) changed the state: %s -> %s" % (op, cur["code"], prev, cur)))
        if cur["ld"] == "1" and (cur["ca"] != cur["sa"] or cur["cb"] != cur["sb"] or cur["last"] != cur["seq"]):
            res.append(("p2p-cache-follows-store", k, "after %s the cached modes / lastID differ from the stored rows: %s" % (op, cur)))
        prev = {x: cur[x] for x in state_keys}
    return res


def run_impl(ctx, lines, tag="c03f"):
    fin = os.path.join(ctx.work, tag + "_in.txt")
    fout = os.path.join(ctx.work, tag + "_out.txt")
    open(fin, "w").write("\n".join(lines) + "\n")
    if os.path.exists(fout):
        os.remove(fout)
    env = dict(vlib.GOENV, VERIF_IN=fin, VERIF_OUT=fout)
    p = subprocess.run([os.path.join(vlib.BUILD, "maindrv.test"), "-test.run", "^TestVerifC03fP2PCreate$", "-test.count=1"],
                       stdout=subprocess.PIPE, stderr=subprocess.STDOUT, text=True, timeout=1200, env=env, cwd=os.path.join(vlib.REPO, "server"))
    out = [l for l in open(fout).read().split("\n") if l] if os.path.exists(fout) else []
    return p.returncode, dict(parse_out(l) for l in out), p.stdout


def run_layer(ctx, replay_line=None):
    """-> coverage dict; violations are recorded in ctx"""
    quick = ctx.tier == "quick"
    if replay_line:
        lines = [replay_line]
    else:
        n = 260 if quick else 4000
        lines = [gen_line(ctx.rng, "f%d" % i) for i in range(n)]
    ids = [l.split()[1] for l in lines]
    rc, impl, log = run_impl(ctx, lines)
    if rc != 0 or any(i not in impl for i in ids):
        bad = next((l for l in lines if l.split()[1] not in impl), lines[0])
        ctx.violation("monitor", "server-crashed", "the server process died or stopped answering (p2p creation layer): " + log[-1500:],
                      {"part": "c03f", "line": bad, "log": log[-3000:]})
        return {}
    rc, mout, err = ctx.run_model("c03f", lines)
    if rc != 0 or len(mout) != len(lines):
        ctx.violation("proof", "runner-crashed", "model runner failed (c03f): " + err[-1500:], {"theorem_or_obligation": "model runner (c03f)"})
        return {}
    model = dict(parse_out(l) for l in mout)
    fails = {}
    nfail = 0
    for l in lines:
        for law, k, detail in monitor(l, impl[l.split()[1]]):
            nfail += 1
            cur = fails.get(law)
            if cur is None or k < cur[1]:
                fails[law] = (l, k, detail)
    for law, (l, k, detail) in fails.items():
        w = l.split()
        i = w.index("ops")
        small = " ".join(w[:i + 1] + w[i + 1:i + 2 + k])
        ctx.violation("monitor", law, "law %s fails on the implementation's trace (p2p topic creation): %s" % (law, detail),
                      {"part": "c03f", "line": small, "law": law, "detail": detail, "impl": impl[w[1]][:k + 1],
                       "how": "VERIF_IN=<file with this line> VERIF_OUT=out build/maindrv.test -test.run '^TestVerifC03fP2PCreate$' (cwd <repo>/server)"})
    mism = []
    unmod = 0
    for l in lines:
        i = l.split()[1]
        io, mo = impl[i], model.get(i, [])
        for k in range(min(len(io), len(mo))):
            if mo[k] == "UNMODELLED":
                unmod += 1
                break
            if io[k] != mo[k]:
                mism.append((l, k, io[k], mo[k]))
                break
    if mism and not fails:
        l, k, a, b = min(mism, key=lambda x: x[1])
        ctx.violation("corr", "correspondence-p2p-create", "model (Sys/P2PCreateC03f.v) and implementation disagree on %d of %d p2p-creation histories; first: request %d of '%s': impl '%s' model '%s'"
                      % (len(mism), len(lines), k, l, a, b), {"part": "c03f", "correspondence": "projection of C03 (p2p creation)", "line": l, "impl": a, "model": b})
    st = {"scenarios": len(lines), "requests": 0, "creations_by_root_on_behalf": 0, "creations_by_own_session": 0,
          "creations_where_session_level_would_differ": 0, "creator_without_W_then_publish_403": 0, "publishes_202": 0, "publishes_403": 0,
          "publishes_409": 0, "obo_refused_403": 0, "obo_refused_400": 0, "acting_levels": {}, "mismatches": len(mism), "monitor_failures": nfail,
          "histories_cut_unmodelled": unmod}
    for l in lines:
        w = l.split()
        kv = dict(x.split("=", 1) for x in w[2:w.index("ops")])
        ops = w[w.index("ops") + 1:]
        defs = {"a": tuple(map(int, kv["A"].split(","))), "b": tuple(map(int, kv["B"].split(",")))}
        pv = None
        nw = set()
        for k, op in enumerate(ops):
            cur = parse_state(impl[w[1]][k])
            st["requests"] += 1
            act = acting(kv["la"], op)
            kind = op.split(":")[3]
            if not isinstance(act, tuple):
                st["obo_refused_%d" % act] += 1
            elif act[0] in "ab":
                u, lvl = act
                before = (pv["s" + u] if pv else (kv["r" + u].replace(",", "/") if int(kv["pre"]) in ((2, 3) if u == "a" else (1, 3)) else "-"))
                if kind == "sub" and before == "-" and cur["s" + u] != "-":
                    root = op.split(":")[1] != "-"
                    st["creations_by_root_on_behalf" if root else "creations_by_own_session"] += 1
                    st["acting_levels"][lvl] = st["acting_levels"].get(lvl, 0) + 1
                    peer = "b" if u == "a" else "a"
                    if root and select(lvl, *defs[peer]) != 31:
                        st["creations_where_session_level_would_differ"] += 1
                    if not (row(cur["s" + u])[1] & 4):
                        nw.add(u)
                if kind == "pub":
                    if cur["code"] in ("202", "403", "409"):
                        st["publishes_" + cur["code"]] += 1
                    if cur["code"] == "403" and u in nw:
                        st["creator_without_W_then_publish_403"] += 1
            pv = cur
    return {"p2p_creation_layer": st}
