"""C17, part C: the ring-signature gate of the inter-node entry points
(Cluster.TopicMaster / Cluster.Route / Cluster.TopicProxy, the senders makeClusterReq /
routeToTopicMaster / topicProxyGone / routeToTopicIntraCluster, Cluster.rehash).

Scripts (sequences over several nodes and topics: first contact, rehash of either side at
random points, requests made before / after the rehash, delivered in any order, forged and
weakened signatures, full queues, tear-down notices, hub changes) are run on REAL Cluster
values by harness/overlay/server/zz_verif_c17x_test.go and on the extracted model
coq/Sys/Gate.v (harness/runner/r_c17x.ml); the projection (rejected flag, queue the request
reached, {ctrl 500}, panic, multiplexing-session store) is compared event by event, and the
laws of the property are evaluated on the implementation's answers."""
import bisect
import json
import zlib
from collections import Counter

REPLICAS = 20      # only to AIM the generator (python mirror of the ring); nothing is decided with it


def ring_owner(lst, key):
    """python mirror of ringhash (crc32), used ONLY to aim the generator at (sender, master) pairs"""
    if not lst:
        return ""
    ks = sorted((zlib.crc32((str(i) + n).encode("latin1")), n) for n in lst for i in range(REPLICAS))
    i = bisect.bisect_left(ks, (zlib.crc32(key.encode("latin1")), key))
    return ks[0][1] if i == len(ks) else ks[i][1]


NODE_SETS = [["a", "b", "c"], ["n1", "n2", "n3"], ["a", "b", "c", "d"], ["node1", "node2", "node10"],
             ["one", "two", "three", "A"], ["x", "y", "z", "w", "v"]]
TOPICS = ["grpAAAAAAAAAAA", "grpQx-_zT3kLm0", "grpBBBBBBBBBBB", "grpZ9", "usrCCCCCCCCCCC", "usrDdDdDdDdDdD",
          "p2pAAAABBBB", "grpT", "grpU", "grpV", "grpW", "usrX", "usrY", "sys", "grp0", "grp1", "grp2", "grp3",
          "grp4", "grp5", "grp6", "grp7", "grp8", "grp9"]
REQ_TYPES = [1, 2, 3, 4, 5, 6]


def canon(lst):
    return ",".join(sorted(lst)) if lst else "-"


def enc_list(lst):
    if lst is None:
        return "*"
    return ",".join(lst) if lst else "-"


class Mirror:
    """what the generator knows while it writes a script (node lists, messages on the wire,
    which (receiver, sender, topic) had a first contact); aims only"""

    def __init__(self, names):
        self.names = list(names)
        self.lists = {n: list(names) for n in names}
        self.flight = []          # (to, kind, sender)
        self.contact = set()      # (receiver, sender, topic) delivered under equal rings
        self.topics = {n: set() for n in names}

    def owner(self, i, topic):
        o = ring_owner(self.lists[i], topic)
        return o if o != i and o in self.names else None


def other_lists(rng, names, cur):
    """node lists whose multiset differs from cur"""
    res = []
    for n in names:
        l = [x for x in cur if x != n]
        if sorted(l) != sorted(cur):
            res.append(l)
        if n not in cur:
            res.append(cur + [n])
    res.append(list(cur) + [cur[0]] if cur else [names[0]])       # a name listed twice
    res.append([names[0]])
    res = [l for l in res if sorted(l) != sorted(cur)]
    l = rng.choice(res)
    rng.shuffle(l)
    return l


def rand_orig(rng, topic):
    r = rng.random()
    if r < 0.6:
        return topic
    if r < 0.8 and topic.startswith("grp"):
        return "chn" + topic[3:]
    if r < 0.9:
        return "-"
    return topic


def ev_send(rng, m, i, topic, rt=None):
    rt = rng.choice(REQ_TYPES) if rt is None else rt
    orig = rand_orig(rng, topic)
    if rt in (5, 6) and rng.random() < 0.8:
        orig = "-"                      # session updates come without a client message (topic_proxy.go)
    sess = "1" if rng.random() < 0.85 else "0"
    to = m.owner(i, topic)
    if to:
        m.flight.append((to, "q", i, topic))
    return "S:%s:%d:%s:%s:%s" % (i, rt, topic, orig, sess)


def ev_route(rng, m, i, topic):
    to = m.owner(i, topic)
    if to:
        m.flight.append((to, "r", i, topic))
    return "U:%s:%s:%s:%s" % (i, topic, "1" if rng.random() < 0.9 else "0", "1" if rng.random() < 0.7 else "0")


def ev_gone(rng, m, i, topic):
    to = m.owner(i, topic)
    if to:
        m.flight.append((to, "g", i, topic))
    return "G:%s:%s" % (i, topic)


def ev_deliver(rng, m, k=None, full=None):
    if k is None:
        k = rng.randrange(len(m.flight)) if m.flight else 0
    if k < len(m.flight):
        to, kind, snd, topic = m.flight.pop(k)
        if kind == "q" and snd in m.lists and sorted(m.lists[snd]) == sorted(m.lists.get(to, [])):
            m.contact.add((to, snd, topic))
    if full is None:
        full = rng.random() < 0.08
    return "D:%d:%d" % (k, 1 if full else 0)


def ev_rehash(rng, m, i, lst):
    m.lists[i] = list(m.names) if lst is None else list(lst)
    return "R:%s:%s" % (i, enc_list(lst))


def ev_topic(rng, m, i, topic, flags=None):
    if flags is None:
        r = rng.random()
        flags = "s" if r < 0.55 else "cs" if r < 0.8 else "-" if r < 0.9 else "c"
    m.topics[i].add(topic)
    return "T:%s:%s:%s" % (i, topic, flags)


def ev_forge(rng, m, to=None, topic=None, after_contact=None):
    names = m.names
    if to is None:
        to = rng.choice(names)
    peers = [n for n in names if n != to]
    node = rng.choice(peers)
    if after_contact:
        to, node, topic = after_contact
    r = rng.random()
    if r < 0.04:
        node = rng.choice(["zz", to])           # not a configured peer of the receiver
    cur = m.lists[to]
    r = rng.random()
    if r < 0.2:
        spec = "=" + enc_list(rng.sample(cur, len(cur)))          # the receiver's own ring, any order
    elif r < 0.45:
        spec = "=" + enc_list(other_lists(rng, names, cur))       # a real signature of another ring
    elif r < 0.8:
        spec = rng.choice("^<>%") + enc_list(cur)                 # the right signature, weakened
    elif r < 0.88:
        spec = "#-"
    else:
        spec = "#" + "".join(rng.choice("0123456789abcdef") for _ in range(2 * rng.choice([1, 19, 20, 21])))
    if spec[1:] == "-" and spec[0] != "#":
        spec = "=" + enc_list([names[0]])
    if topic is None:
        topic = rng.choice(TOPICS)
    if rng.random() < 0.7:
        ev = "F:q:%s:%s:%s:%d:%s:%s:%s:%s" % (to, node, spec, rng.choice(REQ_TYPES + [0, 7]), topic, rand_orig(rng, topic),
                                           "1" if rng.random() < 0.85 else "0", "1" if rng.random() < 0.04 else "0")
        if ev.endswith(":1"):
            # a tear-down notice never comes with a client message (topicProxyGone); with a channel
            # Original the same session would be stopped twice, which needs the asynchronous pool
            f = ev.split(":")
            f[7] = "-"
            ev = ":".join(f)
        m.flight.append((to, "fq", node, topic))
    else:
        ev = "F:r:%s:%s:%s:%s:%s" % (to, node, spec, "1" if rng.random() < 0.9 else "0", "1" if rng.random() < 0.7 else "0")
        m.flight.append((to, "fr", node, topic))
    return ev


def pick_pair(rng, m, topics):
    """(sender, topic, master) such that the sender's ring puts the topic on another node"""
    cands = [(i, t, m.owner(i, t)) for i in m.names for t in topics if m.owner(i, t)]
    return rng.choice(cands) if cands else None


def template(rng, m, topics, evs):
    """first contact under equal rings, then one side rehashes at some point, then more traffic on
    the existing multiplexing session; deliveries before / after; optionally resynchronised"""
    p = pick_pair(rng, m, topics)
    if not p:
        return
    i, t, o = p
    if rng.random() < 0.85:
        evs.append(ev_topic(rng, m, o, t))
    kind = rng.choice(["q", "q", "q", "r", "mixed"])

    def traffic():
        if kind == "r" or (kind == "mixed" and rng.random() < 0.4):
            return ev_route(rng, m, i, t)
        return ev_send(rng, m, i, t)
    n_first = rng.randrange(1, 3)
    for _ in range(n_first):
        evs.append(traffic())
    held = rng.random() < 0.35          # leave a request on the wire across the rehash
    if held:
        evs.append(traffic())
    for _ in range(n_first):
        evs.append(ev_deliver(rng, m, 0, False))
    side = rng.random()
    if side < 0.55:
        evs.append(ev_rehash(rng, m, o, other_lists(rng, m.names, m.lists[o])))
    elif side < 0.85:
        evs.append(ev_rehash(rng, m, i, other_lists(rng, m.names, m.lists[i])))
    else:
        evs.append(ev_rehash(rng, m, o, other_lists(rng, m.names, m.lists[o])))
        evs.append(ev_rehash(rng, m, i, other_lists(rng, m.names, m.lists[i])))
    for _ in range(rng.randrange(1, 4)):
        evs.append(traffic())
        if rng.random() < 0.3:
            evs.append(ev_forge(rng, m, after_contact=(o, i, t)))
    while m.flight and rng.random() < 0.9:
        evs.append(ev_deliver(rng, m))
    if rng.random() < 0.6:
        # both sides end up with the same node set (listed in another order): traffic flows again
        l = list(m.lists[o])
        rng.shuffle(l)
        evs.append(ev_rehash(rng, m, i, l))
        evs.append(traffic())
        evs.append(ev_deliver(rng, m, len(m.flight) - 1 if m.flight else 0, False))
    if rng.random() < 0.3:
        evs.append(ev_gone(rng, m, i, t))
        evs.append(ev_deliver(rng, m, len(m.flight) - 1 if m.flight else 0, False))


def random_tail(rng, m, topics, evs, n):
    for _ in range(n):
        r = rng.random()
        if r < 0.27:
            evs.append(ev_send(rng, m, rng.choice(m.names), rng.choice(topics)))
        elif r < 0.35:
            evs.append(ev_route(rng, m, rng.choice(m.names), rng.choice(topics)))
        elif r < 0.39:
            evs.append(ev_gone(rng, m, rng.choice(m.names), rng.choice(topics)))
        elif r < 0.62:
            evs.append(ev_deliver(rng, m))
        elif r < 0.74:
            i = rng.choice(m.names)
            x = rng.random()
            if x < 0.15:
                lst = None
            elif x < 0.45:
                lst = rng.sample(m.names, len(m.names))
            elif x < 0.5:
                lst = []
            else:
                lst = other_lists(rng, m.names, m.lists[i])
            evs.append(ev_rehash(rng, m, i, lst))
        elif r < 0.86:
            c = sorted(m.contact)
            evs.append(ev_forge(rng, m, after_contact=rng.choice(c) if c and rng.random() < 0.6 else None,
                                topic=rng.choice(topics)))
        elif r < 0.94:
            i = rng.choice(m.names)
            t = rng.choice(topics)
            if t in m.topics[i] and rng.random() < 0.4:
                m.topics[i].discard(t)
                evs.append("t:%s:%s" % (i, t))
            else:
                evs.append(ev_topic(rng, m, i, t))
        elif r < 0.97:
            if m.flight:
                k = rng.randrange(len(m.flight))
                m.flight.pop(k)
                evs.append("X:%d" % k)
        else:
            # a master response for a proxy topic (no signature field at all)
            i = rng.choice(m.names)
            t = rng.choice(topics)
            evs.append(ev_topic(rng, m, i, t, "p"))
            evs.append("F:p:%s:%s:1" % (i, t))
            m.flight.append((i, "fp", "-", t))
            evs.append(ev_deliver(rng, m, len(m.flight) - 1, False))


# fixed scenario: the master keeps its multiplexing session, rehashes, and the proxy goes on with the old ring
def fixed_scripts():
    res = []
    names = ["a", "b", "c"]
    for t in TOPICS:
        for snd in names:
            o = ring_owner(names, t)
            if o == snd:
                continue
            less = [x for x in names if x not in (o, snd)]
            two = [o, snd]
            for rt in (1, 3, 4):
                res.append("X a,b,c T:%s:%s:s S:%s:%d:%s:%s:1 D:0:0 R:%s:%s S:%s:%d:%s:%s:1 D:0:0 R:%s:%s S:%s:%d:%s:%s:1 D:0:0 D:0:0"
                           % (o, t, snd, rt, t, t, o, ",".join(two), snd, rt, t, t, snd, ",".join(reversed(two)), snd, rt, t, t))
            break
        if len(res) >= 9:
            break
    return res


def gen_scripts(ctx):
    rng = ctx.rng
    quick = ctx.tier == "quick"
    scripts = fixed_scripts()
    for _ in range(700 if quick else 8000):
        names = list(rng.choice(NODE_SETS))
        rng.shuffle(names)
        topics = rng.sample(TOPICS, rng.randrange(2, 6))
        m = Mirror(names)
        evs = []
        for _ in range(rng.randrange(0, 3)):
            template(rng, m, topics, evs)
        random_tail(rng, m, topics, evs, rng.randrange(4, 30 if quick else 60))
        if rng.random() < 0.5:
            template(rng, m, topics, evs)
        while m.flight and rng.random() < 0.8:
            evs.append(ev_deliver(rng, m))
        scripts.append("X %s %s" % (",".join(names), " ".join(evs)))
    return list(dict.fromkeys(scripts))


# ---------------------------------------------------------------------------
# reading the implementation's trace

def parse_d(a):
    w = a.split()
    d = {"raw": a, "hang": "HANG" in w, "panic": "PANIC" in w}
    for x in w[1:]:
        if "=" in x:
            k, v = x.split("=", 1)
            d[k] = v
    return d


def walk(script, answer):
    """replays the script next to the implementation's answers; yields one record per event with what
    the laws need: the node lists (from the R events alone), the messages on the wire with the
    signature the implementation reported for them"""
    w = script.split()
    names = w[1].split(",")
    evs = w[2:]
    ans = answer.split("|")
    lists = {n: list(names) for n in names}
    flight = []
    store = {n: 0 for n in names}
    sig_obs = []        # (canonical node list, sig hex, where)
    get_obs = []        # (canonical node list, topic, owner hex)
    recs = []
    if ans and ans[0].startswith("I "):
        sig_obs.append((canon(names), ans[0].split()[1], "initial ring"))
    ans = ans[1:]
    for k, ev in enumerate(evs):
        if k >= len(ans):
            break
        a = ans[k]
        f = ev.split(":")
        rec = {"k": k, "ev": ev, "ans": a, "kind": f[0]}
        if f[0] == "R" and f[1] in lists and a.startswith("R "):
            lst = list(names) if f[2] == "*" else [] if f[2] == "-" else f[2].split(",")
            lists[f[1]] = lst
            sig_obs.append((canon(lst), a.split()[1], "event %d %s" % (k, ev)))
        elif f[0] in "SGU" and f[1] in lists:
            topic = f[3] if f[0] == "S" else f[2]
            aw = a.split()
            if aw[0] == "S":
                get_obs.append((canon(lists[f[1]]), topic, aw[3]))
                sig_obs.append((canon(lists[f[1]]), aw[2], "event %d %s (stamped by the sender)" % (k, ev)))
                flight.append({"to": aw[1], "kind": "r" if f[0] == "U" else "q", "sig": aw[2], "origin": list(lists[f[1]]),
                               "node": f[1], "gone": f[0] == "G", "honest": True, "sent_at": k, "ev": ev})
                rec["stamped"] = aw[2]
                rec["sender_list"] = list(lists[f[1]])
            elif aw[0] == "N":
                get_obs.append((canon(lists[f[1]]), topic, aw[1]))
        elif f[0] == "F" and a.startswith("F "):
            sig = a.split()[1]
            spec = f[4] if f[1] in "qr" else ""
            origin = None
            if spec.startswith("="):
                origin = [] if spec[1:] == "-" else spec[1:].split(",")
            if f[1] == "q":
                flight.append({"to": f[2], "kind": "q", "sig": sig, "origin": origin, "node": f[3], "gone": f[9] == "1",
                               "honest": False, "sent_at": k, "ev": ev})
            elif f[1] == "r":
                flight.append({"to": f[2], "kind": "r", "sig": sig, "origin": origin, "node": f[3], "gone": False,
                               "honest": False, "sent_at": k, "ev": ev})
            else:
                flight.append({"to": f[2], "kind": "p", "sig": None, "origin": None, "node": "-", "gone": False,
                               "honest": False, "sent_at": k, "ev": ev})
        elif f[0] == "X":
            i = int(f[1])
            if i < len(flight):
                flight.pop(i)
        elif f[0] == "D":
            i = int(f[1])
            if i < len(flight):
                msg = flight.pop(i)
                rec["msg"] = msg
                if a.startswith("D "):
                    d = parse_d(a)
                    rec["d"] = d
                    to = msg["to"]
                    rec["recv_list"] = list(lists.get(to, []))
                    rec["recv_peers"] = [n for n in names if n != to]
                    rec["store_before"] = store.get(to, 0)
                    if "store" in d:
                        store[to] = int(d["store"])
                    if "cur" in d and to in lists:
                        sig_obs.append((canon(lists[to]), d["cur"], "event %d %s (receiver's Signature())" % (k, ev)))
        recs.append(rec)
    return recs, sig_obs, get_obs


def project(answer):
    """the compared projection: everything but the receiver's raw signature and the ring owner"""
    out = []
    for a in answer.split("|"):
        w = a.split()
        if w and w[0] == "D":
            w = [x for x in w if not x.startswith("cur=")]
        elif w and w[0] == "S":
            w = w[:3]
        elif w and w[0] == "N":
            w = w[:1]
        out.append(" ".join(w))
    return "|".join(out)


def monitors(scripts, table):
    """the property's laws on the IMPLEMENTATION's trace -> list of (law, script, event index, detail)"""
    fails = []
    for sc in scripts:
        a = table.get(sc)
        if a is None:
            continue
        recs, sig_obs, _ = walk(sc, a)
        # the signature a node uses is a function of the SET of nodes of its last rehash
        by_list, by_sig = {}, {}
        for lst, sig, where in sig_obs:
            if lst in by_list and by_list[lst][0] != sig:
                fails.append(("ring-signature-tracks-rehash", sc, None,
                              "node list {%s}: signature %s at %s but %s at %s (a sender must stamp, and a receiver must compare with, "
                              "the signature of the ring of its last rehash)" % (lst, by_list[lst][0], by_list[lst][1], sig, where)))
                break
            by_list.setdefault(lst, (sig, where))
            if sig in by_sig and by_sig[sig][0] != lst:
                fails.append(("ring-signature-tracks-rehash", sc, None,
                              "node lists {%s} (%s) and {%s} (%s) have the same signature %s" % (by_sig[sig][0], by_sig[sig][1], lst, where, sig)))
                break
            by_sig.setdefault(sig, (lst, where))
        for r in recs:
            if r["kind"] != "D" or "d" not in r:
                continue
            d, msg = r["d"], r["msg"]
            if d["hang"] or msg["kind"] == "p" or msg["gone"]:
                continue
            served = d.get("dst", "-") != "-" or d.get("r500", "0") != "0"
            effect = served or d["panic"] or int(d.get("store", "0")) != r["store_before"]
            must_reject = msg["kind"] == "r" or msg["node"] in r["recv_peers"]
            what = "%s made at event %d (%s)" % ("request" if msg["kind"] == "q" else "route message", msg["sent_at"], msg["ev"])
            if msg["sig"] != d.get("cur"):
                if effect:
                    fails.append(("gate-stale-signature-served", sc, r["k"],
                                  "%s carries signature %s, the receiver %s has %s at delivery (event %d), yet: %s"
                                  % (what, msg["sig"], msg["to"], d.get("cur"), r["k"], d["raw"])))
                elif must_reject and d.get("rej") != "1":
                    fails.append(("gate-stale-signature-not-rejected", sc, r["k"],
                                  "%s carries signature %s, the receiver %s has %s, and the sender is not told (rejected=false): %s"
                                  % (what, msg["sig"], msg["to"], d.get("cur"), d["raw"])))
            if msg["origin"] is not None and sorted(msg["origin"]) != sorted(r["recv_list"]) and served:
                fails.append(("gate-rings-differ-served", sc, r["k"],
                              "%s carries the signature of the ring of {%s}; the ring of the receiver %s at delivery (event %d) is that of {%s}, and it served it: %s"
                              % (what, canon(msg["origin"]), msg["to"], r["k"], canon(r["recv_list"]), d["raw"])))
    return fails


def model_line(sc, answer):
    """the script as the model runner takes it: forged signatures as raw bytes, and the tables of
    what the implementation's ring answered (Signature() per node set, Get() per node set and topic)"""
    recs, sig_obs, get_obs = walk(sc, answer)
    w = sc.split()
    evs = w[2:]
    for r in recs:
        if r["kind"] == "F" and r["ans"].startswith("F "):
            f = r["ev"].split(":")
            if f[1] in "qr":
                f[4] = "#" + r["ans"].split()[1]
                evs[r["k"]] = ":".join(f)
    st, gt = {}, {}
    for lst, sig, _ in sig_obs:
        st.setdefault(lst, sig)
    for lst, t, o in get_obs:
        gt.setdefault(lst + "/" + t, o)
    return "X %s %s T %s %s" % (w[1], " ".join(evs), ";".join("%s=%s" % kv for kv in sorted(st.items())) or ".",
                                ";".join("%s=%s" % kv for kv in sorted(gt.items())) or ".")


def shrink(ctx, sc, law, k):
    """shorter script with the same law failing: cut after the failing event, then drop single events"""
    w = sc.split()
    head, evs = w[:2], w[2:]
    if k is not None:
        evs = evs[:k + 1]
    best = evs

    def fails(e):
        s = " ".join(head + e)
        rc, out, _ = ctx.run_main_lines("c17x", [s], timeout=300)
        if rc != 0 or len(out) != 1:
            return False
        return any(f[0] == law for f in monitors([s], {s: out[0]}))
    if not fails(best):
        return sc
    budget = 160
    changed = True
    while changed and budget > 0:
        changed = False
        i = len(best) - 2
        while i >= 0 and budget > 0:
            cand = best[:i] + best[i + 1:]
            budget -= 1
            if fails(cand):
                best = cand
                changed = True
            i -= 1
    return " ".join(head + best)


def neighbours(ctx, sc, answer):
    """near a script on which model and implementation disagree: the same script with the receiver
    rehashed just before each delivery, and with each delivery repeated after a rehash"""
    recs, _, _ = walk(sc, answer)
    w = sc.split()
    names = w[1].split(",")
    evs = w[2:]
    res = []
    for r in recs:
        if r["kind"] == "D" and "msg" in r and r["msg"]["to"] in names:
            to = r["msg"]["to"]
            for lst in ([x for x in names if x != to][:1] + [to], [to], names[:-1] if names[-1] != to else names[1:]):
                res.append(" ".join(w[:2] + evs[:r["k"]] + ["R:%s:%s" % (to, enc_list(lst))] + evs[r["k"]:]))
    return list(dict.fromkeys(res))[:400]


def run_gate(ctx):
    if ctx.replay:
        rp = json.load(open(ctx.replay))
        scripts = [r["case"] for r in [rp["replay"]] + rp.get("more_cases", [])
                   if isinstance(r, dict) and r.get("case") and r["case"].startswith("X ")]
    else:
        scripts = gen_scripts(ctx)
    if not scripts:
        return
    rc, impl, log = ctx.run_main_lines("c17x", scripts, timeout=1500)
    if rc != 0 or len(impl) != len(scripts):
        ctx.violation("corr", "driver-crashed", "package-main gate driver failed rc=%s: %s" % (rc, log[-1500:]),
                      {"correspondence": "gate driver run", "stderr": log[-3000:]})
        return
    table = dict(zip(scripts, impl))
    rc, model, err = ctx.run_model("c17x", [model_line(sc, table[sc]) for sc in scripts])
    if rc != 0 or len(model) != len(scripts):
        ctx.violation("proof", "runner-crashed", "gate model runner failed: " + err[-1500:], {"theorem_or_obligation": "model runner"})
        return
    fails = monitors(scripts, table)
    mism = [(c, i, m) for c, i, m in zip(scripts, impl, model) if project(i) != project(m)]
    searched = 0
    if mism and not fails:
        pool = []
        for c, i, _ in mism[:25]:
            pool += neighbours(ctx, c, i)
        pool = list(dict.fromkeys(pool))[:1500]
        if pool:
            rc2, impl2, _ = ctx.run_main_lines("c17x", pool, timeout=1500)
            if rc2 == 0 and len(impl2) == len(pool):
                t2 = dict(zip(pool, impl2))
                fails = monitors(pool, t2)
                table.update(t2)
                searched = len(pool)
    seen = set()
    for law, sc, k, detail in fails:
        if law in seen:
            continue
        seen.add(law)
        small = shrink(ctx, sc, law, k)
        if small != sc:
            rc3, out3, _ = ctx.run_main_lines("c17x", [small], timeout=300)
            f3 = [f for f in monitors([small], {small: out3[0]}) if f[0] == law] if rc3 == 0 and len(out3) == 1 else []
            if f3:
                sc, detail = small, f3[0][3]
                table[small] = out3[0]
        n_same = sum(1 for f in fails if f[0] == law)
        ctx.violation("monitor", law, "law %s fails on the implementation (%d failing deliveries this run): %s" % (law, n_same, detail),
                      {"case": sc, "impl": table.get(sc), "law": law, "detail": detail,
                       "how_to_read": "X <nodes> <events>; see harness/overlay/server/zz_verif_c17x_test.go for the event format; "
                                      "answers are per event after the initial 'I <signature>'"})
    if mism and not fails:
        c, i, m = mism[0]
        pi, pm = project(i).split("|"), project(m).split("|")
        k = next((j for j, (x, y) in enumerate(zip(pi, pm)) if x != y), min(len(pi), len(pm)))
        evs = c.split()[2:]
        ctx.violation("corr", "correspondence-gate",
                      "gate model and the real Cluster code disagree on %d of %d scripts, first at event %d (%s) of: %s: impl=%s model=%s; "
                      "no law failure found on %d neighbouring scripts"
                      % (len(mism), len(scripts), k - 1, evs[k - 1] if 0 < k <= len(evs) else "-", c,
                         pi[k] if k < len(pi) else "-", pm[k] if k < len(pm) else "-", searched),
                      {"correspondence": "projection gate (rejected, queue reached, ctrl 500, panic, multiplexing sessions, stamped signature, destination)",
                       "case": c, "impl": i, "model": m})
    # coverage
    kinds = Counter()
    outcomes = Counter()
    stale_on_session = stale_first = delayed_stale = weakened = 0
    for sc in scripts:
        recs, _, _ = walk(sc, table[sc])
        sessions = set()
        for r in recs:
            kinds[r["kind"]] += 1
            if r["kind"] == "D" and "d" in r:
                d, msg = r["d"], r["msg"]
                if msg["kind"] == "p" or d["hang"]:
                    outcomes["response (no signature)"] += 1
                    continue
                stale = msg["sig"] != d.get("cur")
                key = (msg["to"], msg["node"])
                if msg["gone"]:
                    outcomes["tear-down notice"] += 1
                elif stale:
                    outcomes["stale/foreign signature: " + ("rejected" if d.get("rej") == "1" else "ignored (unknown node)")] += 1
                    if msg["kind"] == "q" and r["store_before"] > 0 and key in sessions:
                        stale_on_session += 1
                    else:
                        stale_first += 1
                    if msg["honest"]:
                        delayed_stale += 1
                    elif msg["origin"] is None:
                        weakened += 1
                else:
                    outcomes["current signature: " + (d.get("dst", "-") if d.get("dst", "-") != "-" else
                                                       "500" if d.get("r500") != "0" else "panic" if d["panic"] else
                                                       "rejected (type/nil/busy)" if d.get("rej") == "1" else "no topic / dropped")] += 1
                    if msg["kind"] == "q":
                        sessions.add(key)
    ctx.coverage["gate"] = {
        "scripts": len(scripts), "events": sum(kinds.values()), "events_by_kind": dict(kinds),
        "deliveries_by_outcome": dict(sorted(outcomes.items())),
        "stale_signature_on_existing_multiplexing_session": stale_on_session,
        "stale_signature_without_session": stale_first,
        "stale_because_honest_request_crossed_a_rehash": delayed_stale,
        "weakened_or_junk_signatures": weakened,
        "correspondence_mismatches": len(mism), "monitor_failures": len(fails), "search_pool": searched,
        "rule": "fixed first-contact/rehash/stale/resync scenarios for 3 request types x 3 (sender, master) pairs + seeded random scripts over "
                "3-5 real Cluster values and 2-5 topics: templates (first contact under equal rings, rehash of the master, the proxy or "
                "both at a random point, requests made before and after it, a request left on the wire across it, forged and weakened "
                "signatures on the existing session, resynchronisation with the same nodes in another order, tear-down) and a random "
                "tail (all request types incl. unknown ones, nil CliMsg/Sess, channel requests, route messages, full queues, hub topic "
                "changes, rehash to permutations / subsets / duplicates / empty / nil, lost messages, master responses); the generator "
                "is aimed by a python mirror of the crc32 ring (aim only)",
    }
    ctx.coverage["evaluations"] = ctx.coverage.get("evaluations", 0) + len(scripts)
    ctx.coverage["traces_validated_against_impl"] = ctx.coverage.get("traces_validated_against_impl", 0) + len(scripts)
    ctx.coverage.setdefault("trusted_base", []).append(
        "harness/overlay/server/zz_verif_c17x_test.go: real Cluster.TopicMaster/Route/TopicProxy/rehash/makeClusterReq/routeToTopicMaster/"
        "topicProxyGone/routeToTopicIntraCluster/nodeForTopic/ClusterNode.proxyToMaster/route, real SessionStore and Hub maps; a capturing "
        "rpc.ClientCodec stands for the wire; the clusterWriteLoop a stop message schedules is run by the driver right after the call; "
        "tools/props/c17gate.py law monitors; the model takes Signature()/Get() of a node set from the implementation's own answers "
        "(the ring itself is checked by the ring cases)")
