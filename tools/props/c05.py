"""C05 access-mode algebra: theorems in coq/Props/PropC05.v about coq/Pure/Acs.v;
correspondence against server/store/types (ParseAcs, MarshalText, Delta,
ApplyDelta, ApplyMutation) through harness/ext."""
import itertools
import vlib
from props import purelib

ALPHA = "JrWNn+-x?"
LETTERS = set("JRWPASDOjrwpasdo")


def hx(s):
    return s.encode("latin1").hex() if s else "-"


def aupper(s):
    return "".join(chr(ord(c) - 32) if "a" <= c <= "z" else c for c in s)


def alower(s):
    return "".join(chr(ord(c) + 32) if "A" <= c <= "Z" else c for c in s)


def unhx(h):
    return "" if h == "-" else bytes.fromhex(h).decode("latin1")


def gen_cases(ctx):
    rng = ctx.rng
    cases = []
    quick = ctx.tier == "quick"
    for m in list(range(258)) + [1048576, 511, 1024 + 5]:
        cases.append("M %d" % m)
    # exhaustive 256 x 256 delta/apply round trip
    for o in range(256):
        for n in range(256):
            cases.append("DA %d %d" % (o, n))
    for m in range(256):
        cases.append("RT %d %d" % (m, rng.randrange(257)))
    # all strings up to length L over the small alphabet
    L = 4 if quick else 5
    strs = [""]
    for l in range(1, L + 1):
        strs += ["".join(t) for t in itertools.product(ALPHA, repeat=l)]
    # random longer strings, mostly valid
    full = "JRWPASDOjrwpasdoNn+-"
    for _ in range(3000 if quick else 60000):
        n = rng.randrange(1, 14)
        s = "".join(rng.choice(full) for _ in range(n))
        if rng.random() < 0.15:
            i = rng.randrange(len(s) + 1)
            s = s[:i] + rng.choice("?xz \x00\xff,=N") + s[i:]
        strs.append(s)
    # the AccessMode predicates and comparisons: every value of the low nine bits and the Invalid marker
    # against a seeded second operand, plus seeded pairs (also beyond the byte)
    for m in list(range(512)) + [1048576, 1048576 + 255, 4096 + 128]:
        cases.append("PR %d %d" % (m, rng.randrange(512)))
    for _ in range(2000 if quick else 40000):
        cases.append("PR %d %d" % (rng.choice([rng.randrange(256), rng.randrange(512), rng.randrange(1 << 21)]), rng.randrange(512)))
    curs = [0, 47, 255, 256, 144]
    for s in strs:
        h = hx(s)
        cases.append("P " + h)
        cases.append("P " + hx(aupper(s)))
        cases.append("P " + hx(alower(s)))
        cur = rng.choice(curs)
        cases.append("U %d %s" % (cur, h))
        cases.append("X %d %s" % (cur, h))
        cases.append("A %d %s" % (cur, h))
    return cases


def monitors(cases, t):
    fails = []
    for c in cases:
        w = c.split()
        o = t[c].split()
        if o and o[0] == "PANIC":
            fails.append(("no-panic", c, "panic in the implementation"))
            continue
        if w[0] == "PR":
            m, x = int(w[1]), int(w[2])
            bit = lambda v, k: (v >> k) & 1
            want = [bit(m, 0), bit(m, 1), bit(m, 2), bit(m, 3), bit(m, 4), bit(m, 7) | bit(m, 4) | bit(m, 5), bit(m, 6), bit(m, 7),
                    bit(m, 7) | bit(m, 4), int(m == 0), int(m == 0x100000), int(m not in (0x100000, 0x100)),
                    int((255 & m & ~x) != 0), int((255 & m & x) == x),
                    bit(m, 2) & bit(x, 2), bit(m, 1) & bit(x, 1), bit(m, 7) & bit(x, 7)]
            names = ["IsJoiner", "IsReader", "IsWriter", "IsPresencer", "IsApprover", "IsSharer", "IsDeleter", "IsOwner", "IsAdmin",
                     "IsZero", "IsInvalid", "IsDefined", "BetterThan", "BetterEqual", "effective-IsWriter", "effective-IsReader",
                     "effective-IsOwner"]
            got = o[1] if len(o) > 1 else ""
            for i, nm in enumerate(names):
                if i >= len(got) or int(got[i]) != want[i]:
                    fails.append(("predicate-" + nm, c, "%s of mode %d (second operand %d) is %s, the permission bits say %d"
                                  % (nm, m, x, got[i:i + 1] or "?", want[i])))
                    break
        elif w[0] == "RT":
            if int(w[1]) < 256 and not (o[2] == w[1] and o[3] == "1"):
                fails.append(("parse-marshal-roundtrip", c, "canonical text does not parse back to the set"))
        elif w[0] == "DA":
            if not (o[2] == w[2] and o[3] == "1"):
                fails.append(("delta-apply", c, "o.ApplyDelta(o.Delta(n)) != n"))
        elif w[0] == "P":
            s = unhx(w[1])
            if o[1] != "err":
                bad = [ch for ch in s if ch not in LETTERS and ch not in "Nn"]
                if bad:
                    fails.append(("unknown-letter-rejected", c, "text with unknown letter %r accepted" % bad[0]))
            up = t.get("P " + hx(aupper(s)))
            if up is not None and up != t[c]:
                fails.append(("case-insensitive", c, "upper-case spelling parses differently: %s" % up))
        elif w[0] in ("U", "X", "A"):
            s = unhx(w[2])
            if o[2] == "0" and o[1] != w[1]:
                fails.append(("reject-keeps-target", c, "rejected text changed the target"))
            if s == "" and not (o[1] == w[1] and o[2] == "1"):
                fails.append(("empty-no-change", c, "empty string is not 'no change'"))
            if w[0] in ("U", "X") and o[2] == "1":
                bad = [ch for ch in s if ch not in LETTERS and ch not in "Nn" and not (w[0] == "X" and ch in "+-")]
                if bad:
                    fails.append(("unknown-letter-rejected", c, "text with unknown letter %r accepted" % bad[0]))
    return fails


def neighbours(ctx, case):
    w = case.split()
    res = []
    if w[0] in ("P", "U", "X", "A"):
        s = unhx(w[-1])
        for i in range(len(s) + 1):
            for ch in "JN?+-":
                res.append(" ".join(w[:-1] + [hx(s[:i] + ch + s[i:])]))
            if i < len(s):
                res.append(" ".join(w[:-1] + [hx(s[:i] + s[i + 1:])]))
    if w[0] in ("DA", "RT", "M", "PR"):
        for d in (1, 2, 4, 8, 16, 32, 64, 128):
            res.append(" ".join([w[0]] + [str(int(x) ^ d) for x in w[1:]]))
    return res


def nontrivial(case, out):
    return not ("err" in out or out.endswith(" 0") or case.endswith(" -"))


def run(ctx):
    # layer 2 (change notifications and the parties tracking them) adds its violations and coverage first;
    # layer 1 (the AccessMode algebra) then runs and writes the verdict for both
    # layer 3 (the handlers that interpret a client-supplied default-access mode text) likewise
    from props import c05notify, c05sites
    if c05sites.is_replay(ctx):
        c05sites.run_layer3(ctx)
        ctx.coq_props()
        vlib.proof_violation(ctx)
        ctx.finish()
    if not c05notify.is_l1_replay(ctx):
        c05notify.run_layer2(ctx)
    if c05notify.is_l2_replay(ctx):
        ctx.coq_props()
        vlib.proof_violation(ctx)
        ctx.finish()
    if not ctx.replay:
        c05sites.run_layer3(ctx)
    purelib.run_pure(
        ctx, "c05", gen_cases, monitors, neighbours, nontrivial,
        rule="all 258 modes through MarshalText; all 256x256 (old,new) pairs through Delta+ApplyDelta; every string of length <=4 (quick) / <=5 (thorough) over {J,r,W,N,n,+,-,x,?} and seeded random mostly-valid strings of length 1..14 with a 15% junk insertion, each through ParseAcs (also upper/lower-cased), UnmarshalText, ApplyMutation, ApplyDelta; non-trivial = accepted by the implementation and non-empty",
        trusted=["harness/ext/c05.go (calls types.ParseAcs/MarshalText/UnmarshalText/Delta/ApplyDelta/ApplyMutation of /repo)",
                 "tools/props/c05.py law monitors (python restatement of the theorems, evaluated on the implementation's answers)",
                 "layer 3 (handlers interpreting a default-access mode text): see coverage.layer3.trusted_base",
                 "notifySubChange's dWant/dGiven strings are modelled by Acs.notify_string; their tie to the code is the product harness (C06/C07 runs compare every acs/dacs string), not this driver"])
