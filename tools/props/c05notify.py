"""C05 layer 2: the change notifications of a topic and the parties that track permissions
from them (second sentence of the property).

Scenarios (permission histories on one group topic with several users, sessions attached to the
topic and/or to their user's 'me', a multiplexing session feeding a proxy Topic) run on the REAL
server through harness/overlay/server/zz_verif_c05x_test.go.  From the implementation's own dumps
(cache before/after every request, frames per session, frames of the multiplexing session, the
proxy's table) this module

  * evaluates the property's laws on the IMPLEMENTATION's trace (a failure = a concrete history):
      notification-delta-yields-new   the dacs of every {pres what=acs} frame, applied with the
                                      implementation's ApplyMutation to the old modes of the user it
                                      is about, gives that user's new modes (want and given)
      session-tracks-topic            a session that read its modes from {ctrl}/{meta} and applies
                                      every notification it is sent holds the topic's modes of its
                                      user after every request, while it stays attached to the topic
                                      or to 'me'
      sharer-tracks-subscribers       a sharer's session attached to the topic that read the subscriber
                                      list from {meta sub} and applies every notification about other
                                      users it is sent holds the topic's modes of every other subscriber
      offline-set-sub-not-notified    (known finding) a {set sub} from a session that is not attached changes
                                      the stored want without any notification to the user's tracking sessions
      proxy-tracks-topic              the proxy's perUser table (real proxyMasterResponse /
                                      updateAcsFromPresMsg) equals the master's after every request
  * compares with the extracted model Sys/AcsNotify.v (runner c05x): notify_params on the modes
    before/after as dumped by the implementation vs the emitted strings, proxy_pres vs the proxy's
    table transition, direct_rcpt / bcast_rcpt vs the sessions that received the frames; and with
    Pure/Acs.v (runner c05) every ApplyMutation / UnmarshalText the trackers performed."""
import json
import os
import re
import subprocess
import time
import vlib
from props import topiclib as T

INVALID = 1048576
UNSET = 256
BITS = {c: 1 << i for i, c in enumerate("JRWPASDO")}


def hx(s):
    return s.encode("latin1").hex() if s else "-"


def m2i(s):
    """mode text as printed by the driver -> int"""
    if s == "":
        return UNSET
    if s == "-":
        return INVALID
    if s == "N":
        return 0
    v = 0
    for c in s:
        v |= BITS[c]
    return v


def norm(m):
    return 0 if m in (UNSET, INVALID) else m & 255


def normp(p):
    return (norm(p[0]), norm(p[1]))


def kvs(text):
    return dict(p.split("=", 1) for p in text.split() if "=" in p)


# ---------------------------------------------------------------------------
# scenarios

def rand_mode(rng, j=0.9):
    r = rng.random()
    if r < 0.35:
        m = rng.choice([47, 47, 39, 63, 127, 255, 35, 3, 15, 175, 111, 55, 46, 7, 43])
    else:
        m = rng.randrange(256)
    if rng.random() < j:
        m |= 1
    return m & 255


def mstr(m):
    return "N" if m == 0 else "".join(c for c in "JRWPASDO" if m & BITS[c])


def near(rng, m):
    """a mode at distance 1-2 bits (mute/unmute, one permission more or less)"""
    for _ in range(rng.choice([1, 1, 2])):
        m ^= 1 << rng.choice([1, 2, 3, 3, 3, 4, 5, 6])
    return m & 255


class Gen:
    """history generator; keeps a rough picture of the topic (who is attached, believed modes) to aim
    requests at accepted changes; the picture is never used by the monitor"""

    def __init__(self, rng, sid, kind):
        self.rng = rng
        self.sc = T.Scn(sid)
        self.kind = kind

    def setup(self):
        rng, sc = self.rng, self.sc
        n = rng.choice([2, 3, 3, 4])
        sc.nusers = n
        auth = rng.choice([47, 47, 63, 39, 15, 111, 127, 3])
        sc.head.append("scn %s owner=1 auth=%d anon=0 ownerwant=255 ownergiven=255" % (sc.id, auth))
        self.bel = {1: [255, 255]}
        for i in range(1, n + 1):
            sc.head.append("user %d acc=%d" % (i, rng.choice([47, 47, 63, 127, 255, 15])))
        for i in range(2, n + 1):
            if rng.random() < 0.7:
                want = rand_mode(rng) & 127
                given = rand_mode(rng) if rng.random() < 0.6 else want
                if rng.random() < 0.5:
                    given |= want        # the usual shape: want within given
                if want & given & 128:
                    want &= 127
                sc.head.append("subrow %d want=%d given=%d" % (i, want, given))
                self.bel[i] = [want, given]
        s = 0
        self.meonly = set()
        for i in range(1, n + 1):
            for j in range(rng.choice([1, 2, 2, 3])):
                s += 1
                sc.sessions[s] = i
                sc.head.append("sess %d %d" % (s, i))
                if j > 0 and rng.random() < 0.35:
                    self.meonly.add(s)
        self.att = set()
        self.me = set()
        return self

    def op(self, kind, *args):
        self.sc.ops.append(("N", kind, list(args)))

    def attach(self, s):
        self.op("sub", s, "-", 0)
        self.att.add(s)
        if self.rng.random() < 0.75:
            self.op("getdesc", s)
        if self.rng.random() < 0.3:
            self.op("getsub", s)

    def skeleton(self):
        rng = self.rng
        for s in sorted(self.sc.sessions):
            if s in self.meonly:
                self.op("mesub", s)
                self.me.add(s)
                if rng.random() < 0.8:
                    self.op("getdesc", s)
            elif rng.random() < 0.85:
                self.attach(s)
                if rng.random() < 0.4:
                    self.op("mesub", s)
                    self.me.add(s)

    def user_sessions(self, u, attached=True):
        return [s for s, x in self.sc.sessions.items() if x == u and (s in self.att) == attached and (attached or s not in self.meonly)]

    def hist(self, nops):
        rng, sc = self.rng, self.sc
        self.skeleton()
        users = list(range(1, sc.nusers + 1))
        for _ in range(nops):
            r = rng.random()
            if r < 0.30:
                # a subscriber changes his own want (mute/unmute, fewer/more permissions, self-ban)
                cand = [s for s in self.att]
                if not cand:
                    continue
                s = rng.choice(cand)
                u = sc.sessions[s]
                cur = self.bel.get(u, [47, 47])
                m = near(rng, cur[0]) if rng.random() < 0.6 else rand_mode(rng, 0.93)
                if u == 1:
                    m |= 129
                else:
                    m &= 127
                self.op("setsub", s, 0, hx(mstr(m)))
                cur[0] = m
                self.bel[u] = cur
            elif r < 0.58:
                # an administrator changes somebody's given (or invites)
                adm = [s for s in self.att if self.bel.get(sc.sessions[s], [0, 0])[0] & self.bel.get(sc.sessions[s], [0, 0])[1] & 144]
                if not adm:
                    continue
                s = rng.choice(adm)
                tgt = rng.choice([u for u in users if u != sc.sessions[s]] or [1])
                cur = self.bel.get(tgt)
                if cur is None:
                    m = rand_mode(rng, 1.0) & 127
                    self.op("setsub", s, tgt, hx(mstr(m)) if rng.random() < 0.7 else "-")
                    self.bel[tgt] = [m, m]
                    continue
                m = near(rng, cur[1]) if rng.random() < 0.6 else rand_mode(rng, 0.9)
                if tgt == 1:
                    m |= 129
                elif sc.sessions[s] != 1 or rng.random() < 0.9:
                    m &= 127
                self.op("setsub", s, tgt, hx(mstr(m)))
                cur[1] = m
            elif r < 0.66:
                s = rng.choice(sorted(sc.sessions))
                if s in self.meonly:
                    self.op("getdesc", s)
                elif s in self.att:
                    if rng.random() < 0.66:
                        self.op("getdesc", s)
                    else:
                        self.op("leave", s, 0)
                        self.att.discard(s)
                else:
                    m = rng.choice(["-", "-", hx(mstr(rand_mode(rng, 0.95) & 127))])
                    self.op("sub", s, m, 0)
                    self.att.add(s)
                    if rng.random() < 0.7:
                        self.op("getdesc", s)
            elif r < 0.72:
                s = rng.choice(sorted(sc.sessions))
                if s in self.me:
                    if rng.random() < 0.3:
                        self.op("meleave", s)
                        self.me.discard(s)
                else:
                    self.op("mesub", s)
                    self.me.add(s)
                    if s not in self.att and rng.random() < 0.8:
                        self.op("getdesc", s)
            elif r < 0.78:
                # unsubscribe / eviction
                if rng.random() < 0.5:
                    cand = [s for s in self.att if sc.sessions[s] != 1]
                    if cand:
                        s = rng.choice(cand)
                        self.op("leave", s, 1)
                        u = sc.sessions[s]
                        self.att -= set(x for x in self.att if sc.sessions[x] == u)
                        self.bel.pop(u, None)
                else:
                    adm = [s for s in self.att if self.bel.get(sc.sessions[s], [0, 0])[0] & self.bel.get(sc.sessions[s], [0, 0])[1] & 144]
                    if adm:
                        s = rng.choice(adm)
                        tgt = rng.choice(users)
                        self.op("delsub", s, tgt)
                        if tgt != 1 and tgt != sc.sessions[s]:
                            self.att -= set(x for x in self.att if sc.sessions[x] == tgt)
                            self.bel.pop(tgt, None)
            elif r < 0.84:
                # ownership transfer: the owner grants O, the grantee accepts with an explicit want
                own = [s for s in self.att if sc.sessions[s] == 1]
                oth = [s for s in self.att if sc.sessions[s] != 1 and sc.sessions[s] in self.bel]
                if own and oth:
                    t = rng.choice(oth)
                    tu = sc.sessions[t]
                    g = self.bel[tu][1] | 129
                    self.op("setsub", rng.choice(own), tu, hx(mstr(g)))
                    self.bel[tu][1] = g
                    if rng.random() < 0.7:
                        self.op("setsub", t, 0, hx(mstr(self.bel[tu][0] | 129)))
            elif r < 0.90:
                s = rng.choice(sorted(sc.sessions))
                self.op(rng.choice(["getdesc", "getsub"]), s)
            elif r < 0.94:
                cand = sorted(self.att)
                if cand:
                    self.op("pub", rng.choice(cand), 100 + len(sc.ops), 0)
            elif r < 0.975:
                self.op("unload")
            else:
                self.op("restart")
                self.att = set()
                self.me = set()
        return sc

    def direct(self, nops):
        """notifySubChange called directly over its parameter space"""
        rng, sc = self.rng, self.sc
        self.skeleton()
        if not self.att:
            self.attach(1)
        users = list(range(1, sc.nusers + 1))
        special = [0, UNSET, INVALID, 255, 47, 1, 8, 128]
        for _ in range(nops):
            def pick():
                return rng.choice(special) if rng.random() < 0.35 else rng.randrange(256)
            ow, og = pick(), pick()
            t = rng.random()
            if t < 0.15:
                nw, ng = UNSET, UNSET
            elif t < 0.5:
                nw, ng = near(rng, norm(ow)), near(rng, norm(og))
                if rng.random() < 0.5:
                    nw = ow if ow < 256 else nw
                elif rng.random() < 0.5:
                    ng = og if og < 256 else ng
            else:
                nw, ng = pick(), pick()
            tgt = rng.choice(users)
            act = rng.choice(users)
            skip = rng.choice([0] + sorted(sc.sessions))
            self.op("notify", tgt, act, ow, og, nw, ng, skip)
        return sc


def gen_scenarios(ctx, n_hist, n_direct):
    res = []
    for i in range(n_hist):
        g = Gen(ctx.rng, "h%d" % i, "hist").setup()
        res.append(g.hist(ctx.rng.randint(8, 26)))
    for i in range(n_direct):
        g = Gen(ctx.rng, "d%d" % i, "direct").setup()
        res.append(g.direct(ctx.rng.randint(10, 30)))
    return res


# ---------------------------------------------------------------------------
# running the implementation

def parse(lines):
    """topiclib blocks + this driver's extra lines; every op also gets 'all': frames in arrival order"""
    base = T.parse_blocks(lines)
    cur = None
    op = None
    k = -1
    for ln in lines:
        if not ln:
            continue
        w = ln.split(" ", 1)
        if w[0] == "scn":
            cur = base[w[1]]
            k = -1
            op = None
        elif w[0] == "op":
            k += 1
            op = cur[k]
            op.update({"all": [], "tap": [], "proxy": None, "proxysnap": False, "meatt": set()})
        elif op is None:
            continue
        elif w[0][0] == "S" and w[0][1:].isdigit():
            op["all"].append((int(w[0][1:]), w[1]))
        elif w[0] == "X":
            op["tap"].append(w[1])
        elif w[0] == "proxysnap":
            op["proxysnap"] = True
        elif w[0] == "proxy":
            f = w[1].split()
            if op["proxy"] is None:
                op["proxy"] = {}
            a, b = f[2].split("/")
            op["proxy"][int(f[1])] = (m2i(a), m2i(b))
        elif w[0] == "meatt":
            op["meatt"].add(int(w[1]))
        elif w[0] == "end":
            op = None
    return base


def run_impl(ctx, scns, tag="l2"):
    fin = os.path.join(ctx.work, "c05x_%s.in" % tag)
    fout = os.path.join(ctx.work, "c05x_%s.impl" % tag)
    with open(fin, "w") as f:
        for sc in scns:
            f.write("\n".join(sc.lines()) + "\n")
    if os.path.exists(fout):
        os.remove(fout)
    env = dict(vlib.GOENV, VERIF_IN=fin, VERIF_OUT=fout)
    p = subprocess.run([os.path.join(vlib.BUILD, "maindrv.test"), "-test.run", "^TestVerifC05x$", "-test.count=1", "-test.timeout=3000s"],
                       stdout=subprocess.PIPE, stderr=subprocess.STDOUT, env=env, cwd=os.path.join(vlib.REPO, "server"), timeout=3400)
    out = p.stdout.decode("utf8", "replace")
    lines = open(fout).read().split("\n") if os.path.exists(fout) else []
    log = "\n".join(l for l in out.split("\n") if not (len(l) > 3 and l[0] in "IWE" and l[1:3] == "20"))
    return p.returncode, parse(lines), log


# ---------------------------------------------------------------------------
# analysis of one scenario

class Need(Exception):
    pass


class Algebra:
    """the implementation's ApplyMutation / UnmarshalText, memoised; unknown entries are collected and
    asked from the driver harness/ext (types package of the tree under test) between passes"""

    def __init__(self):
        self.table = {}
        self.missing = set()

    def ask(self, case):
        r = self.table.get(case)
        if r is None:
            self.missing.add(case)
            raise Need()
        return r

    def mutate(self, cur, s):
        w = self.ask("X %d %s" % (cur, hx(s))).split()
        return int(w[1]), w[2] == "1"

    def full(self, s):
        w = self.ask("U 0 %s" % hx(s)).split()
        return int(w[1]) if w[2] == "1" else None


def head_state(sc):
    auth = {}
    for l in sc.head:
        w = l.split()
        d = kvs(l)
        if w[0] == "scn":
            auth[int(d["owner"])] = (int(d["ownerwant"]), int(d["ownergiven"]))
        elif w[0] == "subrow":
            auth[int(w[1])] = (int(d["want"]), int(d["given"]))
    return auth


def block_state(b):
    """(loaded, authoritative modes user -> (want, given), attached sid -> user)"""
    loaded = b["loaded"] == "1"
    auth, att = {}, {}
    if loaded:
        for l in b["cache"]:
            w = l.split()
            if w[0] == "user":
                a, g = w[2].split("/")
                auth[int(w[1])] = (m2i(a), m2i(g))
            elif w[0] == "sess":
                att[int(w[1])] = int(kvs(l)["user"])
    else:
        for l in b["store"]:
            w = l.split()
            if w[0] == "sub" and kvs(l)["deleted"] == "0":
                a, g = w[2].split("/")
                auth[int(w[1])] = (m2i(a), m2i(g))
    return loaded, auth, att


def acs_frame(text):
    """-> (src, tgt, act, (dW, dG) or None) for a {pres what=acs} frame, else None"""
    if not text.startswith("pres what=acs "):
        return None
    d = kvs(text)
    dacs = None
    if "dacs" in d:
        a, g = d["dacs"].split("/", 1)
        dacs = (a, g)
    return d.get("src", ""), int(d["tgt"]), int(d["act"]), dacs


def analyse(sc, blocks, alg, stats=None):
    """-> (law failures [(law, op index, detail)], correspondence items [(runner, case, {field: impl value})])"""
    fails, corr = [], []
    direct = sc.id.startswith("d") or any(o[1] == "notify" for o in sc.ops)
    prev_loaded, prev_auth, prev_att = False, head_state(sc), {}
    prev_proxy = None
    fol = {}                 # sid -> (want, given) | None
    blocked = set()          # sessions whose tracker could not be evaluated in this pass
    tainted = set()          # users whose stored want was changed behind the loaded topic (offline {set})
    tabs = {}                # sid -> {user: (want, given)} | None: a sharer's view of the other subscribers
    blocked2 = set()
    per = {}
    st = stats if stats is not None else {}

    def bump(k, n=1):
        st[k] = st.get(k, 0) + n

    for k, b in enumerate(blocks):
        flt, kind, args = sc.ops[k]
        loaded, auth, att = block_state(b)
        me = b["meatt"]
        req = args[0] if args and kind not in ("unload", "restart", "notify") else None
        requ = sc.sessions.get(req)
        # ---- the permission changes of this request, from the implementation's own dumps
        changes = {}
        if kind == "notify":
            tgt = args[0]
            changes[tgt] = (args[2], args[3], args[4], args[5])
            skip_of = {tgt: args[6]}
        else:
            if loaded and kind not in ("unload", "restart"):
                for u in set(prev_auth) | set(auth):
                    o = prev_auth.get(u, (UNSET, UNSET))
                    n = auth.get(u, (UNSET, UNSET))
                    if o != n:
                        changes[u] = (o[0], o[1], n[0], n[1])
            # notifySubChange(skip): the requesting session, except for the previous owner of a transfer
            skip_of = {}
            for u in changes:
                self_req = kind in ("sub", "leave") or (kind == "setsub" and (args[1] == 0 or args[1] == requ))
                skip_of[u] = 0 if (self_req and u != requ) else (req or 0)
        if changes:
            bump("changes", len(changes))
        # ---- every acs notification: content law + model correspondence
        seen_direct, seen_bcast = {}, {}
        frames = [(sid, t) for sid, t in b["all"]] + [(None, t) for t in b["tap"]]
        for sid, t in frames:
            f = acs_frame(t)
            if f is None:
                continue
            src, tgt, act, dacs = f
            us = sc.sessions.get(sid)
            if src == "":
                v = us
                if sid is None:
                    v = list(changes)[0] if len(changes) == 1 else None
                else:
                    seen_direct.setdefault(v, set()).add(sid)
            elif src == "T":
                v = tgt if tgt != 0 else us
            elif src.startswith("u"):
                v = int(src[1:])
                if sid is not None:
                    seen_bcast.setdefault(v, set()).add(sid)
            else:
                continue
            if v is None:
                continue
            bump("acs_frames")
            ch = changes.get(v)
            if ch is None:
                o = auth.get(v, (UNSET, UNSET))
                ch = (o[0], o[1], o[0], o[1])
            ow, og, nw, ng = ch
            dW, dG = dacs if dacs else ("", "")
            corr.append(("c05x", "NP %d %d %d %d" % ch, {"w": hx(dW), "g": hx(dG), "acs": "1" if dacs else "0"},
                         "op %d: {pres acs} about user %s to %s: %s" % (k, v, "the multiplexing session" if sid is None else "session %d" % sid, t)))
            try:
                rw, okw = alg.mutate(norm(ow), dW)
                rg, okg = alg.mutate(norm(og), dG)
                if not (okw and okg and rw == norm(nw) and rg == norm(ng)):
                    fails.append(("notification-delta-yields-new", k,
                                  "request %d (%s %s): the notification about user %s sent to %s carries dacs=%s/%s; the topic's modes of that user went %s/%s -> %s/%s, "
                                  "but the notified difference applied to the old modes gives %s/%s" %
                                  (k + 1, kind, args, v, "the proxy (multiplexing session)" if sid is None else "session %s" % sid, dW, dG,
                                   mstr2(ow), mstr2(og), mstr2(nw), mstr2(ng),
                                   mstr2(rw) if okw else "error", mstr2(rg) if okg else "error")))
            except Need:
                pass
        # ---- who was told (model correspondence)
        for v, ch in changes.items():
            unsub = ch[2] == UNSET or ch[3] == UNSET
            sk = skip_of.get(v, 0)
            before_att = att if kind == "notify" else prev_att
            ents = ["%d:%d:1:%d:%d" % (s, u, norm(prev_auth.get(u, (0, 0))[0]), norm(prev_auth.get(u, (0, 0))[1])) for s, u in sorted(before_att.items())]
            if ents or seen_direct.get(v):
                corr.append(("c05x", "RC %d %d %d %s" % (v, sk, 1 if unsub else 0, " ".join(ents)),
                             {"d": ",".join(str(x) for x in sorted(seen_direct.get(v, ()))) or "-"},
                             "op %d: sessions of user %d that received the direct notification" % (k, v)))
            ents = ["%d:%d:1:%d:%d" % (s, u, norm(auth.get(u, (0, 0))[0]), norm(auth.get(u, (0, 0))[1])) for s, u in sorted(att.items())]
            if ents or seen_bcast.get(v):
                corr.append(("c05x", "RC %d %d %d %s" % (v, sk, 1 if unsub else 0, " ".join(ents)),
                             {"b": ",".join(str(x) for x in sorted(seen_bcast.get(v, ()))) or "-"},
                             "op %d: sessions that received the notification about user %d through the topic" % (k, v)))
        # ---- the proxy
        if b["proxy"] is not None and loaded:
            if not b["proxysnap"] and prev_proxy is not None:
                per = {}
                for t in b["tap"]:
                    f = acs_frame(t)
                    if f and f[0].startswith("u"):
                        per.setdefault(int(f[0][1:]), []).append(f[3])
                for v, lst in per.items():
                    if len(lst) == 1:
                        o = prev_proxy.get(v)
                        n = b["proxy"].get(v)
                        dacs = lst[0]
                        corr.append(("c05x", "PX %d %d %d 1 %d %s %s" % (1 if o else 0, o[0] if o else 0, o[1] if o else 0, 1 if dacs else 0,
                                                                        hx(dacs[0]) if dacs else "-", hx(dacs[1]) if dacs else "-"),
                                     {"px": "%d %d" % n if n else "none"}, "op %d: proxy entry of user %d" % (k, v)))
                if not direct:
                    bump("proxy_checks")
                    for u in sorted(set(auth) | set(b["proxy"])):
                        have = normp(b["proxy"].get(u, (0, 0)))
                        want = normp(auth.get(u, (UNSET, UNSET)))
                        if have != want:
                            fails.append(("proxy-tracks-topic", k,
                                          "after request %d (%s %s) the proxy of the topic holds %s/%s for user %d, the master topic holds %s/%s; notifications the proxy received: %s" %
                                          (k + 1, kind, args, mstr2(have[0]), mstr2(have[1]), u, mstr2(want[0]), mstr2(want[1]), b["tap"])))
                            break
            prev_proxy = b["proxy"]
        else:
            prev_proxy = None
        # ---- sessions tracking their own subscription
        if not direct:
            if kind == "restart":
                fol = {}
                blocked = set()
            per = {}
            for sid, t in b["all"]:
                per.setdefault(sid, []).append(t)
            for sid, lst in per.items():
                us = sc.sessions.get(sid)
                if sid in blocked:
                    continue
                try:
                    for t in lst:
                        if t.startswith("ctrl "):
                            w = t.split()
                            d = kvs(t)
                            if w[1] == "205":
                                if d.get("unsub") == "1":
                                    fol[sid] = None
                            elif w[1] == "200" and sid == req and kind == "leave" and args[1] == 1:
                                fol[sid] = None       # the requester of an unsubscribe knows
                            elif w[1] == "200" and "acs" in d and "user" not in d and sid == req and kind in ("sub", "setsub"):
                                if kind == "setsub" and sid not in prev_att:
                                    # hub.replyOfflineTopicSetSub: the store was written behind the loaded topic, nobody is notified
                                    tainted.add(us)
                                    bump("offline_set")
                                    left = [x for x in sorted(set(att) | set(me)) if x != sid and sc.sessions.get(x) == us and fol.get(x) is not None
                                            and not any(y == x and acs_frame(tt) for y, tt in b["all"])]
                                    if left:
                                        fails.append(("offline-set-sub-not-notified", k,
                                                      "request %d (%s %s) from session %d, which is not attached to the topic, changed the stored want of user %d (reply %s) "
                                                      "but sessions %s of the same user, which track their permissions (attached to the topic or to 'me'), were sent no notification; "
                                                      "the loaded topic still holds %s" %
                                                      (k + 1, kind, args, sid, us, t, left, "/".join(mstr2(x) for x in auth.get(us, (UNSET, UNSET))))))
                                else:
                                    a, g = d["acs"].split("/", 1)
                                    fol[sid] = (alg.full(a), alg.full(g))
                                    bump("snapshots")
                        elif t.startswith("desc ") and sid == req and kind == "getdesc":
                            d = kvs(t)
                            if d["acs"] != "-/-":
                                a, g = d["acs"].split("/", 1)
                                fol[sid] = (alg.full(a), alg.full(g))
                                bump("snapshots")
                        elif t.startswith("pres what=gone ") and kvs(t).get("src") == "T":
                            fol[sid] = None
                        else:
                            f = acs_frame(t)
                            if f is None:
                                continue
                            src, tgt, act, dacs = f
                            if (src == "" or (src == "T" and tgt == 0)) and fol.get(sid) is not None and dacs:
                                cw, cg = fol[sid]
                                if cw is None or cg is None:
                                    continue
                                rw, okw = alg.mutate(cw, dacs[0])
                                rg, okg = alg.mutate(cg, dacs[1])
                                if okw and okg:
                                    fol[sid] = (rw, rg)
                                bump("tracker_updates")
                except Need:
                    blocked.add(sid)
            for sid in list(fol):
                if sid not in att and sid not in me:
                    fol[sid] = None
                elif sc.sessions.get(sid) not in auth:
                    # the subscription is gone: being told so ({pres what=gone} on 'me', {ctrl 205}) is presence
                    # delivery, not permission tracking (see findings/C05.md, observation 2)
                    fol[sid] = None
            for sid, cur in sorted(fol.items()):
                us = sc.sessions.get(sid)
                if cur is None or sid in blocked or us in tainted or None in cur:
                    continue
                bump("tracker_checks")
                want = normp(auth.get(us, (UNSET, UNSET)))
                if normp(cur) != want:
                    where = ("the topic" if sid in att else "") + (" and " if sid in att and sid in me else "") + ("'me'" if sid in me else "")
                    fails.append(("session-tracks-topic", k,
                                  "after request %d (%s %s) session %d of user %d (attached to %s), which read its modes from {ctrl}/{meta} and applied every notification it was sent, "
                                  "holds %s/%s; the topic holds %s/%s; frames it received for this request: %s" %
                                  (k + 1, kind, args, sid, us, where, mstr2(cur[0]), mstr2(cur[1]), mstr2(want[0]), mstr2(want[1]), per.get(sid, []))))
                    fol[sid] = None
        # ---- sharers (A, S or O) attached to the topic tracking the other subscribers' modes
        if not direct:
            if kind == "restart":
                tabs.clear()
                blocked2.clear()
            for sid, lst in per.items():
                if sid in blocked2:
                    continue
                try:
                    for t in lst:
                        if t.startswith("sub ") and sid == req and kind == "getsub" and sid in prev_att and sid in att:
                            rows, full_view = {}, True
                            for row in t.split()[1:]:
                                f = row.split(":")
                                if f[1] == "-/-":
                                    full_view = False
                                    break
                                a, g = f[1].split("/", 1)
                                rows[int(f[0])] = (alg.full(a), alg.full(g))
                            if full_view:
                                tabs[sid] = rows
                                bump("table_snapshots")
                        elif t.startswith("ctrl 200") and sid == req and kind == "delsub" and sid in prev_att:
                            if tabs.get(sid) is not None:
                                tabs[sid][args[1]] = (0, 0)        # the requester of an eviction knows
                        elif t.startswith("ctrl 200 ") and sid == req and kind == "setsub" and sid in prev_att:
                            d = kvs(t)
                            if "acs" in d and "user" in d and tabs.get(sid) is not None:
                                a, g = d["acs"].split("/", 1)
                                tabs[sid][int(d["user"])] = (alg.full(a), alg.full(g))
                        else:
                            f = acs_frame(t)
                            if f and f[0].startswith("u") and f[3] and tabs.get(sid) is not None:
                                v = int(f[0][1:])
                                cw, cg = tabs[sid].get(v, (0, 0))
                                if cw is None or cg is None:
                                    continue
                                rw, okw = alg.mutate(cw, f[3][0])
                                rg, okg = alg.mutate(cg, f[3][1])
                                if okw and okg:
                                    tabs[sid][v] = (rw, rg)
                                bump("table_updates")
                except Need:
                    blocked2.add(sid)
            for sid in list(tabs):
                m = auth.get(sc.sessions.get(sid))
                if sid not in att or m is None or not (norm(m[0]) & norm(m[1]) & 176):
                    tabs[sid] = None          # detached, or no longer entitled to the other users' notifications
            for sid, tab in sorted(tabs.items()):
                if tab is None or sid in blocked2:
                    continue
                us = sc.sessions.get(sid)
                bump("table_checks")
                for u in sorted(set(tab) | set(auth)):
                    if u == us or u in tainted or None in tab.get(u, (0, 0)):
                        continue
                    have = normp(tab.get(u, (0, 0)))
                    want = normp(auth.get(u, (UNSET, UNSET)))
                    if have != want:
                        fails.append(("sharer-tracks-subscribers", k,
                                      "after request %d (%s %s) session %d of user %d (a sharer attached to the topic), which read the subscribers' modes from {meta sub} and applied every "
                                      "notification it was sent, holds %s/%s for user %d; the topic holds %s/%s; frames it received for this request: %s" %
                                      (k + 1, kind, args, sid, us, mstr2(have[0]), mstr2(have[1]), u, mstr2(want[0]), mstr2(want[1]), per.get(sid, []))))
                        tabs[sid] = None
                        break
        prev_loaded, prev_auth, prev_att = loaded, auth, att
    return fails, corr


def mstr2(m):
    if m == UNSET:
        return "(unset)"
    if m == INVALID:
        return "(invalid)"
    return mstr(m & 255)


# ---------------------------------------------------------------------------

def evaluate(ctx, scns, impl, alg, stats=None):
    """fixpoint over the implementation's algebra answers; -> {scn id: (fails, corr)}"""
    for _ in range(64):
        alg.missing = set()
        res = {}
        st = {}
        for sc in scns:
            res[sc.id] = analyse(sc, impl[sc.id], alg, st)
        if not alg.missing:
            if stats is not None:
                stats.update(st)
            return res
        cases = sorted(alg.missing)
        rc, out, err = ctx.run_ext("c05", cases)
        if rc != 0 or len(out) != len(cases):
            raise RuntimeError("ext driver failed: " + err[-500:])
        alg.table.update(zip(cases, out))
    raise RuntimeError("tracker evaluation did not converge")


def model_fields(runner, ans):
    w = ans.split()
    if not w:
        return {}
    if w[0] == "NP" and len(w) >= 5:
        d = kvs(ans)
        return {"w": w[1], "g": w[2], "acs": d.get("acs"), "unsub": d.get("unsub")}
    if w[0] == "PX":
        return {"px": " ".join(w[1:])}
    if w[0] == "RC":
        return kvs(ans)
    return {"raw": ans}


def is_l2_replay(ctx):
    if not ctx.replay:
        return False
    rp = json.load(open(ctx.replay))
    return isinstance(rp.get("replay"), dict) and "ops" in rp["replay"]


def is_l1_replay(ctx):
    return bool(ctx.replay) and not is_l2_replay(ctx)


RULE = ("layer 2: seeded permission histories on one group topic (2-4 users; per user 1-3 sessions attached to the topic and/or to 'me'; "
        "requests: own want changes incl. mute/unmute/self-ban, given changes and invitations by administrators incl. bans, ownership transfer, "
        "leave/unsubscribe/eviction, attach/detach, topic unload, restart; modes half from the usual constants, half uniform over 256 sets, "
        "one-bit neighbours of the current modes preferred) plus scenarios in which Topic.notifySubChange is called directly over "
        "(old want, old given, new want, new given) in {0..255, unset, invalid}^4 with random target/actor/skip")


def run_layer2(ctx):
    """adds this layer's violations and coverage to ctx; never calls ctx.finish()"""
    quick = ctx.tier == "quick"
    ok, out = ctx.coq_build()
    if not ok:
        return            # reported by the proof step of layer 1
    ok, out = ctx.build_runner()
    if not ok:
        return
    ok, out = ctx.build_ext()
    if not ok:
        return
    ok, out = ctx.build_main()
    if not ok:
        ctx.violation("corr", "harness-build-broken", "package-main driver no longer builds against /repo: " + out[-1500:],
                      {"correspondence": "build of harness/overlay against /repo/server"})
        return
    if is_l2_replay(ctx):
        rp = json.load(open(ctx.replay))["replay"]
        sc = T.Scn(rp["head"][0].split()[1])
        sc.head = rp["head"]
        sc.ops = [(o[0], o[1], list(o[2])) for o in rp["ops"]]
        for l in sc.head:
            w = l.split()
            if w[0] == "sess":
                sc.sessions[int(w[1])] = int(w[2])
        scns = [sc]
    else:
        scns = []
        cdir = os.path.join(vlib.ROOT, "corpus", "C05")
        if os.path.isdir(cdir):
            for f in sorted(os.listdir(cdir)):
                rp = json.load(open(os.path.join(cdir, f)))
                sc = T.Scn("c_" + f.split(".")[0])
                sc.head = [("scn %s " % sc.id + " ".join(rp["head"][0].split()[2:]))] + rp["head"][1:]
                sc.ops = [(o[0], o[1], list(o[2])) for o in rp["ops"]]
                for l in sc.head:
                    w = l.split()
                    if w[0] == "sess":
                        sc.sessions[int(w[1])] = int(w[2])
                scns.append(sc)
        scns += gen_scenarios(ctx, 260 if quick else 2500, 60 if quick else 500)
    t0 = time.time()
    rc, impl, log = run_impl(ctx, scns)
    t_impl = time.time() - t0
    bad = next((sc for sc in scns if sc.id not in impl or len(impl[sc.id]) != len(sc.ops)), None)
    if rc != 0 or bad is not None:
        ctx.violation("monitor", "server-crashed", "the server process died or stopped answering while running the notification scenario %s: %s"
                      % (bad.id if bad else "?", log[-1500:]),
                      {"head": bad.head if bad else [], "ops": bad.ops if bad else [], "log": log[-4000:]})
        return
    alg = Algebra()
    stats = {}
    res = evaluate(ctx, scns, impl, alg, stats)
    hangs = [(sc, k) for sc in scns for k, b in enumerate(impl[sc.id]) if b["hang"]]
    fails = []
    for sc in scns:
        for law, k, detail in res[sc.id][0]:
            fails.append((sc, law, k, detail))
    for sc, k in hangs[:1]:
        fails.append((sc, "hang", k, impl[sc.id][k]["hang"]))
    seen = {}
    known = set(f["key"] for f in ctx.load_findings() if f["property"] == ctx.pid)
    for sc, law, k, detail in fails:
        seen.setdefault(law, []).append((sc, k, detail))
    for law, lst in seen.items():
        sc, k, detail = min(lst, key=lambda x: (x[0].id.startswith("d"), x[1], len(x[0].ops)))   # a request history before a direct call
        small = sc.clone(sc.ops[:k + 1])
        small.sessions = sc.sessions
        if not ctx.replay and law not in known:
            def still_bad(c, law=law):
                c.sessions = sc.sessions
                rc2, im2, _ = run_impl(ctx, [c], tag="shrink")
                if rc2 != 0 or c.id not in im2 or len(im2[c.id]) != len(c.ops):
                    return False
                try:
                    r2 = evaluate(ctx, [c], im2, alg)
                except RuntimeError:
                    return False
                return any(l == law for l, _, _ in r2[c.id][0])
            small = T.shrink(ctx, small, still_bad, budget=20 if quick else 120)
            small.sessions = sc.sessions
            try:
                rc2, im2, _ = run_impl(ctx, [small], tag="shrink")
                r2 = evaluate(ctx, [small], im2, alg)
                d2 = [d for l, _, d in r2[small.id][0] if l == law]
                if d2:
                    detail = d2[0]
            except Exception:
                pass
        ctx.violation("monitor", law, "law %s fails on the implementation's trace (%d scenarios this run): %s" % (law, len(set(x[0].id for x in lst)), detail),
                      {"head": small.head, "ops": small.ops, "law": law, "detail": detail, "scenarios_failing": len(set(x[0].id for x in lst)), "layer": 2})
    # ---- correspondence with the extracted model
    items = []
    for sc in scns:
        for runner, case, fields, where in res[sc.id][1]:
            items.append((sc, runner, case, fields, where))
    by_runner = {"c05x": [], "c05": sorted(alg.table)}
    by_runner["c05x"] = sorted(set(case for _, r, case, _, _ in items if r == "c05x"))
    model = {}
    for r, cases in by_runner.items():
        if not cases:
            continue
        rc, out, err = ctx.run_model(r, cases)
        if rc != 0 or len(out) != len(cases):
            ctx.violation("proof", "runner-crashed", "model runner %s failed: %s" % (r, err[-1500:]), {"theorem_or_obligation": "model runner"})
            return
        model[r] = dict(zip(cases, out))
    mism = []
    for case in by_runner["c05"]:
        if model["c05"][case] != alg.table[case]:
            mism.append((None, "c05", case, alg.table[case], model["c05"][case], "ApplyMutation/UnmarshalText performed by a tracker"))
    for sc, runner, case, fields, where in items:
        mf = model_fields(runner, model[runner][case])
        for f, v in fields.items():
            if mf.get(f) != v:
                mism.append((sc, runner, case, "%s=%s" % (f, v), "%s=%s" % (f, mf.get(f)), where))
    if mism and not any(law not in known for _, law, _, _ in fails):
        sc, runner, case, iv, mv, where = mism[0]
        rep = {"correspondence": "projection %s of C05 layer 2" % case.split()[0], "case": case, "impl": iv, "model": mv, "where": where,
               "more": [{"case": m[2], "impl": m[3], "model": m[4], "where": m[5]} for m in mism[1:10]], "layer": 2}
        if sc is not None:
            k = int(re.match(r"op (\d+)", where).group(1)) if re.match(r"op (\d+)", where) else len(sc.ops) - 1
            rep.update({"head": sc.head, "ops": sc.ops[:k + 1]})
        ctx.violation("corr", "correspondence-notify-" + case.split()[0],
                      "the notification model (Sys/AcsNotify.v) and the implementation disagree on %d items, first: %s: %s: impl %s model %s; no law failure on %d scenarios"
                      % (len(mism), where, case, iv, mv, len(scns)), rep)
    kinds = {}
    nops = 0
    for sc in scns:
        for o in sc.ops:
            nops += 1
            kinds[o[1]] = kinds.get(o[1], 0) + 1
    ctx.coverage["layer2"] = {
        "rule": RULE, "scenarios": len(scns), "operations_executed": nops, "op_kinds": kinds,
        "permission_changes_observed": stats.get("changes", 0), "acs_notifications_checked": stats.get("acs_frames", 0),
        "session_tracker_checks": stats.get("tracker_checks", 0), "session_tracker_updates": stats.get("tracker_updates", 0),
        "session_snapshots": stats.get("snapshots", 0), "proxy_table_checks": stats.get("proxy_checks", 0),
        "sharer_table_checks": stats.get("table_checks", 0), "sharer_table_updates": stats.get("table_updates", 0),
        "sharer_table_snapshots": stats.get("table_snapshots", 0),
        "offline_set_requests_excluded": stats.get("offline_set", 0),
        "model_correspondence_items": len(items) + len(by_runner["c05"]), "correspondence_mismatches": len(mism),
        "monitor_failures": len([f for f in fails if f[1] not in known]),
        "known_finding_failures": len([f for f in fails if f[1] in known]), "impl_wall_s": round(t_impl, 1),
        "sample": {"head": scns[-1].head, "ops": scns[-1].ops[:12]} if scns else {},
        "trusted_base": [
            "harness/overlay/server/zz_verif_c05x_test.go: attaches a multiplexing session to the master topic (as cluster.go does for a remote proxy), feeds what it receives to proxyMasterResponse of a proxy Topic whose table was copied from the master, calls notifySubChange directly in the 'notify' scenarios",
            "harness/overlay/server/zz_verif_topic_test.go (request dispatcher, quiescence, canonical frames) and db/memverif",
            "tools/props/c05notify.py: derivation of (old, new) modes from the implementation's cache dumps, tracker bookkeeping (which frames a client applies, when a tracker is entitled to be current); the algebra itself is the implementation's (harness/ext c05: ApplyMutation, UnmarshalText)",
        ],
    }
