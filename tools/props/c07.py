"""C07 permissions change only through authorised requests; bans and limits stick.
Theorems: coq/Props/PropC07.v (group part over Sys/Topic.v, kinds part over Sys/TopicKindsC07.v).
Check: (G) group-topic histories through the topic-history driver (TestVerifTopic) and the
topic model runner; (K) p2p / me / fnd / sys histories through harness/overlay/server/
zz_verif_c07_test.go (TestVerifC07) and the kinds model runner r_c07.ml; (L) groups created
through {sub topic="new"} under a small maxSubscriberCount (implementation only).  The
property's laws are evaluated on the IMPLEMENTATION's traces; the models are compared on the
projection C07 reads (ctrl codes + acs, want/given/deleted per user in store and cache,
attached sessions with their background flag).  Attachment table under bans: g_ban / g_attach_monitor
(laws no-session-attached-without-join, evicted-session-notified), theorems in Sys/TopicAclC07BanF.v."""
import json
import os
import re
import subprocess
import time
import vlib
from props import topiclib as T
from props.statelib import View

J, R, W, P, A, S, D, O = 1, 2, 4, 8, 16, 32, 64, 128
CP2P = 31
LET = "JRWPASDO"
GROUP_LIMIT = 4          # globals.maxSubscriberCount set by zz_verif_topic_test.go = Topic.max_subs


def bits(s):
    if s in ("N", "", "_"):
        return 0
    if s == "-":
        return -1
    return sum(1 << LET.index(c) for c in s if c in LET)


def mstr(m):
    return "".join(c for i, c in enumerate(LET) if m & (1 << i)) or "N"


def hx(s):
    return s.encode("latin1").hex() if s else "-"


# --------------------------------------------------------------------------- mode grammar

def gen_mode(rng, allow_empty=True):
    r = rng.random()
    if r < 0.12 and allow_empty:
        return ""
    if r < 0.22:
        return "N"
    if r < 0.50:
        return rng.choice(["JRWPS", "JRWPAS", "JRWPASDO", "JRWPA", "JRWP", "JR", "JRWPASD", "RWP", "JRWPSO", "JP", "O", "JO", "JRWPD", "JA", "JRWS"])
    if r < 0.86:
        k = rng.randint(1, 8)
        letters = rng.sample(LET, k)
        s = "".join(letters)
        if rng.random() < 0.15:
            s = s.lower()
        return s
    if r < 0.93:   # deltas: not accepted by UnmarshalText -> malformed
        return rng.choice(["+", "-"]) + "".join(rng.sample(LET, rng.randint(1, 3)))
    return rng.choice(["JX", "N?", "J R", "NJ", "jrwpz", "0", "J+W", "+"])


# --------------------------------------------------------------------------- group part: scenarios

ROLES = {   # (want, given) of the seeded subscription; None = no subscription (stranger)
    "approver": (63, 63), "admin-d": (127, 127), "sharer": (47, 47), "member": (15, 15), "reader": (3, 3),
    "banned": (47, 0), "selfbanned": (0, 47), "bothbanned": (0, 0), "nojoin": (14, 46), "pending": (47, 255),
    "stranger": None, "restricted": (47, 3), "wants-more": (127, 15),
}


def g_setup(rng, sid, roles, auth=None):
    sc = T.Scn(sid)
    n = len(roles) + 1
    sc.nusers = n
    auth = rng.choice([47, 47, 47, 63, 15, 3, 14, 0]) if auth is None else auth
    sc.head.append("scn %s owner=1 auth=%d anon=0 ownerwant=255 ownergiven=255" % (sid, auth))
    for i in range(1, n + 1):
        sc.head.append("user %d acc=%d" % (i, rng.choice([47, 47, 63, 31, 15])))
    for i, role in enumerate(roles):
        wg = ROLES[role]
        if wg is not None:
            sc.head.append("subrow %d want=%d given=%d" % (i + 2, wg[0], wg[1]))
    s = 0
    for i in range(1, n + 1):
        for _ in range(2 if rng.random() < 0.25 else 1):
            s += 1
            sc.sessions[s] = i
            sc.head.append("sess %d %d" % (s, i))
    sc.roles = roles
    return sc


def sess_of(sc, user):
    return [s for s, u in sorted(sc.sessions.items()) if u == user]


def g_matrix(ctx, count):
    """actor x target x mode matrix with follow-ups (ban / leave / come back / self-raise)."""
    rng = ctx.rng
    res = []
    rl = list(ROLES)
    for i in range(count):
        k = rng.choice([2, 3, 3])
        roles = [rng.choice(rl) for _ in range(k)]
        sc = g_setup(rng, "m%d" % i, roles)
        users = list(range(1, sc.nusers + 1))
        ops = []
        for u in users:
            if rng.random() < 0.7:
                ops.append(("N", "sub", [sess_of(sc, u)[0], "-", 0]))
        for _ in range(rng.randint(3, 9)):
            a = rng.choice(users)
            t = rng.choice(users)
            sa = rng.choice(sess_of(sc, a))
            r = rng.random()
            if r < 0.34:
                ops.append(("N", "setsub", [sa, t if rng.random() < 0.8 else 0, hx(gen_mode(rng))]))
            elif r < 0.52:
                ops.append(("N", "sub", [sa, hx(gen_mode(rng)), 0]))
            elif r < 0.62:
                ops.append(("N", "leave", [sa, 1 if rng.random() < 0.7 else 0]))
            elif r < 0.70:
                ops.append(("N", "delsub", [sa, t]))
            elif r < 0.78:
                # ban, then the banned user tries to come back in several ways
                st = sess_of(sc, t)[0]
                ops += [("N", "setsub", [sa, t, hx(rng.choice(["N", "RWP", "R"]))]), ("N", "sub", [st, "-", 0]),
                        ("N", "leave", [st, 1]), ("N", "sub", [st, hx(rng.choice(["", "N", "JRWP"])), 0])]
            elif r < 0.86:
                # leave and come back: the previous grant must return
                ops += [("N", "leave", [sa, 1]), ("N", rng.choice(["unload", "sub"]), [] if False else [sa, "-", 0]),
                        ("N", "sub", [sa, hx(gen_mode(rng)), 0])]
            elif r < 0.92:
                ops.append(("N", "setsub", [sa, 0, hx(rng.choice(["JRWPASD", "JRWPASDO", "JRWPAS", "JRWPSD", "JRWPASO"]))]))
            elif r < 0.96:
                ops.append(("N", rng.choice(["unload", "restart"]), []))
            else:
                ops.append(("N", rng.choice(["getsub", "getdesc"]), [sa]))
        # fix the malformed unload entries produced above
        ops = [(f, k, ([] if k in ("unload", "restart") else a)) for f, k, a in ops]
        sc.ops = ops
        res.append(sc)
    return res


def g_limit(ctx, count):
    """more candidates than maxSubscriberCount: self-subscriptions and invitations, leaves in between."""
    rng = ctx.rng
    res = []
    for i in range(count):
        sc = g_setup(rng, "l%d" % i, ["stranger"] * rng.choice([4, 5]), auth=rng.choice([47, 63, 47, 15]))
        users = list(range(2, sc.nusers + 1))
        ops = [("N", "sub", [sess_of(sc, 1)[0], "-", 0])]
        for _ in range(rng.randint(6, 12)):
            u = rng.choice(users)
            r = rng.random()
            if r < 0.45:
                ops.append(("N", "sub", [sess_of(sc, u)[0], "-", 0]))
            elif r < 0.75:
                ops.append(("N", "setsub", [sess_of(sc, 1)[0], u, hx(rng.choice(["", "JRWPS", "JRWPAS"]))]))
            elif r < 0.9:
                ops.append(("N", "leave", [sess_of(sc, u)[0], 1]))
            else:
                ops.append(("N", rng.choice(["unload", "restart", "delsub"]), [] if rng.random() < 0.5 else [sess_of(sc, 1)[0], u]))
        ops = [(f, k, a if k not in ("unload", "restart") else []) for f, k, a in ops]
        ops = [(f, k, a) for f, k, a in ops if not (k == "delsub" and len(a) != 2)]
        sc.ops = ops
        res.append(sc)
    return res


# --------------------------------------------------------------------------- group part: monitor

def g_view(p):
    """the cache a request sees: the loaded one, or what a load builds from the live rows"""
    if p.loaded:
        users = {u: (bits(d["want"]), bits(d["given"])) for u, d in p.cusers.items()}
        owners = {p.cache.get("owner", 0)}
        zero_owner = p.cache.get("owner", 0) == 0
    else:
        users = {u: (bits(d["want"]), bits(d["given"])) for u, d in p.subs.items() if not d["deleted"]}
        owners = {u for u, (w, g) in users.items() if w & g & O}
        zero_owner = not owners
    return users, owners, zero_owner


class _Init:
    pass


def g_initial(sc):
    """the state before the first request: the rows the scenario head creates, nothing loaded"""
    p = _Init()
    p.loaded = False
    p.cusers, p.csess, p.cache = {}, {}, {}
    head = dict(x.split("=") for x in sc.head[0].split()[2:])
    p.subs = {int(head["owner"]): dict(want=mstr(int(head["ownerwant"])), given=mstr(int(head["ownergiven"])), deleted=False)}
    for l in sc.head:
        w = l.split()
        if w[0] == "subrow":
            p.subs[int(w[1])] = dict(want=mstr(int(w[2].split("=")[1])), given=mstr(int(w[3].split("=")[1])), deleted=False)
    return p


def g_monitor(sc, views):
    res = []
    head = dict(x.split("=") for x in sc.head[0].split()[2:])
    auth = int(head["auth"])
    acc = {}
    for l in sc.head:
        w = l.split()
        if w[0] == "user":
            acc[int(w[1])] = int(w[2].split("=")[1])
    prev = g_initial(sc)
    for k, v in enumerate(views):
        fault, kind, args = sc.ops[k]
        a = sc.sessions.get(args[0]) if args else None
        # the subscriber limit, everywhere
        livec = sum(1 for s in v.subs.values() if not s["deleted"])
        if livec > GROUP_LIMIT:
            res.append(("sub-limit", k, "%d live subscriptions, limit %d" % (livec, GROUP_LIMIT)))
        users, owners, zero_owner = g_view(prev)
        # no session of a user whose grant lacks J becomes or stays attached at this request
        if v.loaded:
            for sid, u in v.csess.items():
                g = bits(v.cusers[u]["given"]) if u in v.cusers else 0
                if g & J:
                    continue
                was = prev.loaded and sid in prev.csess
                if not was:
                    stale = kind == "sub" and a == u and u in users and not users[u][0] & J
                    res.append(("banned-user-attached" if stale else "attached-without-join", k,
                                "session %d of user %d becomes attached, grant %s" % (sid, u, mstr(g))))
                elif u in users and users[u][1] & J:
                    res.append(("ban-without-eviction", k, "session %d of user %d stays attached after the grant became %s" % (sid, u, mstr(g))))
        own = kind == "sub" or (kind == "setsub" and args[1] in (0, a))
        other_t = args[1] if kind == "setsub" and args[1] not in (0, a) else None
        pending = a in users and users[a][1] & O and not users[a][0] & O

        def given_ok(u, ng, prow):
            if other_t is not None and u == other_t and a in users:
                eff = users[a][0] & users[a][1]
                if eff & (A | O) and (not ng & O or a in owners):
                    return True
                if eff & (S | A | O) and u not in users and ng == (auth | J):
                    return True
                return False
            if own and u == a:
                if u not in users:
                    return ng == auth or (prow is not None and ng == bits(prow["given"]))
                og = users[u][1]
                if og & O:
                    return ng & og == og
                if og & A:
                    return ng & og == og and not (ng & ~og) & (O | D)
                return False
            if own and u != a and u in owners and pending:
                return ng == (users[u][1] if u in users else 0) & ~O
            return False

        def want_ok(u, nw, ng, prow):
            if own and u == a:
                return True
            if other_t is not None and u == other_t and a in users:
                eff = users[a][0] & users[a][1]
                if eff & (S | A | O) and u not in users:
                    return nw == acc.get(u, 0) & ng or (prow is not None and nw == bits(prow["want"]))
                return False
            if own and u != a and u in owners and pending:
                return nw == (users[u][0] if u in users else 0) & ~O
            return False

        for what, idx, fn in (("given", 1, None), ("want", 0, None)):
            # store
            for u, s in v.subs.items():
                prow = prev.subs.get(u)
                new = bits(s[what])
                old = bits(prow[what]) if prow is not None else None
                if new != old:
                    ok = given_ok(u, new, prow) if what == "given" else want_ok(u, new, bits(s["given"]), prow)
                    if not ok:
                        law = "%s-changed-unauthorised" % what
                        if zero_owner and own and pending:
                            law = "zero-owner-transfer-rewrites-grants"
                        res.append((law, k, "stored %s of user %d: %s -> %s by %s of user %s%s" % (
                            what, u, "-" if old is None else mstr(old), mstr(new), kind, a, " fault=" + fault if fault != "N" else "")))
            # cache
            if v.loaded:
                for u, p in v.cusers.items():
                    new = bits(p[what])
                    old = users[u][idx] if u in users else None
                    if new != old:
                        prow = prev.subs.get(u)
                        ok = given_ok(u, new, prow) if what == "given" else want_ok(u, new, bits(p["given"]), prow)
                        if not ok and u == 0 and zero_owner:
                            ok = False
                        if not ok:
                            law = "cached-%s-changed-unauthorised" % what
                            if zero_owner and own and pending:
                                law = "zero-owner-transfer-rewrites-grants"
                            res.append((law, k, "cached %s of user %d: %s -> %s by %s of user %s" % (
                                what, u, "-" if old is None else mstr(old), mstr(new), kind, a)))
        # re-subscription restores the previous grant
        if own and a in prev.subs and prev.subs[a]["deleted"] and a not in users:
            g0 = bits(prev.subs[a]["given"])
            g1 = bits(v.subs[a]["given"]) if a in v.subs else None
            if g1 != g0:
                res.append(("resubscribe-restores-grant", k, "user %d had grant %s before unsubscribing, has %s after subscribing again (default %s)"
                            % (a, mstr(g0), "-" if g1 is None else mstr(g1), mstr(auth))))
            if v.loaded and a in v.cusers and bits(v.cusers[a]["given"]) != g0:
                res.append(("resubscribe-restores-grant", k, "user %d: cached grant %s after subscribing again, previous grant %s"
                            % (a, v.cusers[a]["given"], mstr(g0))))
        prev = v
    return res



# --------------------------------------------------------------------------- group part: attachment table under bans
# (sessions of mixed kind: foreground and background {hi bkg=true}; 0..3 per user)

BAN_ROLES = ["approver", "admin-d", "sharer", "member", "reader", "restricted", "wants-more", "pending", "stranger", "banned", "selfbanned"]
NOJ_MODES = ["N", "RWP", "R", "RWPS", "RWPAS", "WP", "A"]


def g_ban_setup(rng, sid, roles):
    """like g_setup, but every user gets 0..3 sessions and every session a fixed kind (0 foreground, 1 background)"""
    sc = T.Scn(sid)
    n = len(roles) + 1
    sc.nusers = n
    auth = rng.choice([47, 47, 63, 15, 3])
    sc.head.append("scn %s owner=1 auth=%d anon=0 ownerwant=255 ownergiven=255" % (sid, auth))
    for i in range(1, n + 1):
        sc.head.append("user %d acc=%d" % (i, rng.choice([47, 47, 63, 31, 15])))
    for i, role in enumerate(roles):
        wg = ROLES[role]
        if wg is not None:
            sc.head.append("subrow %d want=%d given=%d" % (i + 2, wg[0], wg[1]))
    s = 0
    sc.bkg = {}
    style = rng.random()
    for i in range(1, n + 1):
        k = rng.choice([1, 1, 2, 3]) if i == 1 else rng.choice([0, 1, 1, 2, 2, 3])
        for _ in range(k):
            s += 1
            sc.sessions[s] = i
            sc.head.append("sess %d %d" % (s, i))
            # some scenarios: background only; some: foreground only; most: mixed
            sc.bkg[s] = 1 if style < 0.3 and i != 1 else 0 if style > 0.9 else rng.choice([0, 1])
    sc.roles = roles
    return sc


def g_ban(ctx, count):
    """users attached through sessions of mixed kind lose J (ban by an approver, self-ban, {del sub}, {leave unsub});
    then they try to come back"""
    rng = ctx.rng
    res = []
    for i in range(count):
        roles = [rng.choice(BAN_ROLES) for _ in range(rng.choice([1, 2, 2, 3]))]
        sc = g_ban_setup(rng, "b%d" % i, roles)
        users = list(range(1, sc.nusers + 1))
        withs = [u for u in users if sess_of(sc, u)]
        ops = []

        def sub(s, mode="-"):
            return ("N", "sub", [s, mode, sc.bkg[s]])
        for u in withs:
            for s in sess_of(sc, u):
                if rng.random() < 0.85:
                    ops.append(sub(s))
        for _ in range(rng.randint(2, 7)):
            a = rng.choice(withs)
            sa = rng.choice(sess_of(sc, a))
            t = rng.choice(users)
            r = rng.random()
            if r < 0.35:      # ban by (someone who may be) an approver
                ops.append(("N", "setsub", [sess_of(sc, rng.choice([1, 1, a]))[0], t, hx(rng.choice(NOJ_MODES))]))
            elif r < 0.55:    # self-ban, through {set sub} or through {sub mode}
                if rng.random() < 0.6:
                    ops.append(("N", "setsub", [sa, rng.choice([0, a]), hx(rng.choice(NOJ_MODES))]))
                else:
                    ops.append(sub(sa, hx(rng.choice(NOJ_MODES))))
            elif r < 0.67:
                ops.append(("N", "delsub", [sess_of(sc, rng.choice([1, 1, a]))[0], t]))
            elif r < 0.77:
                ops.append(("N", "leave", [sa, 1 if rng.random() < 0.7 else 0]))
            elif r < 0.87:    # come back / attach one more session
                ops.append(sub(sa, rng.choice(["-", "-", hx("JRWP"), hx(gen_mode(rng))])))
            elif r < 0.94:    # un-ban
                ops.append(("N", "setsub", [sess_of(sc, 1)[0], t, hx(rng.choice(["JRWP", "JRWPS", "JRWPAS"]))]))
            else:
                ops.append(("N", rng.choice(["unload", "restart", "getsub"]), []))
        ops = [(f, k, ([sess_of(sc, 1)[0]] if k == "getsub" and not a else a)) for f, k, a in ops]
        sc.ops = ops
        res.append(sc)
    return res


def g_attach_monitor(sc, views):
    """the attachment table after every request, read from the implementation's state dump:
    no-session-attached-without-join: a request that leaves the cached effective mode (want & given) of a user without J
      (or removes his entry) leaves NO session of that user attached, whatever its kind;
    evicted-session-notified: every session detached by somebody else's request (or by the user's other session) was
      sent {ctrl 205}."""
    res = []
    prev = g_initial(sc)
    for k, v in enumerate(views):
        fault, kind, args = sc.ops[k]
        a = sc.sessions.get(args[0]) if args else None
        pusers = {u: bits(d["want"]) & bits(d["given"]) for u, d in prev.cusers.items()} if prev.loaded else {}
        if v.loaded:
            for sid, u in sorted(v.csess.items()):
                e = bits(v.cusers[u]["want"]) & bits(v.cusers[u]["given"]) if u in v.cusers else 0
                if e & J:
                    continue
                was = prev.loaded and sid in prev.csess
                if was and pusers.get(u, 0) & J:
                    res.append(("no-session-attached-without-join", k, "session %d of user %d stays attached after %s of user %s left the effective mode %s"
                                % (sid, u, kind, a, mstr(e) if u in v.cusers else "(no entry)")))
                # a session that BECOMES attached without J is reported by g_monitor (attached-without-join / banned-user-attached)
        if prev.loaded and kind not in ("unload", "restart") and not fault.startswith("C"):
            told = set(s for s, t in v.frames if t.startswith("ctrl 205"))
            for sid, u in sorted(prev.csess.items()):
                if v.loaded and sid in v.csess:
                    continue
                if kind == "leave" and args[0] == sid:
                    continue      # the session detached itself and got the reply of its {leave}
                if sid not in told:
                    res.append(("evicted-session-notified", k, "session %d of user %d was detached by %s of user %s without {ctrl 205}" % (sid, u, kind, a)))
        prev = v
    return res


G_OPS = {"sub", "setsub", "delsub", "leave"}


def g_frame_f(t):
    return t.startswith("ctrl ")


def g_line_f(kind, l):
    if kind == "store":
        if l.startswith("sub "):
            return re.sub(r" read=.*? deleted=", " deleted=", l)
        if l.startswith("topic "):
            return "topic owner=" + l.split("owner=")[1]
        return None
    if l.startswith("user "):
        return re.sub(r" read=.*", "", l)
    if l.startswith("sess "):
        return l
    if l.startswith("lastid"):
        return "owner=" + l.split("owner=")[1]
    return None


# --------------------------------------------------------------------------- kinds part

# account default access as the API can produce it (user.go: & ModeCP2P resp. ModeCAuth, | A unless N)
ACC_DEFAULTS = [63, 63, 63, 31, 31, 0, 23, 19, 55, 17, 51]


class KScn:
    def __init__(self, sid, limit=3):
        self.id = sid
        self.limit = limit
        self.users = {}     # idx -> (acc, root)
        self.sessions = {}  # sid -> user
        self.ops = []       # (sid, kind, args)
        self.modelled = True

    @property
    def head(self):
        h = ["kscn %s limit=%d" % (self.id, self.limit)]
        for i, (acc, root) in sorted(self.users.items()):
            h.append("user %d acc=%d%s" % (i, acc, " root=1" if root else ""))
        for s, u in sorted(self.sessions.items()):
            h.append("sess %d %d" % (s, u))
        return h

    def lines(self):
        return self.head + ["op %s %s %s" % (s, k, " ".join(str(x) for x in a)) for s, k, a in self.ops] + ["end"]

    def clone(self, ops):
        c = KScn(self.id, self.limit)
        c.users, c.sessions, c.modelled = self.users, self.sessions, self.modelled
        c.ops = list(ops)
        return c


def k_gen(ctx, count):
    rng = ctx.rng
    res = []
    for i in range(count):
        sc = KScn("k%d" % i)
        n = rng.choice([3, 3, 4])
        for u in range(1, n + 1):
            sc.users[u] = (rng.choice(ACC_DEFAULTS), False)
        if rng.random() < 0.6:
            sc.users[n + 1] = (rng.choice([31, 63]), True)     # a root account
        s = 0
        for u in sorted(sc.users):
            for _ in range(2 if rng.random() < 0.2 else 1):
                s += 1
                sc.sessions[s] = u
        sids = sorted(sc.sessions)
        users = sorted(sc.users)
        ops = []

        def ref_for(u):
            r = rng.random()
            others = [x for x in users if x != u]
            if r < 0.50:
                return "u%d" % rng.choice(others)
            if r < 0.58:
                return "u%d" % u                      # own id: refused
            if r < 0.66:
                return "me"
            if r < 0.72:
                return "fnd"
            if r < 0.79:
                return "sys"
            if r < 0.86:
                return "F%d" % rng.choice(users)       # raw fnd name, own or foreign
            a, b = sorted(rng.sample(users, 2))
            return "P%d.%d" % (a, b)                   # raw p2p name, possibly of two other users
        for _ in range(rng.randint(8, 22)):
            si = rng.choice(sids)
            u = sc.sessions[si]
            r = rng.random()
            ref = ref_for(u)
            if r < 0.40:
                m = gen_mode(rng) if rng.random() < 0.45 else ""
                d = gen_mode(rng) if rng.random() < 0.2 else ""
                ops.append((si, "sub", [ref, hx(m), hx(d)]))
                if rng.random() < 0.3:
                    # once attached: name somebody in {set sub} (the peer, a third user, oneself), with or without a mode
                    t2 = rng.choice([0] + users)
                    ops.append((si, "setsub", [ref, t2, hx(gen_mode(rng) if rng.random() < 0.6 else "")]))
                if rng.random() < 0.15 and ref.startswith("u"):
                    # the peer leaves for good and is invited again
                    pv = int(ref[1:])
                    ps = [s for s in sids if sc.sessions[s] == pv]
                    if ps and pv != u:
                        ops += [(ps[0], "sub", ["u%d" % u, hx(""), hx("")]), (ps[0], "leave", ["u%d" % u, 1]),
                                (si, "setsub", [ref, pv, hx(rng.choice(["", "", "JRWPA", "N"]))])]
            elif r < 0.72:
                t = rng.choice([0, 0] + users)
                ops.append((si, "setsub", [ref, t, hx(gen_mode(rng))]))
            elif r < 0.90:
                ops.append((si, "leave", [ref, 1 if rng.random() < 0.55 else 0]))
            else:
                tok = ref if ref == "sys" else None
                if ref.startswith("u"):
                    a, b = sorted((u, int(ref[1:])))
                    tok = "p%d.%d" % (a, b) if a != b else None
                elif ref == "me":
                    tok = "m%d" % u
                elif ref == "fnd":
                    tok = "f%d" % u
                if tok:
                    ops.append((0, "unload", [tok]))
        if rng.random() < 0.5 and len(users) >= 2:
            # two participants attach and set each other's grant and their own want with grammar modes
            x, y = rng.sample(users, 2)
            sx = [s for s in sids if sc.sessions[s] == x][0]
            sy = [s for s in sids if sc.sessions[s] == y][0]
            ops += [(sx, "sub", ["u%d" % y, hx(gen_mode(rng) if rng.random() < 0.3 else ""), hx("")]), (sy, "sub", ["u%d" % x, hx(""), hx("")])]
            for _ in range(rng.randint(2, 5)):
                s1, me, other = rng.choice([(sx, x, y), (sy, y, x)])
                ops.append((s1, "setsub", ["u%d" % other, rng.choice([other, other, 0, me]), hx(gen_mode(rng))]))
        sc.ops = ops
        res.append(sc)
    return res


def k_gen_limit(ctx, count):
    rng = ctx.rng
    res = []
    for i in range(count):
        sc = KScn("L%d" % i, limit=rng.choice([2, 3, 3, 4]))
        sc.modelled = False
        n = sc.limit + rng.choice([1, 2, 3])
        for u in range(1, n + 1):
            sc.users[u] = (rng.choice([63, 47, 31]), False)
            sc.sessions[u] = u
        # 2 in 5 groups are channel-enabled ({sub topic="nch.."}): every request below still addresses the topic by its
        # grpXXX name, so every subscription is a full one and counts towards the limit
        ops = [(1, "sub", ["nch" if rng.random() < 0.4 else "new", hx(""), hx(rng.choice(["JRWPS", "JRWPAS", ""]))])]
        for _ in range(rng.randint(6, 14)):
            u = rng.randint(2, n)
            r = rng.random()
            if r < 0.45:
                ops.append((u, "sub", ["g1", hx(""), hx("")]))
            elif r < 0.75:
                ops.append((1, "setsub", ["g1", u, hx(rng.choice(["", "JRWPS", "JRWPAS"]))]))
            elif r < 0.9:
                ops.append((u, "leave", ["g1", 1]))
            else:
                ops.append((0, "unload", ["g1"]))
        sc.ops = ops
        res.append(sc)
    return res


def k_parse(lines):
    """-> {scn id: [op dict(frames [(sid, text)], topics {tok: dict(store {u:(w,g,del)}, cache {..}|None, sess {sid:u})}, hang)]}"""
    res, cur, op = {}, None, None
    for ln in lines:
        if not ln:
            continue
        w = ln.split(" ")
        if w[0] == "kscn":
            cur = []
            res[w[1]] = cur
        elif w[0] == "op":
            op = {"frames": [], "topics": {}, "hang": None, "raw": []}
            cur.append(op)
        elif w[0] == "end":
            cur = None
        elif op is None:
            continue
        else:
            op["raw"].append(ln)
            if w[0][0] == "S" and w[0][1:].isdigit():
                op["frames"].append((int(w[0][1:]), ln.split(" ", 1)[1]))
            elif w[0] == "T":
                t = op["topics"].setdefault(w[1], {"store": {}, "cache": None, "sess": {}})
                if w[2] == "store":
                    for e in w[3:]:
                        u, md, dl = e.split(":")
                        wt, g = md.split("/")
                        t["store"][int(u)] = (bits(wt), bits(g), dl == "1")
                else:
                    t["cache"] = {}
                    side = 0
                    for e in w[3:]:
                        if e == "|":
                            side = 1
                        elif e and side == 0:
                            u, md, dl = e.split(":")
                            wt, g = md.split("/")
                            t["cache"][int(u)] = (bits(wt), bits(g), dl == "1")
                        elif e:
                            s, u = e.split(":")
                            t["sess"][int(s)] = int(u)
            elif w[0] == "HANG":
                op["hang"] = ln
            elif w[0] in ("PANIC", "UNMODELLED"):
                op["frames"].append((0, ln))
    return res


def k_run_impl(ctx, scns, tag="k"):
    fin = os.path.join(ctx.work, "kscn_%s.in" % tag)
    fout = os.path.join(ctx.work, "kscn_%s.impl" % tag)
    with open(fin, "w") as f:
        for sc in scns:
            f.write("\n".join(sc.lines()) + "\n")
    if os.path.exists(fout):
        os.remove(fout)
    env = dict(vlib.GOENV, VERIF_IN=fin, VERIF_OUT=fout)
    p = subprocess.run([os.path.join(vlib.BUILD, "maindrv.test"), "-test.run", "^TestVerifC07$", "-test.count=1", "-test.timeout=3000s"],
                       stdout=subprocess.PIPE, stderr=subprocess.STDOUT, env=env, cwd=os.path.join(vlib.REPO, "server"), timeout=3400)
    out = p.stdout.decode("utf8", "replace")
    lines = open(fout).read().split("\n") if os.path.exists(fout) else []
    log = "\n".join(l for l in out.split("\n") if not (len(l) > 3 and l[0] in "IWE" and l[1:3] == "20"))
    return p.returncode, k_parse(lines), log


def k_run_model(ctx, scns):
    lines = []
    for sc in scns:
        lines += sc.lines()
    rc, out, err = ctx.run_model("c07", lines)
    flat = []
    for o in out:
        flat += o.split("\n")
    return rc, k_parse(flat), err


def k_monitor(sc, blocks):
    res = []
    prev = None
    for k, b in enumerate(blocks):
        si, kind, args = sc.ops[k]
        a = sc.sessions.get(si)
        ref = args[0] if args else ""
        for tok, t in b["topics"].items():
            pt = prev["topics"].get(tok, {"store": {}, "cache": None, "sess": {}}) if prev else {"store": {}, "cache": None, "sess": {}}
            places = [("stored", t["store"], pt["store"])]
            if t["cache"] is not None:
                places.append(("cached", t["cache"], pt["cache"] or {}))
            # no session of a user whose grant lacks J becomes attached
            if t["cache"] is not None:
                for s, u in t["sess"].items():
                    g = t["cache"].get(u, (0, 0, False))[1]
                    if not g & J and s not in pt["sess"]:
                        res.append(("banned-user-attached" if kind == "sub" and u == a else "attached-without-join", k,
                                    "%s: session %d of user %d becomes attached, grant %s" % (tok, s, u, mstr(g))))
            # the attachment table under bans, p2p and {sub new} groups (same laws as g_attach_monitor)
            if tok[0] in "pg" and pt["cache"] is not None and kind != "unload":
                told = set(s for s, f in b["frames"] if f.startswith("ctrl 205"))
                for s, u in sorted(pt["sess"].items()):
                    pe = pt["cache"].get(u, (0, 0, False))
                    if t["cache"] is not None and s in t["sess"]:
                        e = t["cache"].get(u, (0, 0, True))
                        if (not (e[0] & e[1] & J) or e[2]) and pe[0] & pe[1] & J and not pe[2]:
                            res.append(("no-session-attached-without-join", k, "%s: session %d of user %d stays attached after %s of user %s left the effective mode %s%s"
                                        % (tok, s, u, kind, a, mstr(e[0] & e[1]), " (deleted)" if e[2] else "")))
                    elif t["cache"] is not None and not (kind == "leave" and s == si) and s not in told:
                        res.append(("evicted-session-notified", k, "%s: session %d of user %d was detached by %s of user %s without {ctrl 205}" % (tok, s, u, kind, a)))
            if tok[0] == "p":
                x, y = (int(z) for z in tok[1:].split("."))
                for where, rows, prows in places:
                    for u, (wt, g, dl) in rows.items():
                        if prows.get(u) == (wt, g, dl) and prev is not None:
                            continue      # nothing new about this row at this request
                        if u not in (x, y):
                            # the reproduced defect: a participant names the third user in {set sub}; everything the
                            # third user does with that subscription afterwards is its consequence
                            invited = (kind == "setsub" and a in (x, y) and args[1] == u) or u in pt["store"]
                            res.append(("p2p-third-participant-by-invite" if invited else "p2p-third-participant", k,
                                        "%s: %s subscription of user %d (%s/%s) in the p2p topic of %d and %d"
                                        % (tok, where, u, mstr(wt), mstr(g), x, y)))
                            continue
                        peer = y if u == x else x
                        pacc = sc.users[peer][0]
                        # the reproduced defect of initTopicP2P: the requester's grant is the peer's account default,
                        # unmasked, written when the row is created by a {sub}; the want "grant | default" follows it
                        # (initTopicP2P also copies the peer's grant, itself such a default, into the requester's want)
                        src = 0
                        if g == pacc:
                            src |= g
                        if peer in rows and rows[peer][1] == sc.users[u][0]:
                            src |= rows[peer][1]
                        own_req = kind == "sub" or (kind == "setsub" and a == u and args[1] in (0, u) and args[2] == "-")
                        from_init = own_req and (g == pacc or src) and (not prows.get(u) or prows[u][2] or prows[u][1] == g)
                        for idx, (nm, m) in enumerate((("want", wt), ("given", g))):
                            oldr = prows.get(u)
                            if prev is not None and oldr is not None and oldr[idx] == m:
                                continue      # this mode did not change at this request
                            derived = (nm == "given" and g == pacc) or (nm == "want" and wt & ~src == 0)
                            if m & ~CP2P:
                                res.append(("p2p-initiator-grant-unmasked" if from_init and derived else "p2p-mode-exceeds-JRWPA", k,
                                            "%s: %s %s of user %d is %s" % (tok, where, nm, u, mstr(m))))
                            if not m & A:
                                old = prows.get(u)
                                if from_init and derived:
                                    law = "p2p-initiator-grant-unmasked"
                                elif (nm == "given" and g == J and kind == "setsub" and a == peer and args[1] == u and args[2] == "-"
                                      and (old is None or old[2])):
                                    law = "p2p-reinvite-grant-lacks-approve"
                                else:
                                    law = "p2p-approve-dropped"
                                res.append((law, k, "%s: %s %s of user %d is %s (no A)" % (tok, where, nm, u, mstr(m))))
                        # who may change what, once the subscription exists
                        old = prows.get(u)
                        if old is not None and not old[2] and not dl and prev is not None:
                            if old[1] != g and not (kind == "setsub" and a == peer and args[1] == u):
                                third = a not in (x, y) and a in pt["store"]     # consequence of the invited third participant
                                res.append(("p2p-third-participant-by-invite" if third else "p2p-given-changed-unauthorised", k, "%s: %s grant of user %d %s -> %s by %s of user %s"
                                            % (tok, where, u, mstr(old[1]), mstr(g), kind, a)))
                            if old[0] != wt and a != u:
                                res.append(("p2p-want-changed-unauthorised", k, "%s: %s want of user %d %s -> %s by %s of user %s"
                                            % (tok, where, u, mstr(old[0]), mstr(wt), kind, a)))
                for s, u in t["sess"].items():
                    if u not in (x, y) and s not in pt["sess"]:
                        res.append(("p2p-third-participant-by-invite" if u in pt["store"] else "p2p-third-participant", k, "%s: session %d of user %d attached to the p2p topic of %d and %d" % (tok, s, u, x, y)))
            elif tok[0] in "mf":
                owner = int(tok[1:])
                for where, rows, prows in places:
                    for u in rows:
                        if u != owner and u not in prows:
                            law = "me-fnd-foreign-subscription-by-invite" if (kind == "setsub" and a == owner and args[1] == u) else "me-fnd-foreign-user"
                            res.append((law, k, "%s: %s subscription of user %d on the %s topic of user %d" % (tok, where, u, "me" if tok[0] == "m" else "fnd", owner)))
                for s, u in t["sess"].items():
                    if u != owner and s not in pt["sess"]:
                        law = "me-fnd-foreign-subscription-by-invite" if u in t["store"] else "me-fnd-foreign-attach"
                        res.append((law, k, "%s: session %d of user %d becomes attached" % (tok, s, u)))
            elif tok == "sys":
                for where, rows, prows in places:
                    for u in rows:
                        if not sc.users[u][1] and u not in prows:
                            res.append(("sys-root-only", k, "sys: %s subscription of non-root user %d" % (where, u)))
                for s, u in t["sess"].items():
                    if not sc.users[u][1] and s not in pt["sess"]:
                        res.append(("sys-root-only", k, "sys: session %d of non-root user %d attached" % (s, u)))
            elif tok[0] == "g":
                livec = sum(1 for (wt, g, dl) in t["store"].values() if not dl)
                if livec > sc.limit:
                    res.append(("sub-limit", k, "%s: %d live subscriptions, maxSubscriberCount=%d" % (tok, livec, sc.limit)))
                if t["cache"] is not None and len(t["cache"]) > sc.limit:
                    res.append(("sub-limit", k, "%s: %d cached subscribers, maxSubscriberCount=%d" % (tok, len(t["cache"]), sc.limit)))
        if b["hang"]:
            res.append(("hang", k, b["hang"]))
        for s, t in b["frames"]:
            if t.startswith("PANIC"):
                res.append(("server-panic", k, t))
        prev = b
    return res


def bits_sub(a, b):
    return a & ~b == 0


# --------------------------------------------------------------------------- the check

def shrink_ops(ctx, sc, still_bad, budget):
    return T.shrink(ctx, sc, still_bad, budget=budget)


def run(ctx):
    ctx.coq_props()
    vlib.proof_violation(ctx)
    ok, out = ctx.build_runner()
    if not ok:
        ctx.violation("proof", "extraction-broken", "model extraction/runner build failed: " + out[-1500:],
                      {"theorem_or_obligation": "extraction of the model"})
        ctx.finish()
    ok, out = ctx.build_main()
    if not ok:
        ctx.violation("corr", "harness-build-broken", "package-main driver no longer builds against the tree under test: " + out[-1500:],
                      {"correspondence": "build of harness/overlay against server/"})
        ctx.finish()
    quick = ctx.tier == "quick"
    tbox = 25 if quick else 120

    # ----- scenarios
    gs, ks = [], []
    if ctx.replay:
        rp = json.load(open(ctx.replay))["replay"]
        if rp["head"][0].startswith("kscn"):
            sc = KScn(rp["head"][0].split()[1], int(rp["head"][0].split("limit=")[1]))
            for l in rp["head"][1:]:
                w = l.split()
                if w[0] == "user":
                    sc.users[int(w[1])] = (int(w[2].split("=")[1]), "root=1" in l)
                elif w[0] == "sess":
                    sc.sessions[int(w[1])] = int(w[2])
            sc.ops = [(o[0], o[1], o[2]) for o in rp["ops"]]
            sc.modelled = not any(o[2] and str(o[2][0]) in ("new", "nch", "g1") for o in sc.ops)
            ks = [sc]
        else:
            sc = T.Scn(rp["head"][0].split()[1])
            sc.head = rp["head"]
            sc.ops = [tuple(o) for o in rp["ops"]]
            for l in sc.head:
                w = l.split()
                if w[0] == "sess":
                    sc.sessions[int(w[1])] = int(w[2])
            gs = [sc]
    else:
        cdir = os.path.join(vlib.ROOT, "corpus", ctx.pid)
        if os.path.isdir(cdir):
            for f in sorted(os.listdir(cdir)):
                rp = json.load(open(os.path.join(cdir, f)))
                name = "c_" + f.split(".")[0]
                if rp["head"][0].startswith("kscn"):
                    sc = KScn(name, int(rp["head"][0].split("limit=")[1]))
                    for l in rp["head"][1:]:
                        w = l.split()
                        if w[0] == "user":
                            sc.users[int(w[1])] = (int(w[2].split("=")[1]), "root=1" in l)
                        elif w[0] == "sess":
                            sc.sessions[int(w[1])] = int(w[2])
                    sc.ops = [(o[0], o[1], o[2]) for o in rp["ops"]]
                    ks.append(sc)
                else:
                    sc = T.Scn(name)
                    sc.head = [("scn %s " % name + " ".join(rp["head"][0].split()[2:]))] + rp["head"][1:]
                    sc.ops = [tuple(o) for o in rp["ops"]]
                    for l in sc.head:
                        w = l.split()
                        if w[0] == "sess":
                            sc.sessions[int(w[1])] = int(w[2])
                    sc.nusers = sum(1 for l in sc.head if l.startswith("user "))
                    gs.append(sc)
        n = 1 if quick else 12
        gs += g_matrix(ctx, 140 * n) + g_limit(ctx, 30 * n) + g_ban(ctx, 90 * n)
        gs += T.gen_scenarios(ctx, 70 * n, "perm", 0.0, prefix="gp") + T.gen_scenarios(ctx, 40 * n, "perm", 0.12, prefix="gf")
        ks += k_gen(ctx, 150 * n) + k_gen_limit(ctx, 30 * n)

    fails = []   # (part, sc, law, k, detail)
    mism = []    # (part, sc, k, diff)
    stats = {"op_kinds": {}, "ctrl_codes": {}, "faults": {}, "nops": 0}
    t_impl = 0.0

    # ----- group part
    g_impl = {}
    if gs:
        t0 = time.time()
        rc, g_impl, log = T.run_impl(ctx, gs, tag="g")
        t_impl += time.time() - t0
        bad = next((sc for sc in gs if sc.id not in g_impl or len(g_impl[sc.id]) != len(sc.ops)), None)
        if rc != 0 or bad is not None:
            ctx.violation("monitor", "server-crashed", "the server process died or stopped answering while running group scenario %s: %s"
                          % (bad.id if bad else "?", log[-1500:]), {"head": bad.head if bad else [], "ops": bad.ops if bad else [], "log": log[-3000:]})
            ctx.finish()
        rc, g_model, err = T.run_model(ctx, gs)
        if rc != 0:
            ctx.violation("proof", "runner-crashed", "model runner failed: " + err[-1500:], {"theorem_or_obligation": "model runner"})
            ctx.finish()
        for sc in gs:
            views = [View(b) for b in g_impl[sc.id]]
            for law, k, detail in g_monitor(sc, views) + g_attach_monitor(sc, views):
                fails.append(("G", sc, law, k, detail))
            for k, b in enumerate(g_impl[sc.id]):
                if b["hang"]:
                    fails.append(("G", sc, "hang", k, b["hang"]))
            io, mo = g_impl[sc.id], g_model.get(sc.id, [])
            if len(io) != len(mo):
                mism.append(("G", sc, -1, [("shape", len(io), len(mo))]))
                continue
            for k in range(len(io)):
                if sc.ops[k][1] in G_OPS:
                    d = T.diff_op(io[k], mo[k], ("frames", "store", "cache"), g_frame_f, g_line_f)
                else:
                    d = T.diff_op(io[k], mo[k], ("store", "cache"), None, g_line_f)
                if d:
                    mism.append(("G", sc, k, d))
                    break
            for k, o in enumerate(sc.ops):
                stats["nops"] += 1
                stats["op_kinds"]["grp." + o[1]] = stats["op_kinds"].get("grp." + o[1], 0) + 1
                if o[0] != "N":
                    stats["faults"][o[0]] = stats["faults"].get(o[0], 0) + 1
                for sid, t in io[k]["frames"]:
                    if t.startswith("ctrl "):
                        c = t.split()[1]
                        stats["ctrl_codes"][c] = stats["ctrl_codes"].get(c, 0) + 1

    # ----- kinds part
    k_impl = {}
    if ks:
        t0 = time.time()
        rc, k_impl, log = k_run_impl(ctx, ks)
        t_impl += time.time() - t0
        bad = next((sc for sc in ks if sc.id not in k_impl or len(k_impl[sc.id]) != len(sc.ops)), None)
        if rc != 0 or bad is not None:
            ctx.violation("monitor", "server-crashed", "the server process died or stopped answering while running kinds scenario %s: %s"
                          % (bad.id if bad else "?", log[-1500:]), {"head": bad.head if bad else [], "ops": bad.ops if bad else [], "log": log[-3000:]})
            ctx.finish()
        mk = [sc for sc in ks if sc.modelled]
        rc, k_model, err = k_run_model(ctx, mk)
        if rc != 0:
            ctx.violation("proof", "runner-crashed", "kinds model runner failed: " + err[-1500:], {"theorem_or_obligation": "model runner"})
            ctx.finish()
        for sc in ks:
            for law, k, detail in k_monitor(sc, k_impl[sc.id]):
                fails.append(("K", sc, law, k, detail))
            for k, o in enumerate(sc.ops):
                stats["nops"] += 1
                kk = ("grpnew." if not sc.modelled else "kind.") + o[1]
                stats["op_kinds"][kk] = stats["op_kinds"].get(kk, 0) + 1
                for sid, t in k_impl[sc.id][k]["frames"]:
                    if t.startswith("ctrl "):
                        c = t.split()[1]
                        stats["ctrl_codes"][c] = stats["ctrl_codes"].get(c, 0) + 1
            if not sc.modelled:
                continue
            io, mo = k_impl[sc.id], k_model.get(sc.id, [])
            if len(io) != len(mo):
                mism.append(("K", sc, -1, [("shape", len(io), len(mo))]))
                continue
            for k in range(len(io)):
                if io[k]["raw"] != mo[k]["raw"]:
                    mism.append(("K", sc, k, [("block", [x for x in io[k]["raw"] if x not in mo[k]["raw"]],
                                              [x for x in mo[k]["raw"] if x not in io[k]["raw"]])]))
                    break

    # ----- report monitor failures: each distinct law once, shrunk
    seen = {}
    for part, sc, law, k, detail in fails:
        seen.setdefault(law, []).append((part, sc, k, detail))
    nshrunk = 0
    for law, lst in seen.items():
        part, sc, k, detail = min(lst, key=lambda x: x[2])
        small = sc.clone(sc.ops[:k + 1])
        if nshrunk < 6 and not ctx.replay:
            nshrunk += 1
            if part == "G":
                def still_bad(c, law=law):
                    rc2, im2, _ = T.run_impl(ctx, [c], tag="shrink")
                    if rc2 != 0 or c.id not in im2 or len(im2[c.id]) != len(c.ops):
                        return False
                    c.sessions = sc.sessions
                    vs2 = [View(b) for b in im2[c.id]]
                    return any(l == law for l, _, _ in g_monitor(c, vs2) + g_attach_monitor(c, vs2))
                small.sessions = sc.sessions
                small = shrink_ops(ctx, small, still_bad, tbox)
            else:
                def still_bad(c, law=law):
                    rc2, im2, _ = k_run_impl(ctx, [c], tag="shrink")
                    return rc2 == 0 and c.id in im2 and len(im2[c.id]) == len(c.ops) and any(l == law for l, _, _ in k_monitor(c, im2[c.id]))
                small = shrink_ops(ctx, small, still_bad, tbox)
        ctx.violation("monitor", law, "law %s fails on the implementation's trace (%d occurrences this run): %s" % (law, len(lst), detail),
                      {"head": small.head, "ops": small.ops, "law": law, "detail": detail, "scenarios_failing": len(set(x[1].id for x in lst))})

    # ----- correspondence: a disagreement with no failing law is reported with the shrunk history
    failing_ids = set(x[1].id for x in fails)
    mism_clean = [m for m in mism if m[1].id not in failing_ids]
    if mism_clean:
        mism_all, mism = mism, mism_clean
        part, sc, k, d = min(mism, key=lambda x: len(x[1].ops))
        base = sc.clone(sc.ops[:k + 1]) if k >= 0 else sc
        if part == "G":
            base.sessions = sc.sessions
        ctx.violation("corr", "correspondence-%s-%s" % (part, sc.ops[k][1] if k >= 0 else "shape"),
                      "model and implementation disagree on %d of %d scenarios on the projection C07 reads; first (cut to the prefix): op %d %s: %s"
                      % (len(mism), len(gs) + len(ks), k, sc.ops[k] if k >= 0 else "", json.dumps(d, default=str)[:900]),
                      {"correspondence": "projection of C07 (%s part)" % ("group" if part == "G" else "kinds"),
                       "head": base.head, "ops": base.ops, "diff": d})
    elif mism:
        ctx.notes.append("%d correspondence mismatches this run, all in scenarios with a failing law (reported above); first: %s op %d"
                         % (len(mism), mism[0][1].id, mism[0][2]))

    nt = 0
    for sc in gs:
        if any(t.startswith("ctrl 200") for b in g_impl.get(sc.id, []) for s, t in b["frames"]):
            nt += 1
    for sc in ks:
        if any(t.startswith("ctrl 200") for b in k_impl.get(sc.id, []) for s, t in b["frames"]):
            nt += 1
    ctx.coverage.update({
        "evaluations": len(gs) + len(ks), "distinct_nontrivial": nt,
        "rule": "group part: actor (owner/approver/admin/sharer/member/reader/banned/self-banned/pending transferee/stranger/restricted) x target x mode-grammar "
                "matrix with ban / leave / come-back, sharer invites with explicit mode, approver self-raise, subscriber-limit overflow, ban histories with 0-3 sessions per user "
                "of mixed kind (foreground / background) under bans by approvers, self-bans, {del sub}, {leave unsub}, come-backs, plus the perm-profile random "
                "histories of topiclib (a share with single store faults / crashes); kinds part: 3-5 accounts with assorted default access (one may be root), "
                "requests sub / set-sub / leave / unload addressed as usrX, me, fnd, sys, raw fnd and raw p2p names (own, foreign, third-party); "
                "groups created by {sub new} under maxSubscriberCount 2-4 with more candidates than places; non-trivial = at least one 200 reply",
        "operations_executed": stats["nops"],
        "samples": [{"head": sc.head, "ops": sc.ops} for sc in (gs[:1] + ks[:1])],
        "traces_validated_against_impl": len(gs) + len(ks), "correspondence_mismatches": len(mism), "monitor_failures": len(fails),
        "laws_failing": sorted(seen),
        "input_distribution": {"op_kinds": stats["op_kinds"], "ctrl_codes": stats["ctrl_codes"], "faults": stats["faults"],
                               "group_scenarios": len(gs), "kinds_scenarios": len([s for s in ks if s.modelled]),
                               "limit_scenarios_impl_only": len([s for s in ks if not s.modelled])},
        "impl_wall_s": round(t_impl, 1),
        "trusted_base": [
            "harness/overlay/server/zz_verif_topic_test.go and zz_verif_c07_test.go: drive the real Hub/Topic/Session code through Session.dispatchRaw, quiescence by goroutine-state snapshot",
            "harness/overlay/server/db/memverif: in-memory adapter written from db/mysql/adapter.go (store contract modelled, not verified)",
            "tools/props/c07.py monitors: python restatement of the property on the implementation's trace",
            "projection compared for C07: ctrl replies (code, acs, user) of sub / set-sub / del-sub / leave, stored want / given / deleted per user and topics.owner, cached want / given (and the p2p deleted flag), Topic.owner, attached sessions",
            "model scope: group part = one non-channel group topic, LevelAuth sessions, defacs fixed per scenario ({set desc} not modelled); kinds part = Auth/Root sessions, no faults; channels, cluster proxies and extra.obo are outside both models",
        ],
    })
    ctx.finish()
