"""C13 slow consumers (fuzz half): connections that stop reading.

The population of the fuzz driver has two connections, `slow` (second connection of the peer user @U2@,
attached to me, the group @GG@, the channel @CC@ as a reader and the p2p topic with @U1@) and `slow2` (third
connection of @U1@, attached to me, @GG@, the channel's group @GC@ and the p2p topic), whose send buffer the
driver fills to capacity on `clog <sess>` and empties on `unclog <sess>`.  While a connection is stuck every
Session.queueOut on it fails, so the next {data} / {info} / {pres} the topic fans out to it takes the real
"connection stuck, detaching" path: Topic.broadcastToSessions -> unregisterSession(init=false) ->
handleLeaveRequest, and the inflightReqs bookkeeping modelled by coq/Sys/Inflight.v.  The stuck connection keeps
SENDING requests (its replies are lost: nothing is demanded of them).

  slow_groups()      deterministic groups, one per broadcast path, for both victims (run in every configuration)
  window(rng, I, G)  a clog / traffic / unclog triple for the random groups (inserted into every generated group)
"""

VICTIMS = {
    # victim: (its user, an attached connection of ANOTHER member, that member's user, p2p name as the actor addresses it, as the victim does)
    "slow": dict(user="@U2@", actor="att", actor_user="@U1@", p2p_actor="@U2@", p2p_victim="@U1@", chan="@CC@"),
    "slow2": dict(user="@U1@", actor="peer", actor_user="@U2@", p2p_actor="@U1@", p2p_victim="@U2@", chan="@GC@"),
}


def pub(i, topic, **kw):
    return {"pub": dict({"id": i, "topic": topic, "content": "x"}, **kw)}


def note(topic, what, seq=None, **kw):
    b = dict({"topic": topic, "what": what}, **kw)
    if seq is not None:
        b["seq"] = seq
    return {"note": b}


def traffic(v, n):
    """Requests of OTHER connections whose fan-out selects the victim, by path."""
    V = VICTIMS[v]
    a = V["actor"]
    i = "w%d" % n
    return {
        "data-grp": [(a, pub(i, "@GG@"))],
        "data-p2p": [(a, pub(i, V["p2p_actor"]))],
        "data-chn": [("att", pub(i, "@GC@"))],
        "info-kp": [(a, note("@GG@", "kp"))],
        "info-read": [(a, note("@GG@", "read", 1))],
        "info-recv": [(a, note("@GG@", "recv", 2))],
        "info-p2p": [(a, note(V["p2p_actor"], "kp")), (a, note(V["p2p_actor"], "read", 1))],
        "pres-upd": [("att", {"set": {"id": i, "topic": "@GG@", "desc": {"public": {"fn": "G" + i}}}})],
        "pres-acs": [("att", {"set": {"id": i, "topic": "@GG@", "sub": {"user": V["user"], "mode": "JRWPS"}}})],
        "pres-acs-own": [(a, {"set": {"id": i, "topic": "@GG@", "sub": {"mode": "JRWP"}}})],
        "pres-tags": [("att", {"set": {"id": i, "topic": "@GG@", "tags": ["grptag", "t" + i]}})],
        "pres-me-msg": [("in", {"sub": {"id": i + "a", "topic": "@GO@"}}), ("in", pub(i + "b", "@GO@"))],
        "pres-me-onoff": [(a, {"leave": {"id": i + "a", "topic": "me"}}), (a, {"sub": {"id": i + "b", "topic": "me"}})],
        "pres-me-ua": [(a, {"hi": {"id": i, "ver": "0.22", "ua": "ua/" + i}})],
        "del-msg": [("att", {"del": {"id": i, "topic": "@GG@", "what": "msg", "delseq": [{"low": 1}], "hard": True}})],
        "call": [(a, pub(i, V["p2p_actor"], head={"webrtc": "started"})), (a, note(V["p2p_actor"], "call", 3, event="hang-up"))],
    }


PATHS = ["data-grp", "data-p2p", "data-chn", "info-kp", "info-read", "info-recv", "info-p2p", "pres-upd", "pres-acs", "pres-acs-own",
         "pres-tags", "pres-me-msg", "pres-me-onoff", "pres-me-ua", "del-msg", "call"]


def own(v, n):
    """Requests of the stuck connection itself (their replies cannot be queued)."""
    V = VICTIMS[v]
    i = "o%d" % n
    return [
        {"get": {"id": i + "a", "topic": "@GG@", "what": "desc sub data del tags"}},
        pub(i + "b", "@GG@"),
        {"leave": {"id": i + "c", "topic": "@GG@"}},
        {"sub": {"id": i + "d", "topic": "@GG@", "get": {"what": "desc sub data"}}},
        {"set": {"id": i + "e", "topic": "@GG@", "desc": {"private": {"note": i}}}},
        note("@GG@", "kp"),
        note("@GG@", "read", 1),
        {"leave": {"id": i + "f", "topic": V["p2p_victim"]}},
        {"sub": {"id": i + "g", "topic": V["p2p_victim"]}},
        {"leave": {"id": i + "h", "topic": "me"}},
        {"sub": {"id": i + "i", "topic": "me", "get": {"what": "sub desc"}}},
        {"del": {"id": i + "j", "topic": "@GG@", "what": "msg", "delseq": [{"low": 1, "hi": 2}]}},
        {"leave": {"id": i + "k", "topic": "nosuch"}},
        {"sub": {"id": i + "l", "topic": "fnd"}},
        {"leave": {"id": i + "m", "topic": "fnd", "unsub": True}},
    ]


def back(v, n):
    """After the connection reads again it must be served like any other: re-attach and ask."""
    V = VICTIMS[v]
    i = "b%d" % n
    return [
        {"sub": {"id": i + "a", "topic": "@GG@"}},
        {"sub": {"id": i + "b", "topic": "me"}},
        {"sub": {"id": i + "c", "topic": V["p2p_victim"]}},
        {"get": {"id": i + "d", "topic": "me", "what": "desc"}},
    ]


def slow_groups(I, C, destructive=True):
    """I(sess, msg) builds an input item, C(op, sess) a clog / unclog item.  Per victim: ONE group chaining every
    broadcast path (clog; the triggering traffic TWICE - the first broadcast detaches the stuck connection from the
    topic it is attached to, the second one then reaches it through its `me` topic as a {pres}, which detaches that
    too -; unclog; the victim re-attaches and asks), one group with the stuck connection's own requests, and - when
    [destructive] - one group each for eviction notices, unsubscription, topic deletion and account deletion."""
    gs = []
    n = 0
    for v in ("slow", "slow2"):
        V = VICTIMS[v]
        g = []
        for path in PATHS:
            n += 1
            g.append(C("clog", v))
            for rep in range(2):
                for sess, m in traffic(v, n * 10 + rep)[path]:
                    g.append(I(sess, m))
            g.append(C("unclog", v))
            g += [I(v, m) for m in back(v, n)]
        gs.append(g)
        # the stuck connection's own requests, then traffic, then its own requests again
        n += 1
        g = [C("clog", v)] + [I(v, m) for m in own(v, n)] + [I(s, m) for s, m in traffic(v, n)["data-grp"]] + [I(v, m) for m in own(v, n + 1000)]
        g += [C("unclog", v)] + [I(v, m) for m in back(v, n)]
        gs.append(g)
        if not destructive:
            continue
        # eviction notices: the subscription of the stuck connection's user is deleted / the user is banned
        n += 1
        if v == "slow":
            gs.append([C("clog", v), I("att", {"del": {"id": "e1", "topic": "@GG@", "what": "sub", "user": V["user"]}}),
                       I("att", pub("e2", "@GG@")), C("unclog", v)] + [I(v, m) for m in back(v, n)]
                      + [C("clog", v), I("att", {"set": {"id": "e3", "topic": "@GG@", "sub": {"user": V["user"], "mode": "N"}}}),
                         I("att", pub("e4", "@GG@")), C("unclog", v)] + [I(v, m) for m in back(v, n)])
        # the other party of a p2p topic / a group member unsubscribes while the connection is stuck
        n += 1
        gs.append([C("clog", v), I(V["actor"], {"leave": {"id": "u1", "topic": V["p2p_actor"], "unsub": True}}),
                   I("peer", {"leave": {"id": "u2", "topic": "@GG@", "unsub": True}}),
                   C("unclog", v)] + [I(v, m) for m in back(v, n)])
        # topic deletion with a stuck connection attached
        n += 1
        gs.append([C("clog", v), I("att", {"del": {"id": "t1", "topic": "@GG@", "what": "topic", "hard": True}}),
                   I("att", {"del": {"id": "t2", "topic": "@GC@", "what": "topic"}}),
                   I("att", {"del": {"id": "t3", "topic": "@U2@", "what": "topic", "hard": True}}),
                   C("unclog", v)] + [I(v, m) for m in back(v, n)])
        # account deletion: of the stuck connection's user (from another connection of that user), of the other member
        n += 1
        other = "peer" if v == "slow" else "att"
        gs.append([C("clog", v), I(other, {"del": {"id": "a1", "what": "user", "hard": True}}), C("unclog", v)] + [I(v, m) for m in back(v, n)])
        n += 1
        gs.append([C("clog", v), I(V["actor"], {"del": {"id": "a2", "what": "user", "hard": True}}), I("root", pub("a3", "sys")), C("unclog", v)]
                  + [I(v, m) for m in back(v, n)])
    # both connections stuck at once; stuck, unstuck, stuck again without re-attaching; clog of a connection the server has already stopped
    n += 1
    gs.append([C("clog", "slow"), C("clog", "slow2"), I("att", pub("d1", "@GG@")), I("peer", pub("d2", "@GG@")), I("peer", pub("d3", "@U1@")),
               I("att", pub("d4", "@GC@")), I("in", {"sub": {"id": "d5", "topic": "@GO@"}}), I("in", pub("d6", "@GO@")),
               C("unclog", "slow2"), C("unclog", "slow")] + [I("slow", m) for m in back("slow", n)] + [I("slow2", m) for m in back("slow2", n)]
              + [C("clog", "slow"), I("att", pub("r1", "@GG@")), C("unclog", "slow"), C("clog", "slow"), I("att", pub("r2", "@GG@")),
                 I("att", pub("r3", "@U2@")), C("unclog", "slow"), I("peer", {"del": {"id": "r4", "what": "user"}}), C("clog", "slow"), C("unclog", "slow")])
    return gs


def window(rng, I, C, gen_any, n):
    """A clog / traffic / unclog triple for a random group: 2..6 inputs while the connection is stuck (the
    traffic of one or two broadcast paths, requests of the stuck connection itself, arbitrary generated inputs on
    any connection incl. the stuck one), then the connection is served again."""
    v = rng.choice(["slow", "slow2"])
    tr = traffic(v, n)
    units = []
    for path in rng.sample(PATHS, rng.choice([1, 2, 2, 3])):
        for rep in range(rng.choice([1, 2])):
            units.append([I(s, m) for s, m in tr[path]])      # a path of two requests (attach, then publish) stays together
    for _ in range(rng.choice([0, 1, 1, 2])):
        units.append([I(v, rng.choice(own(v, n)))])
    for _ in range(rng.choice([0, 1, 2])):
        units.append([gen_any(rng.choice([v, v, "att", "peer", "in", "root"]))])
    rng.shuffle(units)
    items = [C("clog", v)] + [it for u in units for it in u] + [C("unclog", v)]
    items += [I(v, m) for m in rng.sample(back(v, n), 2)]
    return items
