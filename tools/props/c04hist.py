"""C04, layer 2 (history retrieval, permissions, delete transactions, deletion log):
theorems in coq/Props/PropC04.v (second part) over Sys/Topic.v + Sys/TopicHist*.v;
scenarios run on the real hub/topic/session code above memverif (topic-history driver)
and on the extracted model; the laws below are evaluated on the IMPLEMENTATION's trace
and stored rows.

The monitor keeps the specification state of Sys/TopicHist.v (hspec) and moves it with the
accepted requests seen in the implementation's replies exactly as hs_step / event_of do:
  live[id] = (author, content)   soft[user] = set(ids)   hard = set(ids)   log = [(delid, for, ids)]

Laws (names are the violation keys):
  history-needs-attach / history-needs-read      {get data} shows nothing to a detached session / without R
  history-hard-deleted-shown, history-soft-deleted-shown, history-outside-range,
  history-message-missing, history-limit, history-order, history-content, history-count
                                                  the answer is exactly the newest-first prefix (min(limit,100))
                                                  of the live messages in [since,before) not soft-deleted by the requester
  delete-needs-permission                        200 only with R or D in the effective mode, else 403 and no effect
  soft-delete-without-read                       a soft delete (asked soft, or silently soft for lack of D) is accepted only with R
                                                  (c04_soft_needs_read; was finding F2, fixed in /repo 2721db4 - a regression is a VIOLATION)
  delete-next-number                             del of the reply = stored counter + 1 = stored counter afterwards
  hard-needs-delete-permission                   without D the request is soft: log written for the requester, no message row touched
  hard-deletes-for-everyone                      with D and hard=true the log is written for everyone
  delete-log-exact                               the new log entry covers exactly the requested ids clipped to ids <= lastID
  soft-keeps-rows / hard-erases-content / delete-only-requested
                                                  message rows: soft touches none; hard stamps exactly the live requested rows with
                                                  the transaction number and erases their content
  rejected-delete-no-effect                      a refused request changes no row
  permitted-delete-accepted                      a well-formed request from an attached user with R (or D) is accepted
  history-rows-stable                            no other request changes message rows, log rows or the delete counter
  rows-refine-spec                               abs(store rows) = specification state, after every request
  dellog-needs-read / dellog-exact / dellog-delid {get del}: ids deleted for that user in the asked transactions, largest number
"""
import json
import os
import re
import time
import vlib
from props import topiclib as T
from props import statelib
from props.statelib import kvs, eff, View

MAXMSG = 100

# effective-mode populations: (want, given)
POP = [
    (47, 47), (47, 47),            # JRWPS: R, no D
    (127, 127), (111, 111),        # with D and R
    (47, 127),                     # D given but not wanted
    (127, 47),                     # D wanted but not given
    (69, 69), (77, 127),           # D without R (JWD / JWPD)
    (5, 47), (13, 13),             # neither R nor D
    (3, 3), (15, 15),              # JR, JRWP
    (127, 111),
]
MODE_EDITS = ["JRWPS", "JRWPSD", "JRWPASD", "JWPD", "JWP", "JRP", "JRWP", "JWD", "JRD", "JRWPD"]


def hx(s):
    return T.hx(s)


def req_ids(last, req):
    """ids a delete request denotes (Sys/TopicHist.req_ids): [low,hi) clipped to ids <= lastID,
    hi = 0 or hi = low meaning the single id low"""
    s = set()
    for lo, hi in req:
        top = lo + 1 if (hi == 0 or hi == lo) else hi
        s.update(x for x in range(lo, min(top, last + 1)))
    return s


def req_valid(last, req):
    """the requests replyDelMsg's validation loop lets through (Ranges.req_valid, c04_del_ranges_accepts);
    the count limit (1024) is out of reach of the generated ids"""
    if not req:
        return False
    for lo, hi in req:
        if lo > last or lo < 0 or hi < 0 or (hi > 0 and lo > hi) or (lo == 0 and hi == 0):
            return False
    return sum((1 if (hi == 0 or hi == lo) else min(hi, last + 1) - lo) for lo, hi in req) <= 1024


def parse_ranges(text):
    if text == "-":
        return []
    return [tuple(int(v) for v in p.split(":")) for p in text.split(",")]


def gen_ranges(rng, last, exist_bias=True):
    """overlapping / adjacent / unsorted / nested / open / beyond-last ranges, mostly valid"""
    k = rng.choice([1, 1, 1, 2, 2, 3, 4])
    rs = []
    for _ in range(k):
        t = rng.random()
        if rs and t < 0.45:
            l0, h0 = rng.choice(rs)
            u0 = l0 + 1 if h0 in (0, l0) else h0
            kind = rng.randrange(6)
            if kind == 0:
                r = (l0, h0)
            elif kind == 1:
                r = (u0, rng.choice([0, u0 + 1, u0 + 2]))          # adjacent
            elif kind == 2:
                r = (u0 + 1, rng.choice([0, u0 + 3]))              # one apart
            elif kind == 3:
                r = (max(1, l0 - 1), u0)                           # overlap from below
            elif kind == 4:
                r = (l0, 0)                                        # single at the start
            else:
                r = (max(1, u0 - 1), u0 + 2)                       # overlap at the end
        else:
            lo = rng.randint(1, max(1, last)) if rng.random() < 0.9 else rng.randint(0, last + 2)
            t2 = rng.random()
            if t2 < 0.3:
                hi = 0
            elif t2 < 0.4:
                hi = lo
            elif t2 < 0.5:
                hi = lo + 1
            elif t2 < 0.85:
                hi = lo + rng.randint(2, 4)
            else:
                hi = rng.choice([last + 1, last + 5, 100000])
            r = (lo, hi)
        if r[0] > last >= 1 and rng.random() < 0.9:
            r = (last, r[1] if r[1] == 0 or r[1] > last else 0)   # keep the entry valid: low <= lastID
        if rng.random() < 0.03:
            r = rng.choice([(-1, 0), (0, 0), (last + 1, 0), (r[0], max(0, r[0] - 1)), (0, 3)])
        rs.append(r)
    rng.shuffle(rs)
    return ",".join("%d:%d" % r for r in rs)


def gen_scn(rng, sid, faults):
    sc = T.Scn(sid)
    n = rng.choice([2, 3, 3, 4])
    sc.nusers = n
    auth = rng.choice([47, 47, 63, 127, 111, 3])
    ow = rng.choice([255, 255, 255, 191])        # 191: the owner does not want D
    sc.head.append("scn %s owner=1 auth=%d anon=0 ownerwant=%d ownergiven=255" % (sid, auth, ow))
    for i in range(1, n + 1):
        sc.head.append("user %d acc=%d" % (i, rng.choice([47, 47, 127, 111])))
    can_write = {1: True}            # generator's belief, used only to aim ids at existing messages
    for i in range(2, n + 1):
        if rng.random() < 0.85:
            want, given = rng.choice(POP)
            sc.head.append("subrow %d want=%d given=%d" % (i, want, given))
            can_write[i] = bool(want & given & 4)
        else:
            can_write[i] = bool(auth & 4)
    s = 0
    for i in range(1, n + 1):
        for _ in range(rng.choice([1, 1, 1, 2])):
            s += 1
            sc.sessions[s] = i
            sc.head.append("sess %d %d" % (s, i))
    sids = sorted(sc.sessions)
    owner_sids = [x for x in sids if sc.sessions[x] == 1]
    ops = []
    att = set()                      # sessions the generator believes attached (aims requests; not relied upon)
    for x in sids:
        if rng.random() < 0.9:
            ops.append(("N", "sub", [x, "-", 0]))
            att.add(x)
    last = 0
    for _ in range(rng.randint(2, 6)):
        y = rng.choice(sids if rng.random() < 0.4 else owner_sids)
        ops.append(("N", "pub", [y, 100 + len(ops), 0]))
        if y in att and can_write[sc.sessions[y]]:
            last += 1
    nops = rng.randint(8, 22)
    for _ in range(nops):
        x = rng.choice(sorted(att)) if att and rng.random() < 0.85 else rng.choice(sids)
        r = rng.random()
        flt = "N"
        if faults and rng.random() < faults:
            flt = rng.choice(["F", "F", "C"]) + str(rng.randint(1, 3))
        if r < 0.30:
            # store faults inside a delete request only at its first call (Sys/TopicHist.fault_ok)
            f2 = "F1" if flt != "N" else "N"
            ops.append((f2, "delmsg", [x, 1 if rng.random() < 0.5 else 0, gen_ranges(rng, last)]))
        elif r < 0.52:
            a = rng.choice([0, 0, 0, 1, 2, last, max(last - 1, 0), rng.randint(0, last + 1)])
            b = rng.choice([0, 0, 0, last + 1, last, rng.randint(0, last + 2)])
            ops.append(("N", "getdata", [x, a, b, rng.choice([0, 0, 0, 1, 2, 3, 200])]))
        elif r < 0.64:
            ops.append(("N", "getdel", [x, rng.choice([0, 0, 0, 1, 2, 3]), rng.choice([0, 0, 0, 1, 2, 3, 4]), rng.choice([0, 0, 0, 0, 5])]))
        elif r < 0.76:
            ops.append((flt, "pub", [x, 100 + len(ops), 0]))
            if x in att and can_write[sc.sessions[x]] and flt == "N":
                last += 1
        elif r < 0.84:
            # permission change: the owner edits a member's given, or a member edits his own want
            if rng.random() < 0.6 and owner_sids:
                tgt = rng.randint(2, n) if n >= 2 else 0
                ops.append((flt, "setsub", [rng.choice(owner_sids), tgt, hx(rng.choice(MODE_EDITS))]))
            else:
                ops.append((flt, "setsub", [x, 0, hx(rng.choice(MODE_EDITS))]))
        elif r < 0.89:
            ops.append(("N", "leave", [x, 1 if rng.random() < 0.5 else 0]))
            att.discard(x)
        elif r < 0.95:
            y = rng.choice(sids)
            ops.append((flt, "sub", [y, "-", 0]))
            att.add(y)
        elif r < 0.97:
            for y in sids:
                ops.append(("N", "leave", [y, 0]))
            ops.append(("N", "unload", []))
            att = set()
            for y in sids:
                if rng.random() < 0.8:
                    ops.append(("N", "sub", [y, "-", 0]))
                    att.add(y)
        else:
            ops.append(("N", "restart", []))
            att = set()
            for y in sids:
                if rng.random() < 0.8:
                    ops.append(("N", "sub", [y, "-", 0]))
                    att.add(y)
    # every history ends with everybody (re)attached where possible reading history and log
    for y in sids:
        if rng.random() < 0.5:
            ops.append(("N", "sub", [y, "-", 0]))
    for y in sids:
        ops.append(("N", "getdata", [y, 0, 0, 0]))
        if rng.random() < 0.7:
            ops.append(("N", "getdel", [y, 0, 0, 0]))
    sc.ops = ops
    return sc


def gen_scenarios(ctx, count, faults, prefix):
    return [gen_scn(ctx.rng, "%s%d" % (prefix, i), faults) for i in range(count)]


# ---------------------------------------------------------------------------
# the monitor

class Spec:
    def __init__(self):
        self.live = {}      # id -> (author, content)
        self.soft = {}      # user -> set(ids)
        self.hard = set()
        self.log = []       # (delid, for (0 = everyone), frozenset(ids))

    def visible(self, u):
        sf = self.soft.get(u, set())
        return {x for x in self.live if x not in sf}

    def deleted_for(self, u, since=0, before=0):
        s = set()
        mx = 0
        for d, fu, ids in self.log:
            if fu not in (0, u):
                continue
            if since > 0 and d < since:
                continue
            if before > 1 and d >= before:
                continue
            s |= ids
            mx = max(mx, d)
        return s, mx


def store_visible(v, u):
    hidden = set()
    for d, fu, ids in v.dellog:
        if fu == u:
            hidden |= ids
    return {q: (m["frm"], m["content"]) for q, m in v.msgs.items() if m["delid"] == 0 and q not in hidden}


def history_rows(v):
    return (sorted(v.msgs.items(), key=lambda kv: kv[0]), sorted((d, f, tuple(sorted(i))) for d, f, i in v.dellog), v.topic.get("delid"))


def monitor(sc, views, acting=None, users=None):
    """acting(k) -> the user request k is executed as (msg.AsUser: the session's own user, or the user named by
    extra.obo of a root session), or None when Session.dispatch refuses the request; default: the user the
    session is attached as (= its own user for every session that never names another user)"""
    res = []
    sp = Spec()
    prev = None
    users = users or sorted(set(sc.sessions.values()))
    for k, v in enumerate(views):
        fault, kind, args = sc.ops[k]
        sid = args[0] if args else None
        actor = sc.sessions.get(sid) if sid is not None else None
        mine = [t for s_, t in v.frames if s_ == sid]
        ctrl = [t for t in mine if t.startswith("ctrl ")]
        code = int(ctrl[0].split()[1]) if ctrl else None
        attached = prev is not None and prev.loaded and sid in prev.csess
        mode = ""
        lastid = 0
        if acting is not None and sid is not None:
            actor = acting(k)
            if actor is None:
                # refused by Session.dispatch: the laws about refused requests are the caller's
                if prev is not None and history_rows(v) != history_rows(prev):
                    res.append(("history-rows-stable", k, "%s refused by the dispatcher changed message rows / log rows / delete counter" % kind))
                prev = v
                continue
        if attached:
            if acting is None:
                actor = prev.csess[sid]
            p = prev.cusers.get(actor)
            mode = eff(p["want"], p["given"]) if p else ""
            lastid = prev.cache.get("lastid", 0)
        crashed = fault != "N" and fault[0] == "C"
        changed_rows = prev is not None and history_rows(v) != history_rows(prev)

        if kind == "pub":
            ack = [t for t in ctrl if t.startswith("ctrl 202")]
            if ack:
                n = int(kvs(ack[0])["seq"])
                sp.live[n] = (actor, str(args[1]))
        elif kind == "getdata":
            data = []
            for t in mine:
                if t.startswith("data "):
                    d = kvs(t)
                    data.append((int(d["seq"]), int(d["from"]), d["content"]))
            since, before, limit = int(args[1]), int(args[2]), int(args[3])
            if not attached:
                if data:
                    res.append(("history-needs-attach", k, "session %s is not attached and was sent messages %s" % (sid, [q for q, _, _ in data])))
            elif "R" not in mode:
                if data:
                    res.append(("history-needs-read", k, "user %s has mode %r (no R) and was sent messages %s" % (actor, mode, [q for q, _, _ in data])))
            elif fault == "N":
                vis = sp.visible(actor)
                inwin = sorted((x for x in vis if (since <= 0 or x >= since) and (before <= 0 or x < before)), reverse=True)
                lim = limit if 0 < limit < MAXMSG else MAXMSG
                want = inwin[:lim]
                got = [q for q, _, _ in data]
                if got != want:
                    extra = [q for q in got if q not in want]
                    missing = [q for q in want if q not in got]
                    law = "history-exact"
                    if any(q in sp.hard for q in extra):
                        law = "history-hard-deleted-shown"
                    elif any(q in sp.soft.get(actor, set()) for q in extra):
                        law = "history-soft-deleted-shown"
                    elif extra and len(got) > lim and all(q in inwin for q in extra):
                        law = "history-limit"
                    elif extra and missing and all(q in inwin for q in extra):
                        law = "history-message-missing"      # a visible message is left out, an older one fills the answer
                    elif extra:
                        law = "history-outside-range"
                    elif missing:
                        law = "history-message-missing"
                    elif sorted(got, reverse=True) == want:
                        law = "history-order"
                    res.append((law, k, "get data since=%d before=%d limit=%d by user %s (mode %s): sent %s, expected %s (hard-deleted %s, soft-deleted by the user %s)"
                                % (since, before, limit, actor, mode, got, want, sorted(sp.hard), sorted(sp.soft.get(actor, set())))))
                else:
                    for q, frm, content in data:
                        if (frm, content) != sp.live[q]:
                            res.append(("history-content", k, "message %d sent as from=%s content=%s, published as from=%s content=%s"
                                        % (q, frm, content, sp.live[q][0], sp.live[q][1])))
                closing = ctrl[-1] if ctrl else ""
                okc = (closing.startswith("ctrl 204") and not data) or \
                      (closing.startswith("ctrl 208") and data and kvs(closing).get("count") == str(len(data)))
                if not okc:
                    res.append(("history-count", k, "%d messages sent, closing reply %r" % (len(data), closing)))
        elif kind == "delmsg":
            hard_asked = str(args[1]) == "1"
            req = parse_ranges(args[2])
            if code == 200 and prev is not None:
                d = int(kvs(ctrl[0]).get("del", -1))
                if not attached or ("R" not in mode and "D" not in mode):
                    res.append(("delete-needs-permission", k, "delete accepted from session %s user %s attached=%s mode %r" % (sid, actor, attached, mode)))
                else:
                    eff_hard = hard_asked and "D" in mode
                    ids = req_ids(lastid, req)
                    if not eff_hard and "R" not in mode:
                        # c04_soft_needs_read: every deletion that is not hard-effective needs R (the gate before
                        # /repo 2721db4 asked for R only when D was missing: c04_gate_unrepaired_refuted)
                        res.append(("soft-delete-without-read", k, "soft delete accepted from user %s whose effective mode %r has no R" % (actor, mode)))
                    if d != prev.topic.get("delid", 0) + 1 or v.topic.get("delid") != d:
                        res.append(("delete-next-number", k, "reply del=%d, stored counter before %s, after %s" % (d, prev.topic.get("delid"), v.topic.get("delid"))))
                    new = [e for e in v.dellog if e not in prev.dellog]
                    gone = [e for e in prev.dellog if e not in v.dellog]
                    fors = sorted(set(fu for _, fu, _ in new))
                    want_new = (d, 0 if eff_hard else actor, ids)
                    if not eff_hard and 0 in fors:
                        res.append(("hard-needs-delete-permission", k, "user %s (mode %r, hard asked=%s) has no D or asked for soft: the log row is written for everyone %s"
                                    % (actor, mode, hard_asked, [(a_, b_, sorted(c_)) for a_, b_, c_ in new])))
                    elif eff_hard and fors != [0]:
                        res.append(("hard-deletes-for-everyone", k, "user %s (mode %r) asked for a hard delete: log rows %s"
                                    % (actor, mode, [(a_, b_, sorted(c_)) for a_, b_, c_ in new])))
                    elif new != [want_new] or gone:
                        res.append(("delete-log-exact", k, "request %s lastID=%d: new log rows %s, expected %s, removed %s"
                                    % (args[2], lastid, [(a_, b_, sorted(c_)) for a_, b_, c_ in new],
                                       (want_new[0], want_new[1], sorted(want_new[2])), gone)))
                    for q, m in prev.msgs.items():
                        m2 = v.msgs.get(q)
                        if m2 is None:
                            res.append(("delete-only-requested", k, "message row %d disappeared" % q))
                            continue
                        if eff_hard and q in ids and m["delid"] == 0:
                            if m2["delid"] != d or m2["content"] != "0":
                                res.append(("hard-erases-content", k, "hard delete of %s: row %d is %s" % (sorted(ids), q, m2)))
                        elif m2 != m:
                            law = "delete-only-requested" if eff_hard else "soft-keeps-rows"
                            res.append((law, k, "%s delete of %s by user %s (mode %r): message row %d changed %s -> %s"
                                        % ("hard" if eff_hard else "soft", sorted(ids), actor, mode, q, m, m2)))
                    if not eff_hard:
                        # "for the requester only when soft": a deletion that is (or has degraded to) soft tells no
                        # other user anything and moves no other user's deletion mark (c04_soft_private)
                        told = sorted(set(s_ for s_, t in v.frames if t.startswith("pres what=del") and s_ != 0
                                          and sc.sessions.get(s_) is not None and sc.sessions.get(s_) != actor))
                        moved = sorted(u for u, cu in v.cusers.items()
                                       if u != actor and prev.loaded and u in prev.cusers and cu["delid"] != prev.cusers[u]["delid"])
                        if told or moved:
                            res.append(("soft-delete-private", k, "soft delete of %s by user %s (mode %r, hard asked=%s): {pres del} sent to the sessions %s of other "
                                        "users, cached deletion mark of the other users %s moved" % (sorted(ids), actor, mode, hard_asked, told, moved)))
                    # the specification transition
                    if eff_hard:
                        sp.hard |= ids
                        for q in ids:
                            sp.live.pop(q, None)
                        sp.log.append((d, 0, frozenset(ids)))
                    else:
                        sp.soft.setdefault(actor, set()).update(ids)
                        sp.log.append((d, actor, frozenset(ids)))
            elif prev is not None:
                if attached and "R" not in mode and "D" not in mode and code != 403 and fault == "N":
                    res.append(("delete-needs-permission", k, "user %s mode %r: reply %s, 403 expected" % (actor, mode, code)))
                if attached and fault == "N" and req_valid(lastid, req) and ("R" in mode or (hard_asked and "D" in mode)):
                    # c04_delete_request + c04_del_ranges_accepts: nothing else refuses a request
                    res.append(("permitted-delete-accepted", k, "user %s (mode %r) sent the valid request %s (lastID=%d): reply %s, 200 expected"
                                % (actor, mode, args[2], lastid, code)))
                if changed_rows:
                    res.append(("rejected-delete-no-effect", k, "delete answered %s changed the stored rows" % code))
        elif kind in ("leave", "delsub"):
            if code == 200 and attached and ((kind == "leave" and str(args[1]) == "1") or kind == "delsub"):
                tgt = actor if kind == "leave" else int(args[1])
                sp.soft.pop(tgt, None)
                sp.log = [e for e in sp.log if e[1] != tgt]
        elif kind == "getdel":
            frames = [t for t in mine if t.startswith("del ")]
            since, before, limit = int(args[1]), int(args[2]), int(args[3])
            if not attached or "R" not in mode:
                if frames:
                    res.append(("dellog-needs-read", k, "deletion log sent to session %s user %s attached=%s mode %r" % (sid, actor, attached, mode)))
            elif fault == "N":
                want, mx = sp.deleted_for(actor, since, before)
                if frames:
                    d = kvs(frames[0])
                    got = set(int(x) for x in d.get("ids", "").split(",") if x != "")
                    gotid = int(d["delid"])
                else:
                    got, gotid = set(), 0
                if limit == 0 or limit >= 1024:
                    if got != want:
                        res.append(("dellog-exact", k, "get del since=%d before=%d by user %s: reported %s, deleted for the user %s (missing %s, extra %s)"
                                    % (since, before, actor, sorted(got), sorted(want), sorted(want - got), sorted(got - want))))
                    elif want and gotid != mx:
                        res.append(("dellog-delid", k, "get del reports delid=%d, largest selected transaction %d" % (gotid, mx)))
                elif not got <= want:
                    res.append(("dellog-exact", k, "get del limit=%d by user %s: reported %s not among %s" % (limit, actor, sorted(got), sorted(want))))

        # rows only move with accepted publishes, deletes, unsubscribes
        if prev is not None and changed_rows and not crashed:
            moving = (kind == "pub") or (kind == "delmsg") or (kind in ("leave", "delsub") and code == 200)
            if not moving:
                res.append(("history-rows-stable", k, "%s changed message rows / log rows / delete counter" % kind))
        # refinement: what the rows show is what the specification state says
        if v.topic and fault == "N":
            for u in users:
                sv = store_visible(v, u)
                want = {x: sp.live[x] for x in sp.visible(u)}
                if sv != want:
                    res.append(("rows-refine-spec", k, "after %s: rows show user %d %s, specification %s" % (kind, u, sorted(sv), sorted(want))))
                    break
        prev = v
    return res


# ---------------------------------------------------------------------------
# correspondence projection

C04_OPS = {"getdata", "getdel", "delmsg", "pub"}


def frame_f(t):
    return t.startswith("data ") or t.startswith("del ") or t.startswith("ctrl 20") or t.startswith("ctrl 40")


def line_f(kind, l):
    if kind == "store":
        if l.startswith("topic "):
            return re.sub(r" owner=\S+", "", l)
        if l.startswith("msg ") or l.startswith("dellog "):
            return l
        if l.startswith("sub "):
            m = re.match(r"^(sub \d+) .* (del=\S+) (deleted=\S+)", l)
            return "%s %s %s" % m.groups() if m else l
        return None
    if l.startswith("lastid"):
        return re.sub(r" owner=\S+", "", l)
    if l.startswith("user "):
        m = re.match(r"^(user \d+) .* (del=\S+)", l)
        return "%s %s" % m.groups() if m else l
    return None


def nontrivial(sc, blocks):
    n = 0
    for k, b in enumerate(blocks):
        if sc.ops[k][1] == "delmsg" and any(t.startswith("ctrl 200") for _, t in b["frames"]):
            n += 1
    return n >= 1


def run_layer2(ctx, counts=None):
    """scenarios -> implementation + model -> laws on the implementation's trace -> projection
    compare -> search near a mismatch; records violations and coverage in ctx (no finish)."""
    quick = ctx.tier == "quick"
    ok, out = ctx.build_main()
    if not ok:
        ctx.violation("corr", "harness-build-broken", "package-main driver no longer builds against /repo: " + out[-1500:],
                      {"correspondence": "build of harness/overlay against /repo/server"})
        return {}
    total = (counts or {}).get(ctx.tier, 280 if quick else 3000)
    scns = []
    if ctx.replay:
        rp = json.load(open(ctx.replay))
        sc = T.Scn(rp["replay"]["head"][0].split()[1])
        sc.head = rp["replay"]["head"]
        sc.ops = [tuple(o) for o in rp["replay"]["ops"]]
        for l in sc.head:
            w = l.split()
            if w[0] == "sess":
                sc.sessions[int(w[1])] = int(w[2])
        scns = [sc]
    else:
        cdir = os.path.join(vlib.ROOT, "corpus", ctx.pid)
        if os.path.isdir(cdir):
            for f in sorted(os.listdir(cdir)):
                rp = json.load(open(os.path.join(cdir, f)))
                if "head" not in rp:
                    continue
                sc = T.Scn("c_" + f.split(".")[0])
                sc.head = [("scn %s " % sc.id + " ".join(rp["head"][0].split()[2:]))] + rp["head"][1:]
                sc.ops = [tuple(o) for o in rp["ops"]]
                for l in sc.head:
                    w = l.split()
                    if w[0] == "sess":
                        sc.sessions[int(w[1])] = int(w[2])
                scns.append(sc)
        scns += gen_scenarios(ctx, int(total * 0.85), 0.0, "h")
        scns += gen_scenarios(ctx, max(1, int(total * 0.15)), 0.12, "f")
    t0 = time.time()
    rc, impl, log = T.run_impl(ctx, scns, tag="c04")
    t_impl = time.time() - t0
    if rc != 0 or any(sc.id not in impl or len(impl[sc.id]) != len(sc.ops) for sc in scns):
        bad = next((sc for sc in scns if sc.id not in impl or len(impl[sc.id]) != len(sc.ops)), None)
        ctx.violation("monitor", "server-crashed", "the server process died or stopped answering while running scenario %s: %s"
                      % (bad.id if bad else "?", log[-1500:]),
                      {"head": bad.head if bad else [], "ops": bad.ops if bad else [], "log": log[-4000:]})
        return {}
    rc, model, err = T.run_model(ctx, scns, tag="c04")
    if rc != 0:
        ctx.violation("proof", "runner-crashed", "model runner failed: " + err[-1500:], {"theorem_or_obligation": "model runner"})
        return {}

    def mon(sc, blocks):
        views = [View(b) for b in blocks]
        res = monitor(sc, views)
        for k, b in enumerate(blocks):
            if b["hang"]:
                res.append(("hang", k, b["hang"]))
        return res

    fails = []
    for sc in scns:
        for law, k, detail in mon(sc, impl[sc.id]):
            fails.append((sc, law, k, detail))
    seen = {}
    for sc, law, k, detail in fails:
        seen.setdefault(law, []).append((sc, k, detail))
    nshrunk = 0
    known = {f["key"] for f in ctx.load_findings() if f["property"] == ctx.pid}
    for law, lst in seen.items():
        sc, k, detail = min(lst, key=lambda x: x[1])
        small = sc.clone(sc.ops[:k + 1])
        if nshrunk < 3 and not ctx.replay and law not in known:
            nshrunk += 1

            def still_bad(c, law=law):
                rc2, im2, _ = T.run_impl(ctx, [c], tag="shrink")
                return rc2 == 0 and c.id in im2 and len(im2[c.id]) == len(c.ops) and any(l == law for l, _, _ in mon(c, im2[c.id]))
            small = T.shrink(ctx, small, still_bad, budget=20 if quick else 120)
            rc2, im2, _ = T.run_impl(ctx, [small], tag="shrink")
            if rc2 == 0 and small.id in im2:
                ds = [dd for l, _, dd in mon(small, im2[small.id]) if l == law]
                if ds:
                    detail = ds[0]
        nscn = len(set(x[0].id for x in lst))
        ctx.violation("monitor", law, "law %s fails on the implementation's trace (%d scenarios this run): %s" % (law, nscn, detail),
                      {"head": small.head, "ops": small.ops, "law": law, "detail": detail, "scenarios_failing": nscn})

    mism = []
    for sc in scns:
        io, mo = impl[sc.id], model.get(sc.id, [])
        if len(io) != len(mo):
            mism.append((sc, -1, [("shape", len(io), len(mo))]))
            continue
        for k in range(len(io)):
            if sc.ops[k][1] in C04_OPS:
                d = T.diff_op(io[k], mo[k], ("frames", "store", "cache", "loaded"), frame_f, line_f)
            else:
                d = T.diff_op(io[k], mo[k], ("store", "cache", "loaded"), None, line_f)
            if d:
                mism.append((sc, k, d))
                break
    searched = 0
    if mism and not fails:
        sc, k, d = min(mism, key=lambda x: len(x[0].ops))
        base = sc.clone(sc.ops[:k + 1]) if k >= 0 else sc
        pool = []
        rng = ctx.rng
        sids = sorted(base.sessions)
        for j in range(60 if quick else 600):
            c = base.clone(list(base.ops))
            c.id = "n%d" % j
            c.head = [re.sub(r"^scn \S+", "scn " + c.id, base.head[0])] + base.head[1:]
            extra = []
            for _ in range(rng.randint(1, 6)):
                x = rng.choice(sids)
                extra.append(rng.choice([("N", "getdata", [x, 0, 0, 0]), ("N", "getdel", [x, 0, 0, 0]),
                                         ("N", "delmsg", [x, rng.randint(0, 1), gen_ranges(rng, 6)]),
                                         ("N", "sub", [x, "-", 0])]))
            c.ops = list(base.ops) + extra
            pool.append(c)
        rc2, im2, _ = T.run_impl(ctx, pool, tag="search")
        searched = len(pool)
        if rc2 == 0:
            for c in pool:
                if c.id in im2 and len(im2[c.id]) == len(c.ops):
                    r = mon(c, im2[c.id])
                    if r:
                        law, kk, detail = r[0]
                        ctx.violation("monitor", law, "law %s fails on the implementation's trace: %s" % (law, detail),
                                      {"head": c.head, "ops": c.ops[:kk + 1], "law": law, "detail": detail,
                                       "found_by": "search near a correspondence mismatch"})
                        fails.append((c, law, kk, detail))
                        break
        if not fails:
            ctx.violation("corr", "correspondence-" + (sc.ops[k][1] if k >= 0 else "shape"),
                          "model and implementation disagree on %d of %d scenarios on this property's projection; first (shrunk to the prefix): op %d %s: %s; no law failure found on %d neighbouring histories"
                          % (len(mism), len(scns), k, sc.ops[k] if k >= 0 else "", json.dumps(d, default=str)[:800], searched),
                          {"correspondence": "projection of %s (layer 2)" % ctx.pid, "head": base.head, "ops": base.ops, "diff": d})
    nt = set()
    kinds, codes, faults_seen = {}, {}, {}
    nops = 0
    delstat = {"accepted_soft": 0, "accepted_hard": 0, "degraded_to_soft": 0, "denied_403": 0, "malformed_400": 0,
               "not_attached_409": 0, "other": 0}
    for sc in scns:
        sig = []
        for k, o in enumerate(sc.ops):
            nops += 1
            kinds[o[1]] = kinds.get(o[1], 0) + 1
            if o[0] != "N":
                faults_seen[o[0]] = faults_seen.get(o[0], 0) + 1
            for s_, t in impl[sc.id][k]["frames"]:
                if t.startswith("ctrl "):
                    c = t.split()[1]
                    codes[c] = codes.get(c, 0) + 1
            if o[1] == "delmsg":
                b = impl[sc.id][k]
                cs = [t for s_, t in b["frames"] if s_ == o[2][0] and t.startswith("ctrl ")]
                c = cs[0].split()[1] if cs else "?"
                if c == "200":
                    pb = impl[sc.id][k - 1] if k else None
                    newrows = [l for l in b["store"] if l.startswith("dellog ") and (pb is None or l not in pb["store"])]
                    hard_row = any(" for=0 " in l for l in newrows)
                    if hard_row:
                        delstat["accepted_hard"] += 1
                    elif str(o[2][1]) == "1":
                        delstat["degraded_to_soft"] += 1
                    else:
                        delstat["accepted_soft"] += 1
                elif c == "403":
                    delstat["denied_403"] += 1
                elif c == "400":
                    delstat["malformed_400"] += 1
                elif c == "409":
                    delstat["not_attached_409"] += 1
                else:
                    delstat["other"] += 1
            sig.append((o, tuple(impl[sc.id][k]["frames"])))
        if nontrivial(sc, impl[sc.id]):
            nt.add(hash(tuple(map(repr, sig))))
    return {
        "evaluations": len(scns), "distinct_nontrivial": len(nt), "operations_executed": nops,
        "samples": [{"head": sc.head, "ops": sc.ops, "impl_frames_last_op": impl[sc.id][-1]["frames"] if impl[sc.id] else []} for sc in scns[:2]],
        "traces_validated_against_impl": len(scns), "correspondence_mismatches": len(mism), "monitor_failures": len(fails),
        "search_pool": searched,
        "input_distribution": {"op_kinds": kinds, "ctrl_codes": codes, "faults": faults_seen, "delete_requests": delstat,
                               "users_per_scenario": sorted(set(sc.nusers for sc in scns)),
                               "ops_per_scenario_max": max(len(sc.ops) for sc in scns)},
        "impl_wall_s": round(t_impl, 1),
    }
