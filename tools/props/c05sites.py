"""C05 layer 3: the request handlers that INTERPRET a client-supplied default-access mode text
(model coq/Sys/AcsSitesC05.v, theorems c05_site*/c05_setdesc*/c05_newgrp*/c05_acc*/c05_p2p* of
coq/Props/PropC05.v, driver harness/overlay/server/zz_verif_c05sites_test.go, runner r_c05sites.ml).

One case = one line = one self-contained scenario on the real hub/topics/sessions/store mappers:

  SD <me|grp> <att> <auth> <anon> <E|P> <tok> <tok>   {set desc.defacs} on 'me' / on the owner's group topic
  NG <chan> <A|E|P> <tok> <tok>                       {sub topic=new|nch set.desc.defacs}
  AC <A|E|P> <tok> <tok>                              {acc user=new desc.defacs}
  PP <u1auth> <A|E|P> <tok> <tok>                     {sub topic=usrB set.desc.defacs} creating a p2p topic

  SS <grp|p2p> <set|sub|other|off> <af> <want> <given> <tok>
                                                      {set sub.mode} / {sub set.sub.mode} on an EXISTING subscription
                                                      want/given of a non-owner U: own want attached (set), while attaching
                                                      (sub), not attached (off: hub), given changed by the owner / peer (other)

A text token is "_" (JSON key absent), "-" (empty string) or hex bytes; A = no desc at all, E = desc
without defacs, P = defacs present.

Laws evaluated on the IMPLEMENTATION's answers (stored row, Topic.accessAuth/accessAnon, {get desc},
{get desc} after a reload), with the state before the request (SD) or the implementation's own answer
to the request WITHOUT defacs (NG, AC, PP) as the reference:

  empty-string-no-change               a field whose text is empty or absent holds afterwards what it held
  sanitising-only-on-supplied-values   ... in particular it is not passed through the 'me' sanitising
                                       (& ModeCAuth / & ModeCP2P, +A): same check, named so when what
                                       appeared is the sanitised form of the old value
  unknown-letters-leave-target         a field whose text has an unknown letter holds what it held
  unknown-letters-rejected             an attached {set desc.defacs} with such a text is answered 4xx and
                                       neither field moves
For SS the reference is the stored subscription row right before the request; the empty-text law is
not applied to the user's own want when that want has no J (a {sub}/{set sub} without a mode un-self-bans
by design: there the empty text means "default", not "no change").
Finding-specific names (KNOWN_FINDINGS.txt, findings/C05.md):
  setdesc-bad-auth-text-accepted-with-anon   #3: parseTopicAccess overwrites auth's error by anon's result
  acc-bad-auth-text-masks-default            #4: replyCreateUser ignores the error and sanitises the default
"""
import json
import os
import subprocess
import time

import vlib

LETTERS = set("JRWPASDOjrwpasdo")
MODE_ORDER = "JRWPASDO"
CP2P, CAUTH, APPROVE = 31, 63, 16

FINDING_SETDESC = "setdesc-bad-auth-text-accepted-with-anon"
FINDING_ACC = "acc-bad-auth-text-masks-default"


def hx(s):
    return s.encode("latin1").hex()


def unhx(h):
    return "" if h in ("-", "") else bytes.fromhex(h).decode("latin1")


def tok_text(tok):
    """the Go string the handler sees"""
    return "" if tok in ("_", "-") else unhx(tok)


def tok_class(tok):
    s = tok_text(tok)
    if s == "":
        return "empty"
    if any(ch not in LETTERS and ch not in "Nn" for ch in s):
        return "junk"
    return "text"


def mtext(m):
    if m == 0:
        return "N"
    return "".join(c for i, c in enumerate(MODE_ORDER) if m >> i & 1)


def sanit(m, mask):
    m &= mask
    return (m | APPROVE) if m else 0


# ---------------------------------------------------------------------------
# generation

def rand_valid(rng, owner_p=0.06):
    if rng.random() < 0.12:
        return rng.choice(["N", "n"])
    m = rng.randrange(1, 128)
    if rng.random() < 0.4:
        m = rng.choice([1, 3, 7, 15, 31, 47, 63, 46, 23, 19, 64, 96, 111, 127])
    if rng.random() < owner_p:
        m |= 128
    s = list(mtext(m))
    if rng.random() < 0.3:
        rng.shuffle(s)
    if rng.random() < 0.2:
        s.append(rng.choice(s))
    s = "".join(s)
    r = rng.random()
    return s.lower() if r < 0.2 else "".join(c.lower() if rng.random() < 0.5 else c for c in s) if r < 0.35 else s


def rand_junk(rng):
    s = rand_valid(rng, 0.0)
    r = rng.random()
    if r < 0.7:
        i = rng.randrange(len(s) + 1)
        return s[:i] + rng.choice("?xXz! ,=+-*0Z\t\"\\") + s[i:]
    if r < 0.85:
        return rng.choice(["?", "x", " ", "+J", "-R", "JRW!", "Q", "JRWPASDOX"])
    return rng.choice(["JN", "NJ", "NN", "jn", "RWN"])       # rejected, but every letter is known


def rand_tok(rng):
    r = rng.random()
    if r < 0.16:
        return "_"
    if r < 0.30:
        return "-"
    if r < 0.75:
        return hx(rand_valid(rng))
    return hx(rand_junk(rng))


CLASS_TOKS = ["_", "-", hx("JRW"), hx("N"), hx("J!")]


def gen_cases(ctx):
    rng = ctx.rng
    quick = ctx.tier == "quick"
    cases = []
    # references for the creation sites
    cases += ["NG 0 A _ _", "NG 1 A _ _", "AC A _ _"]
    me_cur = [(63, 0), (47, 31), (111, 3), (0, 23)]          # sanitised, and NOT sanitised (no A, D, JR without A)
    grp_cur = [(47, 0), (0, 0), (127, 7), (6, 47)]
    for cat, curs in (("me", me_cur), ("grp", grp_cur)):
        for ca, cn in curs:
            cases.append("SD %s 1 %d %d E _ _" % (cat, ca, cn))
            for a in CLASS_TOKS:
                for n in CLASS_TOKS:
                    cases.append("SD %s 1 %d %d P %s %s" % (cat, ca, cn, a, n))
        ca, cn = curs[0]
        for a, n in (("_", hx("JRW")), (hx("JRW"), "-"), (hx("J!"), "_"), ("_", "_")):
            cases.append("SD %s 0 %d %d P %s %s" % (cat, ca, cn, a, n))
    for ch in (0, 1):
        cases.append("NG %d E _ _" % ch)
        for a in CLASS_TOKS:
            for n in CLASS_TOKS:
                cases.append("NG %d P %s %s" % (ch, a, n))
    cases += ["AC E _ _", "AC A _ _ basic", "AC P %s _ basic" % hx("J!"), "AC P _ %s basic" % hx("JRW")]
    for a in CLASS_TOKS:
        for n in CLASS_TOKS:
            cases.append("AC P %s %s" % (a, n))
    for u in (63, 47, 0, 255):
        cases.append("PP %d A _ _" % u)
        cases.append("PP %d E _ _" % u)
        for a in CLASS_TOKS:
            cases.append("PP %d P %s %s" % (u, a, rng.choice(CLASS_TOKS)))
    # subscription mode text on an existing subscription (U never holds O: it is not the owner)
    grp_sub = [(47, 47), (7, 127), (63, 31), (47, 46), (46, 47)]
    p2p_sub = [(31, 31), (23, 31), (31, 95), (47, 31), (30, 31)]     # sanitised, given with D, want with S and no A, no J
    for cat, pairs in (("grp", grp_sub), ("p2p", p2p_sub)):
        for route in ("set", "sub", "other", "off"):
            for wa, gi in pairs:
                for t in CLASS_TOKS:
                    cases.append("SS %s %s 47 %d %d %s" % (cat, route, wa, gi, t))
    # seeded stream: random current modes and texts
    k = 1 if quick else 12
    for _ in range(90 * k):
        cat = rng.choice(["grp", "p2p"])
        wa, gi = rng.choice(grp_sub + p2p_sub + [(rng.randrange(128), rng.randrange(128)), (rng.randrange(128) | 1, rng.randrange(128) | 1)])
        cases.append("SS %s %s %d %d %d %s" % (cat, rng.choice(["set", "sub", "other", "off"]), rng.choice([47, 47, 7, 0, 63]), wa, gi,
                                               "_" if rng.random() < 0.15 else "-" if rng.random() < 0.15 else hx(rand_valid(rng, 0.03)) if rng.random() < 0.7 else hx(rand_junk(rng))))
    for _ in range(130 * k):
        cat = rng.choice(["me", "grp"])
        ca, cn = rng.randrange(128), rng.randrange(128)
        if rng.random() < 0.5:
            ca, cn = rng.choice(me_cur + grp_cur + [(31, 31), (63, 63), (23, 0)])
        att = 0 if rng.random() < 0.06 else 1
        cases.append("SD %s %d %d %d P %s %s" % (cat, att, ca, cn, rand_tok(rng), rand_tok(rng)))
    for _ in range(45 * k):
        cases.append("NG %d P %s %s" % (rng.randrange(2), rand_tok(rng), rand_tok(rng)))
    for _ in range(40 * k):
        cases.append("AC P %s %s" % (rand_tok(rng), rand_tok(rng)))
    for _ in range(40 * k):
        u = rng.choice([63, 47, 0, 255, rng.randrange(256)])
        cases.append("PP %d A _ _" % u)
        cases.append("PP %d P %s %s" % (u, rand_tok(rng), rand_tok(rng)))
    return list(dict.fromkeys(cases))


def control_of(case):
    """the request without defacs whose answer is the 'current value' of a creation site"""
    w = case.split()
    if w[0] == "NG":
        return "NG %s A _ _" % w[1]
    if w[0] == "AC":
        return "AC A _ _"
    if w[0] == "PP":
        return "PP %s A _ _" % w[1]
    return None


def with_controls(cases):
    res = []
    for c in cases:
        k = control_of(c)
        if k and k not in res:
            res.append(k)
        if c not in res:
            res.append(c)
    return res


# ---------------------------------------------------------------------------
# running

def run_impl(ctx, cases, tag="l3"):
    fin = os.path.join(ctx.work, "c05sites_%s.in" % tag)
    fout = os.path.join(ctx.work, "c05sites_%s.impl" % tag)
    open(fin, "w").write("\n".join(cases) + "\n")
    if os.path.exists(fout):
        os.remove(fout)
    env = dict(vlib.GOENV, VERIF_IN=fin, VERIF_OUT=fout)
    p = subprocess.run([os.path.join(vlib.BUILD, "maindrv.test"), "-test.run", "^TestVerifC05Sites$", "-test.count=1", "-test.timeout=3000s"],
                       stdout=subprocess.PIPE, stderr=subprocess.STDOUT, env=env, cwd=os.path.join(vlib.REPO, "server"), timeout=3400)
    out = p.stdout.decode("utf8", "replace")
    lines = open(fout).read().split("\n") if os.path.exists(fout) else []
    if lines and lines[-1] == "":
        lines.pop()
    log = "\n".join(l for l in out.split("\n") if not (len(l) > 3 and l[0] in "IWE" and l[1:3] == "20"))
    return p.returncode, lines, log


def kv(ans):
    d = {}
    for w in ans.split()[1:]:
        if "=" in w:
            k, v = w.split("=", 1)
            d[k] = v
    return d


def pair(v):
    """'a/n' -> (a, n) ints; '-' (nothing there) -> None"""
    if v is None or v == "-" or "/" not in v:
        return None
    a, n = v.split("/")
    return int(a), int(n)


def dpair(v):
    """'<hex>:<hex>' -> (text, text); 'none' -> None"""
    if v is None or v == "none" or ":" not in v:
        return None
    a, n = v.split(":")
    return unhx(a), unhx(n)


def observe(case, ans):
    """the projection this layer reads: {name: (auth, anon)} for every place the modes show, plus the code"""
    w = case.split()
    d = kv(ans)
    obs = {"code": int(d.get("code", "0") or 0)}
    if w[0] == "SS":
        obs["att"] = d.get("att") == "1"
        for k in ("pre", "store", "cache"):
            obs[k] = pair(d.get(k))
        return obs
    if w[0] == "PP":
        for k in ("store", "cache"):
            v = d.get(k)
            obs[k] = None if v in (None, "-") else (int(v), None)
        return obs
    for k in ("pre", "precache", "store", "cache"):
        if k in d:
            obs[k] = pair(d[k])
    for k in ("predesc", "desc", "redesc"):
        if k in d:
            obs[k] = dpair(d[k])
    return obs


# where the value after the request shows, and the observation holding the value before it
SD_PLACES = [("store", "pre"), ("cache", "precache"), ("desc", "predesc"), ("redesc", "predesc")]
CREATE_PLACES = [("store", "store"), ("cache", "cache"), ("desc", "desc"), ("redesc", "redesc")]


def monitors(cases, table):
    """laws on the implementation's answers: list of (law, case, detail)"""
    fails = []
    for c in cases:
        ans = table.get(c)
        if ans is None:
            continue
        w = c.split()
        if ans.startswith("PANIC") or ans == "?" or " hang=" in ans:
            fails.append(("site-request-crashed-or-hung", c, ans[:300]))
            continue
        obs = observe(c, ans)
        if w[0] == "SS":
            fails += monitor_ss(c, w, obs)
            continue
        if w[0] == "SD":
            att, d, toks = w[2] == "1", w[5], (w[6], w[7])
            ref, places = obs, SD_PLACES
        else:
            if w[0] == "AC":
                w = w[:4]
            d, toks = w[-3], (w[-2], w[-1])
            kc = control_of(c)
            if kc == c or kc not in table or table[kc].startswith("PANIC"):
                continue
            ref, places, att = observe(kc, table[kc]), CREATE_PLACES, False
        cls = [("empty" if d != "P" else tok_class(t)) for t in toks]
        nfields = 1 if w[0] == "PP" else 2
        moved = [False, False]
        for f in range(nfields):
            if cls[f] == "text":
                continue
            name = ("auth", "anon")[f]
            for after, before in places:
                va, vb = obs.get(after), ref.get(before)
                if va is None or vb is None:
                    continue
                if va[f] == vb[f]:
                    continue
                moved[f] = True
                what = "%s %s is %r, was %r" % (after, name, va[f], vb[f])
                if cls[f] == "empty":
                    law = "empty-string-no-change"
                    if w[0] == "SD" and w[1] == "me" and isinstance(va[f], int) and va[f] == sanit(vb[f], CAUTH if f == 0 else CP2P):
                        law = "sanitising-only-on-supplied-values"
                    fails.append((law, c, "the %s text is empty/absent but %s" % (name, what)))
                else:
                    law = "unknown-letters-leave-target"
                    if w[0] == "AC" and f == 0 and isinstance(va[f], int) and va[f] == sanit(vb[f], CP2P):
                        law = FINDING_ACC
                    fails.append((law, c, "the %s text %r has an unknown letter but %s" % (name, tok_text(toks[f]), what)))
                break
        if w[0] == "SD" and att and "junk" in cls:
            code = obs["code"]
            changed = [k for k, b in SD_PLACES if obs.get(k) is not None and obs.get(b) is not None and obs[k] != obs[b]]
            if not (400 <= code < 500) or changed:
                law = "unknown-letters-rejected"
                if cls[0] == "junk" and cls[1] == "text" and not moved[0]:
                    law = FINDING_SETDESC
                fails.append((law, c, "a mode text with an unknown letter (%r / %r) is answered %d%s" % (
                    tok_text(toks[0]), tok_text(toks[1]), code, (" and " + ", ".join(changed) + " changed") if changed else "")))
    return fails


def monitor_ss(c, w, obs):
    """laws for the mode text of an existing subscription; field 0 = want (own routes), 1 = given (route other)"""
    fails = []
    cat, route, tok = w[1], w[2], w[6]
    cls = tok_class(tok)
    pre = obs.get("pre")
    if cls == "text" or pre is None:
        return fails
    f = 1 if route == "other" else 0
    if cls == "empty" and f == 0 and not pre[0] & 1:
        return fails                      # un-self-ban: the empty text means "default" by design
    for place in ("store", "cache"):
        v = obs.get(place)
        if v is None or v == pre:
            continue
        what = "%s want/given is %s/%s, was %s/%s" % (place, mtext(v[0]), mtext(v[1]), mtext(pre[0]), mtext(pre[1]))
        if cls == "empty":
            law = "empty-string-no-change"
            if cat == "p2p" and v[f] == (pre[f] & CP2P) | APPROVE:
                law = "sanitising-only-on-supplied-values"
            fails.append((law, c, "the mode text of the subscription is empty/absent but " + what))
        else:
            fails.append(("unknown-letters-leave-target", c, "the mode text %r has an unknown letter but %s" % (tok_text(tok), what)))
        break
    if cls == "junk" and obs["code"] < 400:
        fails.append(("unknown-letters-rejected", c, "a subscription mode text with an unknown letter (%r) is answered %d" % (tok_text(tok), obs["code"])))
    return fails


def model_query(case, ans):
    """the request put to the model: for SS the (want, given) and the route are those the implementation was in
    when the request was sent (an attaching {sub} may have un-self-banned the user; a session that could not
    attach is served by the hub)"""
    w = case.split()
    if w[0] != "SS" or ans is None or not ans.startswith("SS "):
        return case
    obs = observe(case, ans)
    if obs.get("pre") is None:
        return case
    route = w[2]
    if route == "set" and not obs["att"]:
        route = "off"
    if route == "other" and not obs["att"]:
        return None
    return "SS %s %s %s %d %d %s" % (w[1], route, w[3], obs["pre"][0], obs["pre"][1], w[6])


def model_obs(case, ans):
    w, m = case.split(), ans.split()
    if w[0] == "SS":
        return {"raw": ans}
    if w[0] == "SD":
        p, t = (int(m[2]), int(m[3])), (unhx(m[4]), unhx(m[5]))
        att = w[2] == "1"
        return {"code": int(m[1]), "store": p, "cache": p if att else None, "desc": t if att else None, "redesc": t if att else None}
    if w[0] == "PP":
        return {"store": (int(m[1]), None), "cache": (int(m[1]), None)}
    p, t = (int(m[1]), int(m[2])), (unhx(m[3]), unhx(m[4]))
    return {"code": 200 if w[0] == "NG" else 201, "store": p, "cache": p, "desc": t, "redesc": t if w[0] == "NG" else None}


def compare(cases, impl, model):
    mism = []
    for c in cases:
        ma = model[c][1] if isinstance(model[c], tuple) else model[c]
        if impl[c].startswith("PANIC") or (ma is not None and (ma in ("?", "") or ma.startswith("EXC"))):
            mism.append((c, impl[c], ma, "answer"))
            continue
        if c.split()[0] == "SS":
            r = compare_ss(c, impl[c], model[c])
            if r:
                mism.append(r)
            continue
        io, mo = observe(c, impl[c]), model_obs(c, model[c])
        for k, mv in mo.items():
            if mv is None:
                continue
            if io.get(k) != mv:
                mism.append((c, "%s=%r" % (k, io.get(k)), "%s=%r" % (k, mv), k))
                break
    return mism


def compare_ss(c, ians, mans):
    """model[c] is (query, answer) of the derived model request, or None when the scenario left the model's frame"""
    if mans is None:
        return None
    q, ans = mans
    m = ans.split()
    obs = observe(c, ians)
    route = q.split()[2]
    if m[1] == "ownerchange":
        return None
    if m[1] == "err":
        code, modes = int(m[2]), obs["pre"]
    else:
        code, modes = int(m[2]), (int(m[3]), int(m[4]))
    if c.split()[2] == "sub" and code in (200, 304):
        code = 200                                  # subscriptionReply answers 200 whether or not the modes moved
    if obs["code"] != code:
        return (c, "code=%d" % obs["code"], "code=%d (%s -> %s)" % (code, q, ans), "code")
    if obs["store"] != modes:
        return (c, "store=%r" % (obs["store"],), "store=%r (%s -> %s)" % (modes, q, ans), "store")
    if route != "off" and obs["cache"] is not None and obs["cache"] != modes:
        return (c, "cache=%r" % (obs["cache"],), "cache=%r (%s -> %s)" % (modes, q, ans), "cache")
    return None


def neighbours(rng, case):
    w = case.split()[:4] if case.startswith("AC ") else case.split()
    res = []
    if w[0] == "SS":
        for t in ["_", "-", hx("N"), hx("JRW"), hx("J!")]:
            res.append(" ".join(w[:6] + [t]))
        for wa, gi in ((47, 47), (31, 31), (31, 95), (47, 31), (7, 127)):
            res.append(" ".join(w[:4] + [str(wa), str(gi), w[6]]))
        for r in ("set", "sub", "other", "off"):
            res.append(" ".join(w[:2] + [r] + w[3:]))
        return res
    i = len(w) - 2
    for j in (i, i + 1):
        for t in ["_", "-", hx("N"), hx("JRW"), hx("J!")]:
            v = list(w)
            v[j] = t
            res.append(" ".join(v))
    if w[0] == "SD":
        for ca, cn in ((63, 0), (47, 31), (111, 3), (0, 23), (127, 7)):
            v = list(w)
            v[3], v[4] = str(ca), str(cn)
            res.append(" ".join(v))
        v = list(w)
        v[1] = "grp" if w[1] == "me" else "me"
        res.append(" ".join(v))
    return res


def is_replay(ctx):
    if not ctx.replay:
        return False
    rp = json.load(open(ctx.replay))
    return isinstance(rp.get("replay"), dict) and rp["replay"].get("layer") == 3


RULE = ("layer 3: for each site ({set desc.defacs} on 'me' and on a group topic, attached and not attached; {sub new|nch set.desc.defacs}; "
        "{acc user=new desc.defacs}; {sub usrX set.desc.defacs} creating a p2p topic; {set sub.mode} / {sub set.sub.mode} on an existing subscription of a group "
        "and of a p2p topic: own want attached / while attaching / detached, given changed by the owner or the peer) the cross product {key absent, \"\", valid text, \"N\", text with "
        "an unknown letter} x {auth, anon} over several current default-access pairs (sanitised and NOT sanitised ones on 'me'), the request "
        "without defacs / with an empty desc, plus a seeded stream of random current modes and random texts (valid sets in any case/order, N, "
        "junk inserted into valid texts, N-combinations)")


def run_layer3(ctx):
    """adds this layer's violations and coverage to ctx; never calls ctx.finish()"""
    ok, out = ctx.coq_build()
    if not ok and "AcsSitesC05" in out:
        return            # reported by the proof step
    ok, out = ctx.build_runner()
    if not ok:
        return
    ok, out = ctx.build_main()
    if not ok:
        ctx.violation("corr", "harness-build-broken", "package-main driver no longer builds against /repo: " + out[-1500:],
                      {"correspondence": "build of harness/overlay against /repo/server"})
        return
    if is_replay(ctx):
        rp = json.load(open(ctx.replay))
        cases = [r["case"] for r in [rp["replay"]] + rp.get("more_cases", []) if isinstance(r, dict) and "case" in r]
    else:
        cases = []
        cdir = os.path.join(vlib.ROOT, "corpus", "C05sites")
        if os.path.isdir(cdir):
            for f in sorted(os.listdir(cdir)):
                cases += [l.strip() for l in open(os.path.join(cdir, f)) if l.strip() and not l.startswith("#")]
        cases += gen_cases(ctx)
    cases = with_controls(list(dict.fromkeys(cases)))
    t0 = time.time()
    rc, lines, log = run_impl(ctx, cases)
    t_impl = time.time() - t0
    if rc != 0 or len(lines) != len(cases):
        k = min(len(lines), len(cases) - 1)
        ctx.violation("monitor", "server-crashed", "the server process died or stopped answering while running the mode-text request %s: %s"
                      % (cases[k], log[-1500:]), {"case": cases[k], "layer": 3, "log": log[-4000:]})
        return
    impl = dict(zip(cases, lines))
    fails = monitors(cases, impl)
    known = set(f["key"] for f in ctx.load_findings() if f["property"] == ctx.pid)
    queries = [model_query(c, impl[c]) for c in cases]
    asked = [q for q in queries if q is not None]
    rc, mout, err = ctx.run_model("c05sites", asked)
    if rc != 0 or len(mout) != len(asked):
        ctx.violation("proof", "runner-crashed", "model runner c05sites failed: " + err[-1500:], {"theorem_or_obligation": "model runner"})
        return
    answers = dict(zip(asked, mout))
    model = {}
    for c, q in zip(cases, queries):
        if c.split()[0] == "SS":
            model[c] = None if q is None else (q, answers[q])
        else:
            model[c] = answers[q]
    mism = compare(cases, impl, model)
    searched = 0
    if mism and not any(f[0] not in known for f in fails):
        pool = []
        for c, _, _, _ in mism[:60]:
            pool += neighbours(ctx.rng, c)
        pool = [c for c in with_controls(list(dict.fromkeys(pool))) if c not in impl][:1500]
        if pool:
            rc2, l2, _ = run_impl(ctx, pool, tag="search")
            if rc2 == 0 and len(l2) == len(pool):
                t2 = dict(impl)
                t2.update(zip(pool, l2))
                f2 = [f for f in monitors(pool, t2)]
                searched = len(pool)
                for law, c, detail in f2:
                    if law not in known:
                        fails.append((law, c, detail + " [found by the search near a correspondence mismatch]"))
                impl.update(zip(pool, l2))
    by_law = {}
    for law, c, detail in fails:
        by_law.setdefault(law, []).append((c, detail))
    for law, lst in by_law.items():
        # the most telling request first: one field supplied with a plain valid text, the other one empty/absent
        def telling(x):
            w = x[0].split()[:4] if x[0].startswith("AC ") else x[0].split()
            cl = [tok_class(t) for t in (w[-2:] if w[0] != "SS" else w[-1:])]
            return (0 if "text" in cl and "junk" not in cl else 1, len(x[0]), x[0])
        lst.sort(key=telling)
        c, detail = lst[0]
        rep = {"case": c, "impl": impl.get(c), "law": law, "detail": detail, "layer": 3, "cases_failing": len(lst)}
        kc = control_of(c)
        if kc and kc != c:
            rep["reference_case"] = kc
            rep["reference_impl"] = impl.get(kc)
        ctx.violation("monitor", law, "law %s fails on the implementation (%d requests this run): %s -> %s (%s)"
                      % (law, len(lst), c, impl.get(c), detail), rep)
        for c2, d2 in lst[1:8]:
            ctx.violations.append({"kind": "monitor", "key": law, "what": d2, "replay": {"case": c2, "impl": impl.get(c2), "law": law, "layer": 3}})
    if mism and not any(f[0] not in known for f in fails):
        c, iv, mv, k = mism[0]
        ctx.violation("corr", "correspondence-sites-" + c.split()[0],
                      "the mode-text site model (Sys/AcsSitesC05.v) and the implementation disagree on %d of %d requests, first: %s: impl %s (%s), model %s; "
                      "no law failure on %d neighbouring requests" % (len(mism), len(cases), c, iv, impl[c], mv, searched),
                      {"correspondence": "projection %s of C05 layer 3 (%s)" % (c.split()[0], k), "case": c, "impl": impl[c], "model": model[c], "layer": 3,
                       "more": [{"case": a, "impl": b, "model": d} for a, b, d, _ in mism[1:10]]})
    kinds, classes, codes = {}, {}, {}
    for c in cases:
        w = c.split()[:4] if c.startswith("AC ") else c.split()
        site = w[0] + (":" + w[1] + (":att" if w[2] == "1" else ":detached") if w[0] == "SD" else ":" + w[1] + ":" + w[2] if w[0] == "SS" else "")
        kinds[site] = kinds.get(site, 0) + 1
        d = w[5] if w[0] == "SD" else "P" if w[0] == "SS" else w[-3]
        ck = d if d != "P" else "sub:" + tok_class(w[-1]) if w[0] == "SS" else tok_class(w[-2]) + "/" + tok_class(w[-1])
        classes[ck] = classes.get(ck, 0) + 1
        co = str(observe(c, impl[c]).get("code"))
        codes[w[0] + ":" + co] = codes.get(w[0] + ":" + co, 0) + 1
    ctx.coverage["layer3"] = {
        "rule": RULE, "requests": len(cases), "by_site": kinds, "by_text_class_auth/anon": classes, "by_reply_code": codes,
        "model_correspondence_items": len(cases), "correspondence_mismatches": len(mism), "search_pool": searched,
        "monitor_failures": len([f for f in fails if f[0] not in known]),
        "known_finding_failures": len([f for f in fails if f[0] in known]), "impl_wall_s": round(t_impl, 1),
        "samples": [{"case": c, "impl": impl[c], "model": model[c]} for c in ctx.rng.sample(cases, min(5, len(cases)))],
        "subscription_requests_outside_the_model": len([c for c in cases if c.split()[0] == "SS" and (model[c] is None or "ownerchange" in model[c][1])]),
        "trusted_base": [
            "harness/overlay/server/zz_verif_c05sites_test.go: creates the user / topic rows directly in the store, sends the requests through Session.dispatchRaw, "
            "reads users.access / topics.access / the peer's subscription through the store mappers and Topic.accessAuth/accessAnon/perUser after quiescence",
            "harness/overlay/server/zz_verif_topic_test.go (sessions, quiescence) and db/memverif",
            "tools/props/c05sites.py: classification of a text (empty / has a letter outside JRWPASDO+N / other) and the python restatement of the laws",
        ],
    }
