"""C08, part d: private / public data of a CHANNEL-ENABLED group topic (topics.usebt): full subscribers have rows under
grpXXX, channel readers under chnXXX; both may name the topic grpXXX or chnXXX.

Model and theorems: coq/Sys/ChanPrivC08d.v, c08_chan_* in coq/Props/PropC08.v (set desc.private picks the row by the NAME
used - asChan - not by the kind of the user: the full ack => stored statement is refuted, proved when name and kind agree).
Driver: TestVerifC08xChan (harness/overlay/server/zz_verif_c08x_test.go), rows of both names dumped
(memverif.DumpSubsPrivC08x); memverif.SubsUpdate on a missing row is a success with no effect, like the SQL adapters.
The laws are evaluated on the IMPLEMENTATION's trace; there is no extracted-model run for this part (stated in the manifest).

Laws: ack-not-stored-private (an acknowledged {set desc private} is in the requester's OWN row), ack-not-stored-public,
reject-changes-store-chan, coherent-chan-private (cached private = own stored row), reload-visible-chan (same later
{get desc} answers and rows with the topic reloaded).  Reproduced defects of the unchanged tree have their own keys:
set-private-under-other-name-not-stored, chan-reader-private-not-loaded (+ offline-setdesc-stale-cache of the desc part)."""
import json
import os
import subprocess
import time
import vlib
from props import topiclib as T

L_ACK = "ack-not-stored-private"
L_ACKPUB = "ack-not-stored-public"
L_OTHER = "set-private-under-other-name-not-stored"
L_READER = "chan-reader-private-not-loaded"
L_OFFLINE = "offline-setdesc-stale-cache"
L_COH = "coherent-chan-private"
L_REJ = "reject-changes-store-chan"
L_RELOAD = "reload-visible-chan"


class CScn:
    def __init__(self, sid):
        self.id = sid
        self.pub = 5
        self.members = {}    # user -> (want, given, priv)
        self.readers = {}    # user -> priv
        self.sessions = {}   # sid -> user
        self.ops = []        # (kind, args)

    @property
    def head(self):
        h = ["cscn %s pub=%d" % (self.id, self.pub)]
        for u in sorted(set(self.members) | set(self.readers)):
            h.append("user %d" % u)
        for u, (w, g, p) in sorted(self.members.items()):
            h.append("member %d want=%d given=%d priv=%d" % (u, w, g, p))
        for u, p in sorted(self.readers.items()):
            h.append("reader %d priv=%d" % (u, p))
        for s, u in sorted(self.sessions.items()):
            h.append("sess %d %d" % (s, u))
        return h

    def lines(self):
        return self.head + ["op %s %s" % (k, " ".join(str(x) for x in a)) if a else "op %s" % k for k, a in self.ops] + ["end"]

    def clone(self, ops, vid=None):
        c = CScn(vid or self.id)
        c.pub, c.members, c.readers, c.sessions = self.pub, self.members, self.readers, self.sessions
        c.ops = [(k, list(a)) for k, a in ops]
        return c

    def own(self, u):
        return "chn" if u in self.readers else "grp"


def from_replay(rp, sid="r0"):
    sc = CScn(sid)
    for l in rp["head"]:
        w = l.split()
        kv = dict(x.split("=") for x in w[2:] if "=" in x)
        if w[0] == "cscn":
            sc.pub = int(kv.get("pub", 5))
        elif w[0] == "member":
            sc.members[int(w[1])] = (int(kv["want"]), int(kv["given"]), int(kv["priv"]))
        elif w[0] == "reader":
            sc.readers[int(w[1])] = int(kv["priv"])
        elif w[0] == "sess":
            sc.sessions[int(w[1])] = int(w[2])
    sc.ops = [(o[0], list(o[1])) for o in rp["ops"]]
    return sc


def gen(ctx, count):
    rng = ctx.rng
    res = []
    for i in range(count):
        sc = CScn("ch%d" % i)
        sc.pub = rng.choice([0, 5, 6])
        sc.members[1] = (255, 255, rng.choice([0, 20]))
        sc.members[2] = (rng.choice([47, 63]), rng.choice([47, 63]), rng.choice([0, 21]))
        if rng.random() < 0.5:
            sc.members[3] = (47, 47, rng.choice([0, 22]))
        nr = rng.choice([1, 1, 2])
        for k in range(nr):
            sc.readers[4 + k] = rng.choice([0, 23, 24])
        users = sorted(set(sc.members) | set(sc.readers))
        for n, u in enumerate(users):
            sc.sessions[n + 1] = u
        sids = sorted(sc.sessions)
        ops = []
        for s in sids:
            if rng.random() < 0.85:
                u = sc.sessions[s]
                ops.append(("sub", [s, sc.own(u), rng.choice([0, 0, 0, 30 + s]) if u in sc.readers else 0]))
        for _ in range(rng.randint(5, 14)):
            s = rng.choice(sids)
            u = sc.sessions[s]
            own = sc.own(u)
            other = "grp" if own == "chn" else "chn"
            r = rng.random()
            if r < 0.45:
                ops.append(("setpriv", [s, own if rng.random() < 0.8 else other, rng.choice([1, 7, 8, 9, 10, 11, 12])]))
            elif r < 0.55:
                ops.append(("setpub", [1 if 1 in sc.sessions.values() and rng.random() < 0.8 else s, rng.choice(["grp", "grp", "chn"]), rng.choice([1, 6, 7, 8])]))
            elif r < 0.75:
                ops.append(("getdesc", [s, own]))
            elif r < 0.85:
                ops.append(("leave", [s, own, 0]))
            elif r < 0.95:
                ops.append(("sub", [s, own, 0]))
            else:
                ops.append(("unload", []))
        sc.ops = ops
        res.append(sc)
    return res


def probes(sc):
    return [("getdesc", [s, sc.own(u)]) for s, u in sorted(sc.sessions.items())]


def run_impl(ctx, scns, tag):
    fin = os.path.join(ctx.work, "chan_%s.in" % tag)
    fout = os.path.join(ctx.work, "chan_%s.impl" % tag)
    with open(fin, "w") as f:
        for sc in scns:
            f.write("\n".join(sc.lines()) + "\n")
    if os.path.exists(fout):
        os.remove(fout)
    env = dict(vlib.GOENV, VERIF_IN=fin, VERIF_OUT=fout)
    try:
        p = subprocess.run([os.path.join(vlib.BUILD, "maindrv.test"), "-test.run", "^TestVerifC08xChan$", "-test.count=1", "-test.timeout=1200s"],
                           stdout=subprocess.PIPE, stderr=subprocess.STDOUT, env=env, cwd=os.path.join(vlib.REPO, "server"), timeout=1300)
    except subprocess.TimeoutExpired:
        return 1, {}, "timeout"
    out = p.stdout.decode("utf8", "replace")
    lines = open(fout, encoding="utf8", errors="replace").read().split("\n") if os.path.exists(fout) else []
    log = "\n".join(l for l in out.split("\n") if not (len(l) > 3 and l[0] in "IWE" and l[1:3] == "20"))
    return p.returncode, T.parse_blocks(lines), log


def kvs(t):
    return dict(p.split("=", 1) for p in t.split() if "=" in p)


class CView:
    def __init__(self, b):
        self.b = b
        self.loaded = b["loaded"] == "1"
        self.frames = b["frames"]
        self.pub = None
        self.rows = {}      # (form, user) -> priv
        self.cusers = {}    # user -> (chan, priv)
        self.csess = {}     # sid -> (user, chan)
        self.cpub = None
        for l in b["store"]:
            w = l.split()
            d = kvs(l)
            if w[0] == "topic":
                self.pub = d["pub"]
            elif w[0] == "row" and d["deleted"] == "0":
                self.rows[(w[1], int(d["user"]))] = d["priv"]
        for l in b["cache"]:
            w = l.split()
            d = kvs(l)
            if w[0] == "topic":
                self.cpub = d["pub"]
            elif w[0] == "user":
                self.cusers[int(w[1])] = (d["chan"] == "1", d["priv"])
            elif w[0] == "sess":
                self.csess[int(w[1])] = (int(d["user"]), d["chan"] == "1")


def code_of(v, s):
    for x, t in v.frames:
        if x == s and t.startswith("ctrl ") and not t.startswith("ctrl 205"):
            return int(t.split()[1])
    return None


def incoherent(sc, v):
    d = {}
    if not v.loaded:
        return d
    for u, (ch, priv) in v.cusers.items():
        row = v.rows.get(("chn" if ch else "grp", u))
        if row is not None and row != priv:
            d[u] = "user %d cached private=%s, his stored row (%s) has %s" % (u, priv, "chn" if ch else "grp", row)
    if v.cpub is not None and v.cpub != v.pub:
        d[0] = "cached public=%s stored %s" % (v.cpub, v.pub)
    return d


def monitor(sc, views):
    """-> [(law, k, detail, user)]"""
    res = []
    prev = None
    prev_inc = {}
    for k, v in enumerate(views):
        kind, a = sc.ops[k]
        s = a[0] if a else None
        u = sc.sessions.get(s)
        code = code_of(v, s) if s is not None else None
        attached = prev is not None and prev.loaded and s in prev.csess
        own = sc.own(u) if u is not None else None
        inc = incoherent(sc, v)
        for x, det in inc.items():
            if x in prev_inc and prev_inc[x] == det:
                continue
            if kind == "sub" and x == u and u in sc.readers and code == 200:
                law = L_READER
            elif kind == "setpriv" and x == u and attached and a[1] != own and code == 200:
                law = L_OTHER
            elif kind == "setpriv" and x == u and not attached and code == 200:
                law = L_OFFLINE
            elif code is not None and 200 <= code < 300:
                law = L_ACK if x != 0 else L_ACKPUB
            else:
                law = L_COH
            res.append((law, k, "%s after %s %s (reply %s)" % (det, kind, a, code), x))
        if prev is not None and kind == "setpriv" and code == 200 and attached:
            exp = "0" if a[2] == 1 else str(a[2])
            row = v.rows.get((own, u))
            if row != exp:
                res.append((L_OTHER if a[1] != own else L_ACK, k,
                            "%s %s answered 200 but the requester's own stored row (%s, user %d) holds private=%s, not %s"
                            % (kind, a, own, u, row, exp), u))
        if prev is not None and kind == "setpub" and code == 200 and attached:
            exp = "0" if a[2] == 1 else str(a[2])
            if v.pub != exp:
                res.append((L_ACKPUB, k, "%s %s answered 200 but the stored public is %s" % (kind, a, v.pub), 0))
        if prev is not None and code is not None and code >= 400 and v.b["store"] != prev.b["store"]:
            res.append((L_REJ, k, "%s %s answered %d but the stored rows changed" % (kind, a, code), u))
        prev = v
        prev_inc = inc if v.loaded else {}
    return res


def reload_ops(sc, view):
    att = sorted(view.csess) if view.loaded else []
    leaves = [("leave", [s, "chn" if view.csess[s][1] else "grp", 0]) for s in att]
    back = [("sub", [s, "chn" if view.csess[s][1] else "grp", 0]) for s in att]
    return leaves + [("unload", [])] + back


def run_part(ctx, replay=None):
    quick = ctx.tier == "quick"
    rng = ctx.rng
    t0 = time.time()
    cov = {"histories": 0, "perturbed_runs": 0, "laws_failing": {}}
    if replay is not None:
        scns = [from_replay(replay)]
    else:
        scns = []
        cdir = os.path.join(vlib.ROOT, "corpus", "C08chan")
        if os.path.isdir(cdir):
            for f in sorted(os.listdir(cdir)):
                scns.append(from_replay(json.load(open(os.path.join(cdir, f))), "c_" + f.split(".")[0]))
        scns += gen(ctx, 40 if quick else 400)
        for sc in scns:
            sc.ops = sc.ops + probes(sc)

    def crashed(bad, log):
        ctx.violation("monitor", "server-crashed-chan", "the server process died or stopped answering while running channel history %s: %s"
                      % (bad.id if bad else "?", log[-1500:]),
                      {"part": "chan", "head": bad.head if bad else [], "ops": [list(o) for o in bad.ops] if bad else [], "log": log[-3000:]})
        return cov
    rc, impl, log = run_impl(ctx, scns, "base")
    bad = next((sc for sc in scns if sc.id not in impl or len(impl[sc.id]) != len(sc.ops)), None)
    if rc != 0 or bad is not None:
        return crashed(bad, log)
    views, fails, by_law = {}, {}, {}
    for sc in scns:
        views[sc.id] = [CView(b) for b in impl[sc.id]]
        fails[sc.id] = monitor(sc, views[sc.id])
        for law, k, det, u in fails[sc.id]:
            by_law.setdefault(law, []).append((sc, k, det))
    for law, lst in sorted(by_law.items()):
        sc, k, det = min(lst, key=lambda x: x[1])
        ctx.violation("monitor", law, "law %s fails on the implementation's trace (%d requests this run, channel part): %s" % (law, len(lst), det),
                      {"part": "chan", "head": sc.head, "ops": [list(o) for o in sc.ops[:k + 1]], "law": law, "detail": det})
    # ---- reload differential
    variants = []
    for sc in scns:
        n = len(sc.ops)
        if replay is not None:
            if "insert_at" not in replay:
                continue
            pos = [replay["insert_at"]]
        else:
            pos = sorted(set(rng.randint(1, n) for _ in range(2 if quick else 6)))
        for p in pos:
            ins = reload_ops(sc, views[sc.id][p - 1])
            variants.append((sc, p, len(ins), sc.clone(sc.ops[:p] + ins + sc.ops[p:], "%s_r%d" % (sc.id, p))))
    dfails = {}
    if variants:
        rc, vimpl, log = run_impl(ctx, [v[3] for v in variants], "var")
        bad = next((v[3] for v in variants if v[3].id not in vimpl or len(vimpl[v[3].id]) != len(v[3].ops)), None)
        if rc != 0 or bad is not None:
            return crashed(bad, log)
        for sc, p, nins, vs in variants:
            vv = [CView(b) for b in vimpl[vs.id]]
            vf = monitor(vs, vv)
            if views[sc.id][p - 1].loaded and views[sc.id][p - 1].csess != (vv[p + nins - 1].csess if vv[p + nins - 1].loaded else {}):
                continue        # a session did not come back: not the same experiment
            for k in range(p, len(sc.ops)):
                j = k + nins
                fa = [(s, t) for s, t in impl[sc.id][k]["frames"] if not t.startswith("pres ")]
                fb = [(s, t) for s, t in vimpl[vs.id][j]["frames"] if not t.startswith("pres ")]
                if fa != fb or impl[sc.id][k]["store"] != vimpl[vs.id][j]["store"]:
                    s = sc.ops[k][1][0] if sc.ops[k][1] else None
                    u = sc.sessions.get(s)
                    roots = sorted(set(l for l, kk, _, x in fails[sc.id] if kk < k and x in (u, 0)) | set(l for l, kk, _, x in vf if kk < j and x in (u, 0)))
                    law = roots[0] if roots else L_RELOAD
                    dfails.setdefault(law, []).append((sc, p, k, "request %s: topic stayed in memory: %s; reloaded before request %d: %s" % (sc.ops[k], fa, p, fb)))
                    break
    for law, lst in sorted(dfails.items()):
        sc, p, k, det = min(lst, key=lambda x: x[2])
        ctx.violation("monitor", law, "the real server answers differently when the channel-enabled topic is reloaded (%d perturbed runs): %s" % (len(lst), det),
                      {"part": "chan", "head": sc.head, "ops": [list(o) for o in sc.ops[:k + 1]], "insert_at": p, "law": law, "detail": det})
    kinds_c, codes = {}, {}
    cross = 0
    for sc in scns:
        for k, (kind, a) in enumerate(sc.ops):
            kinds_c[kind] = kinds_c.get(kind, 0) + 1
            if kind in ("setpriv", "setpub") and a and sc.sessions.get(a[0]) is not None and a[1] != sc.own(sc.sessions[a[0]]):
                cross += 1
            for s, t in impl[sc.id][k]["frames"]:
                if t.startswith("ctrl "):
                    codes[t.split()[1]] = codes.get(t.split()[1], 0) + 1
    cov.update({"histories": len(scns), "perturbed_runs": len(variants), "laws_failing": {k: len(v) for k, v in by_law.items()},
                "perturbed_runs_differing": {k: len(v) for k, v in dfails.items()}, "op_kinds": kinds_c, "ctrl_codes": codes,
                "sets_under_the_other_name": cross, "wall_s": round(time.time() - t0, 1),
                "rule": "seeded histories over one channel-enabled group topic: owner + 1-2 full subscribers (rows under grpXXX) and 1-2 channel readers "
                        "(rows under chnXXX), stored private tokens; attach under the own name (readers sometimes with set.desc.private), {set desc private} "
                        "(values and the DEL marker) under the own name (80%) or the other name, {set desc public} by the owner / others under either name, "
                        "{get desc}, leave / re-attach, unload; then {get desc} from every session; each history also with the topic reloaded (leave all; "
                        "unload; re-attach) before two random requests"})
    return cov


def replay_part(ctx, rp):
    return run_part(ctx, replay=rp)
