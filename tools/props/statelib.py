"""Common flow of a stateful (topic-history) property check: proofs, scenarios run on
the real server and on the extracted model, the property's monitor evaluated on the
IMPLEMENTATION's trace, projection-wise correspondence, failing-input search, evidence."""
import json
import os
import re
import time
import vlib
from props import topiclib as T


def kvs(text):
    return dict(p.split("=", 1) for p in text.split() if "=" in p)


class View:
    """Parsed view of one implementation (or model) op block, for monitors."""
    def __init__(self, block):
        self.b = block
        self.frames = block["frames"]
        self.pres = block["pres"]
        self.loaded = block["loaded"] == "1"
        self.topic = {}
        self.subs = {}      # user -> dict(want, given, read, recv, del, deleted)
        self.msgs = {}      # seq -> dict(from, content, delid)
        self.dellog = []    # (delid, for, set(ids))
        self.cusers = {}    # user -> dict(want, given, read, recv, del, online)
        self.csess = {}     # sid -> user
        self.cache = {}
        for l in block["store"]:
            w = l.split()
            if w[0] == "topic":
                self.topic = {k: int(v) for k, v in kvs(l).items()} if "absent" not in l else {}
            elif w[0] == "sub":
                want, given = w[2].split("/")
                d = kvs(l)
                self.subs[int(w[1])] = dict(want=want, given=given, read=int(d["read"]), recv=int(d["recv"]), delid=int(d["del"]),
                                            deleted=d["deleted"] == "1")
            elif w[0] == "msg":
                d = kvs(l)
                self.msgs[int(w[1])] = dict(frm=int(d["from"]), content=d["content"], delid=int(d["delid"]))
            elif w[0] == "dellog":
                d = kvs(l)
                ids = set(int(x) for x in d["ids"].split(",") if x != "")
                self.dellog.append((int(w[1]), int(d["for"]), ids))
        for l in block["cache"]:
            w = l.split()
            if w[0] == "user":
                want, given = w[2].split("/")
                d = kvs(l)
                self.cusers[int(w[1])] = dict(want=want, given=given, read=int(d["read"]), recv=int(d["recv"]), delid=int(d["del"]),
                                              online=int(d["online"]))
            elif w[0] == "sess":
                self.csess[int(w[1])] = int(kvs(l)["user"])
            else:
                self.cache = {k: int(v) for k, v in kvs(l).items()}


def has(mode, letter):
    return letter in mode


def eff(want, given):
    return "".join(c for c in "JRWPASDO" if c in want and c in given)


def restore_sessions(sc):
    """a scenario read back from a replay / corpus file: sessions and user count are in its head lines"""
    for l in sc.head:
        w = l.split()
        if w and w[0] == "sess":
            sc.sessions[int(w[1])] = int(w[2])
        elif w and w[0] == "user":
            sc.nusers = max(sc.nusers, int(w[1]))
    return sc


def run_stateful(ctx, profiles, monitor, proj, rule, trusted, corpus=(), extra_files=(), taint=None,
                 counts=None, nontrivial=None,
                 extra_scns=None, extra_cov=None):
    """profiles: list of (profile, faults, share); monitor(sc, views)-> [(law, opindex, detail)];
    proj: dict(ops=set of op kinds or None, frame=callable or None, line=callable or None, keys=tuple);
    extra_scns(ctx, total) -> [Scn]: the plugin's own (e.g. model-guided) scenarios, generated after the runner is built;
    extra_cov(scns, impl) -> dict merged into the evidence coverage (measured on the implementation's trace)"""
    ctx.coq_props(extra_files)
    vlib.proof_violation(ctx)
    ok, out = ctx.build_runner()
    if not ok:
        ctx.violation("proof", "extraction-broken", "model extraction/runner build failed: " + out[-1500:],
                      {"theorem_or_obligation": "extraction of the model"})
        ctx.finish()
    ok, out = ctx.build_main()
    if not ok:
        ctx.violation("corr", "harness-build-broken", "package-main driver no longer builds against /repo: " + out[-1500:],
                      {"correspondence": "build of harness/overlay against /repo/server"})
        ctx.finish()
    quick = ctx.tier == "quick"
    total = (counts or {}).get(ctx.tier, 300 if quick else 4000)
    scns = []
    if ctx.replay:
        rp = json.load(open(ctx.replay))
        sc = T.Scn(rp["replay"]["head"][0].split()[1])
        sc.head = rp["replay"]["head"]
        sc.ops = [tuple(o) for o in rp["replay"]["ops"]]
        scns = [restore_sessions(sc)]
    else:
        cdir = os.path.join(vlib.ROOT, "corpus", ctx.pid)
        if os.path.isdir(cdir):
            for f in sorted(os.listdir(cdir)):
                rp = json.load(open(os.path.join(cdir, f)))
                sc = T.Scn("c_" + f.split(".")[0])
                sc.head = [("scn %s " % sc.id + " ".join(rp["head"][0].split()[2:]))] + rp["head"][1:]
                sc.ops = [tuple(o) for o in rp["ops"]]
                scns.append(restore_sessions(sc))
        for pi, (profile, faults, share) in enumerate(profiles):
            scns += T.gen_scenarios(ctx, max(1, int(total * share)), profile, faults, prefix="p%d_" % pi)
        if extra_scns:
            scns += extra_scns(ctx, total)
    t0 = time.time()
    rc, impl, log = T.run_impl(ctx, scns)
    t_impl = time.time() - t0
    if rc != 0 or any(sc.id not in impl or len(impl[sc.id]) != len(sc.ops) for sc in scns):
        bad = next((sc for sc in scns if sc.id not in impl or len(impl[sc.id]) != len(sc.ops)), None)
        # a crash of the server process inside the driver: the scenario that was running is the replay
        ctx.violation("monitor", "server-crashed", "the server process died or stopped answering while running scenario %s: %s"
                      % (bad.id if bad else "?", log[-1500:]),
                      {"head": bad.head if bad else [], "ops": bad.ops if bad else [], "log": log[-4000:]})
        ctx.finish()
    rc, model, err = T.run_model(ctx, scns)
    if rc != 0:
        ctx.violation("proof", "runner-crashed", "model runner failed: " + err[-1500:], {"theorem_or_obligation": "model runner"})
        ctx.finish()

    def mon(sc, blocks):
        views = [View(b) for b in blocks]
        res = monitor(sc, views)
        for k, b in enumerate(blocks):
            if b["hang"]:
                res.append(("hang", k, b["hang"]))
        return res

    fails = []
    for sc in scns:
        for law, k, detail in mon(sc, impl[sc.id]):
            fails.append((sc, law, k, detail))
    # report each distinct law once, shrunk
    seen = {}
    for sc, law, k, detail in fails:
        seen.setdefault(law, []).append((sc, k, detail))
    nshrunk = 0
    for law, lst in seen.items():
        sc, k, detail = min(lst, key=lambda x: len(x[0].ops))
        small = sc.clone(sc.ops[:k + 1])
        if nshrunk < 4 and not ctx.replay:
            nshrunk += 1

            def still_bad(c, law=law):
                rc2, im2, _ = T.run_impl(ctx, [c], tag="shrink")
                return rc2 == 0 and c.id in im2 and len(im2[c.id]) == len(c.ops) and any(l == law for l, _, _ in mon(c, im2[c.id]))
            small = T.shrink(ctx, small, still_bad, budget=25 if quick else 120)
        ctx.violation("monitor", law, "law %s fails on the implementation's trace (%d scenarios this run): %s" % (law, len(lst), detail),
                      {"head": small.head, "ops": small.ops, "law": law, "detail": detail, "scenarios_failing": len(lst)})

    def opfilter(sc):
        return None
    mism = []
    for sc in scns:
        io, mo = impl[sc.id], model.get(sc.id, [])
        if len(io) != len(mo):
            mism.append((sc, -1, [("shape", len(io), len(mo))]))
            continue
        tainted = False
        for k in range(len(io)):
            if taint and taint(sc, k):
                tainted = True
            if tainted:
                break
            if proj.get("ops") is not None and sc.ops[k][1] not in proj["ops"]:
                # only the state projection is compared on ops outside the property's alphabet
                d = T.diff_op(io[k], mo[k], tuple(x for x in proj.get("keys", T.PROJ_ALL) if x in ("store", "cache")), None, proj.get("line"))
            else:
                d = T.diff_op(io[k], mo[k], proj.get("keys", T.PROJ_ALL), proj.get("frame"), proj.get("line"))
            if d:
                mism.append((sc, k, d))
                break
    searched = 0
    # a failing law that is a recorded known finding must not hide a correspondence mismatch
    known = set(f["key"] for f in ctx.load_findings() if f["property"] == ctx.pid)
    nfails_all = len(fails)
    fails = [f for f in fails if f[1] not in known]
    if mism and not fails:
        # failing-input search: shrink the disagreeing history, then mutate around it with the monitor as oracle
        sc, k, d = min(mism, key=lambda x: len(x[0].ops))
        base = sc.clone(sc.ops[:k + 1]) if k >= 0 else sc
        pool = []
        rng = ctx.rng
        for j in range(60 if quick else 600):
            ops = list(base.ops)
            c = base.clone(ops)
            c.id = "n%d" % j
            c.head = [re.sub(r"^scn \S+", "scn " + c.id, base.head[0])] + base.head[1:]
            extra = T.gen_ops(rng, T.gen_setup(rng, "x", "msg"), rng.choice(["msg", "perm"]), rng.randint(1, 6), 0.0).ops
            extra = [o for o in extra if not o[2] or o[2][0] in base.sessions]
            c.ops = ops + extra
            pool.append(c)
        if pool:
            rc2, im2, _ = T.run_impl(ctx, pool, tag="search")
            searched = len(pool)
            if rc2 == 0:
                for c in pool:
                    if c.id in im2 and len(im2[c.id]) == len(c.ops):
                        for law, kk, detail in mon(c, im2[c.id]):
                            if law in known:
                                continue
                            ctx.violation("monitor", law, "law %s fails on the implementation's trace: %s" % (law, detail),
                                          {"head": c.head, "ops": c.ops[:kk + 1], "law": law, "detail": detail,
                                           "found_by": "search near a correspondence mismatch"})
                            fails.append((c, law, kk, detail))
                            break
                    if fails:
                        break
        if not fails:
            ctx.violation("corr", "correspondence-" + (sc.ops[k][1] if k >= 0 else "shape"),
                          "model and implementation disagree on %d of %d scenarios on this property's projection; first (shrunk to the prefix): op %d %s: %s; no law failure found on %d neighbouring histories"
                          % (len(mism), len(scns), k, sc.ops[k] if k >= 0 else "", json.dumps(d, default=str)[:800], searched),
                          {"correspondence": "projection of %s" % ctx.pid, "head": base.head, "ops": base.ops, "diff": d})
    # coverage
    nt = set()
    kinds, codes, faults_seen = {}, {}, {}
    nops = 0
    for sc in scns:
        sig = []
        for k, o in enumerate(sc.ops):
            nops += 1
            kinds[o[1]] = kinds.get(o[1], 0) + 1
            if o[0] != "N":
                faults_seen[o[0]] = faults_seen.get(o[0], 0) + 1
            for sid, t in impl[sc.id][k]["frames"]:
                if t.startswith("ctrl "):
                    c = t.split()[1]
                    codes[c] = codes.get(c, 0) + 1
            sig.append((o, tuple(impl[sc.id][k]["frames"])))
        if (nontrivial or default_nontrivial)(sc, impl[sc.id]):
            nt.add(hash(tuple(map(repr, sig))))
    ctx.coverage.update({
        "evaluations": len(scns), "distinct_nontrivial": len(nt), "rule": rule,
        "operations_executed": nops,
        "samples": [{"head": sc.head, "ops": sc.ops, "impl_frames_last_op": impl[sc.id][-1]["frames"] if impl[sc.id] else []} for sc in scns[:2]],
        "traces_validated_against_impl": len(scns), "correspondence_mismatches": len(mism), "monitor_failures": nfails_all,
        "search_pool": searched,
        "input_distribution": {"op_kinds": kinds, "ctrl_codes": codes, "faults": faults_seen,
                               "users_per_scenario": sorted(set(sc.nusers for sc in scns)),
                               "ops_per_scenario_max": max(len(sc.ops) for sc in scns)},
        "impl_wall_s": round(t_impl, 1),
        **(extra_cov(scns, impl) if extra_cov else {}),
        "trusted_base": trusted + [
            "harness/overlay/server/zz_verif_topic_test.go: drives the real Hub/Topic/Session code through Session.dispatchRaw, quiescence by goroutine-state snapshot",
            "harness/overlay/server/db/memverif: in-memory adapter written from db/mysql/adapter.go (store contract modelled, not verified; the SQL engines are not run)",
            "tools/props/*.py monitors: python restatement of the property on the implementation's trace",
            "model scope: one group topic (non-channel), LevelAuth users, no attachments/calls/presence frames; see DESIGN.md 2.2"],
    })
    ctx.finish()


def default_nontrivial(sc, blocks):
    # at least one accepted mutating request
    for b in blocks:
        for sid, t in b["frames"]:
            if t.startswith("ctrl 202") or t.startswith("ctrl 200"):
                return True
    return False
