"""C03 write permission: theorems in coq/Props/PropC03.v; correspondence and monitor through the C03
driver (harness/overlay/server/zz_verif_c03x_test.go = the topic-history driver plus topic deletion in
two halves, user suspension, me/fnd/sys with subscribers, real peer-to-peer topics) and the extracted model
coq/Sys/TopicLife.v over Sys/Topic.v, wrapped once more by coq/Sys/TopicOffSetC03.v (s03c): the complete
not-attached {set} (desc.private + sub.mode in one request, ops osetx / p2posetx), root sessions acting on behalf of
another user (sess n u r, kind@obo) and the eviction of the sessions attached on behalf of a banned user."""
import json
import os
import re
import subprocess
import vlib
from props import statelib
from props import topiclib as T
from props.statelib import kvs, eff
from props import c03f

PUB_KINDS = ("pub", "pubme", "pubfnd", "pubsys", "p2ppub", "osetx", "p2posetx")


class OpSetC03(set):
    """op kinds of the compared frame projection; `kind@obo` (request with extra.obo) counts as `kind`"""
    def __contains__(self, k):
        return set.__contains__(self, str(k).split("@")[0])


def split_kind(kind):
    if "@" in kind:
        a, b = kind.split("@", 1)
        return a, b
    return kind, None


def roots_of(sc):
    return set(int(h.split()[1]) for h in sc.head if h.startswith("sess ") and len(h.split()) > 3 and h.split()[3] == "r")


def acting_user(sc, roots, sid, obo):
    """Session.dispatch: the user a request is executed as (msg.AsUser); None = refused by the dispatcher"""
    if obo is None:
        return sc.sessions.get(sid)
    if sid not in roots or obo in ("x", "0"):
        return None
    return int(obo)


def parse_mode(m):
    """types.ParseAcs on a non-empty string: set of letters, or None = error"""
    bits, unset = set(), True
    for ch in m:
        c = ch.upper()
        if c in "JRWPASDO" and ch in "JRWPASDOjrwpasdo":
            bits.add(c)
            unset = False
        elif ch in "Nn":
            if not unset:
                return None
            return set()
        else:
            return None
    return bits


def mode_text(bits):
    return "".join(c for c in "JRWPASDO" if c in bits) or "N"
# known findings (KNOWN_FINDINGS.txt, findings/C03.md): reported through ctx.violation with these keys
KNOWN = ("stale-cache-offline-setsub", "stale-cache-transfer-fault", "suspended-owner-accepted-after-reload",
         "suspended-party-accepted-after-reload", "suspended-party-accepted-after-peer-resumed")

# modes of the subscription rows of peer-to-peer topics (store.Topics.CreateP2P masks with ModeCP2P = JRWPA)
P2P_W_MODES = [31, 31, 31, 23, 29]     # JRWPA, JRWA, JWPA
P2P_NOW_MODES = [27, 19, 11]           # JRPA, JRA, JRP

W_MODES = ["JRWPS", "JRWPAS", "JRWP", "JRW", "JW", "JRWPASD", "JRWPSD"]
NOW_MODES = ["JRPS", "JRPAS", "JRP", "JR", "JP", "JRPASD", "N", "JPS"]
O_MODES = ["JRWPASDO", "JRPSO", "JRWPSO", "JRPASDO"]


def hx(s):
    return T.hx(s)


def unhex(h):
    return "" if h in ("-", "") else bytes.fromhex(h).decode("latin1")


# ---------------------------------------------------------------------------
# generators

def resub(rng, sc, ops, p=0.9):
    for s in sorted(sc.sessions):
        if rng.random() < p:
            ops.append(("N", "sub", [s, "-", 0]))


def rand_fault(rng, p, ks=(1, 1, 1, 2, 2, 3, 4), kinds=("F", "F", "C")):
    if rng.random() >= p:
        return "N"
    return rng.choice(kinds) + str(rng.choice(ks))


def sessions_of(sc, u):
    return [s for s in sorted(sc.sessions) if sc.sessions[s] == u]


def letters(n):
    return "".join(c for b, c in zip((1, 2, 4, 8, 16, 32, 64, 128), "JRWPASDO") if n & b)


def gen_permfault(rng, sc, nops):
    """A permission-changing request (fault on every adapter-call position of it, or none) followed by
    publishes of the user it is about and of somebody else.  The generator keeps an estimate of every
    user's stored want/given so that most requests really toggle W for an attached member."""
    sids = sorted(sc.sessions)
    users = list(range(1, sc.nusers + 1))
    # members: most want W; about half of them are not granted W
    head = [h for h in sc.head if not h.startswith("subrow ")]
    at = max(i for i, h in enumerate(head) if h.startswith("user ")) + 1
    rows = []
    for u in users[1:]:
        if len(rows) < 3 and rng.random() < 0.8:
            rows.append("subrow %d want=%d given=%d" % (u, rng.choice([47, 47, 47, 47, 63, 15, 7, 43, 3]),
                                                        rng.choice([47, 47, 47, 63, 43, 43, 43, 3, 3, 11, 59])))
    sc.head = head[:at] + rows + head[at:]
    want, given = {}, {}
    for h in sc.head:
        w = h.split()
        d = kvs(h)
        if w[0] == "scn":
            want[1], given[1] = letters(int(d["ownerwant"])), letters(int(d["ownergiven"]))
        elif w[0] == "subrow":
            want[int(w[1])], given[int(w[1])] = letters(int(d["want"])), letters(int(d["given"]))

    def toggle(cur):
        if rng.random() < 0.2:
            return rng.choice(W_MODES + NOW_MODES + [""])
        return rng.choice(NOW_MODES[:6]) if "W" in cur else rng.choice(W_MODES)

    ops = []
    resub(rng, sc, ops, 0.95)
    cnt = 100
    for _ in range(nops):
        r = rng.random()
        members = [u for u in users if u in given]

        def fault_for(ncalls):
            # Fail k / Crash k at every adapter-call position of the request (and sometimes one past the last)
            return rand_fault(rng, 0.6, ks=tuple(range(1, ncalls + 1)) * 3 + (ncalls + 1,), kinds=("F", "F", "F", "C"))
        if r < 0.42:      # approver changes somebody else's given
            actor = rng.choice(sessions_of(sc, 1) * 4 + sids)
            cand = [u for u in members if u != sc.sessions[actor]] or [u for u in users if u != sc.sessions[actor]] or users
            tgt = rng.choice(cand * 3 + users)
            m = toggle(given.get(tgt, ""))
            flt = fault_for(1 if tgt in given else 3)    # Subs.Update | Subs.Get, Users.Get, Subs.Create
            ops.append((flt, "setsub", [actor, tgt, hx(m)]))
            if flt == "N" and sc.sessions[actor] == 1 and tgt in given and m:
                given[tgt] = m
        elif r < 0.64:    # own want
            actor = rng.choice(sids)
            tgt = sc.sessions[actor]
            m = toggle(want.get(tgt, "")) if rng.random() < 0.85 else rng.choice(O_MODES)
            if tgt == 1 and "O" not in m:
                m += "O"
            flt = fault_for(3 if "O" in m and tgt != 1 else 1)   # Subs.Update (+ previous owner, Topics.OwnerChange)
            ops.append((flt, "setsub", [actor, rng.choice([0, tgt]), hx(m)]))
            if flt == "N" and tgt in want:
                want[tgt] = m
        elif r < 0.75:    # {sub} with a mode (from a session that may or may not be attached)
            actor = rng.choice(sids)
            tgt = sc.sessions[actor]
            if rng.random() < 0.6:
                ops.append(("N", "leave", [actor, 0]))
            m = rng.choice(W_MODES + NOW_MODES + O_MODES[:2] + ["", ""])
            flt = fault_for(rng.choice([1, 2, 2, 4]))            # (Topics.Get, GetSubs,) Subs.Get, Subs.Create | Subs.Update
            ops.append((flt, "sub", [actor, hx(m), 0]))
        elif r < 0.84:    # {leave unsub}
            actor = rng.choice(sids)
            tgt = sc.sessions[actor]
            flt = fault_for(1)                                   # Subs.Delete
            ops.append((flt, "leave", [actor, 1]))
            if flt == "N" and tgt != 1:
                want.pop(tgt, None)
                given.pop(tgt, None)
        elif r < 0.93:    # {del sub}
            actor = rng.choice(sessions_of(sc, 1) * 3 + sids)
            tgt = rng.choice(members + users)
            flt = fault_for(1)                                   # Subs.Delete
            ops.append((flt, "delsub", [actor, tgt]))
            if flt == "N" and sc.sessions[actor] == 1 and tgt != 1:
                want.pop(tgt, None)
                given.pop(tgt, None)
        else:
            tgt = rng.choice(users)
            kd = rng.choice(["unload", "getsub", "getdesc"])
            flt = "N"
            ops.append(("N", kd, [] if kd == "unload" else [rng.choice(sids)]))
        if flt[0] == "C":
            resub(rng, sc, ops, 0.95)
        elif rng.random() < 0.2:
            resub(rng, sc, ops, 0.5)
        pubbers = sessions_of(sc, tgt) + [rng.choice(sids)]
        for s in pubbers:
            cnt += 1
            ops.append(("N" if rng.random() < 0.92 else rand_fault(rng, 1.0), "pub", [s, cnt, 0]))
    sc.ops = ops
    return sc


def p2p_rows(sc):
    """k -> (a, b, {a: (want, given), b: (want, given)}) from the head lines of a scenario"""
    res = {}
    for h in sc.head:
        w = h.split()
        if w and w[0] == "p2prow":
            d = kvs(h)
            a, b = int(w[2]), int(w[3])
            res[int(w[1])] = (a, b, {a: (letters(int(d["wa"])), letters(int(d["ga"]))), b: (letters(int(d["wb"])), letters(int(d["gb"])))})
    return res


def gen_population(rng, sc):
    """The accounts that get suspended are, at once, a plain member of the group topic, a party of peer-to-peer
    topics and a subscriber of 'sys'; other accounts are the owner, parties of other p2p topics, subscribers of
    'sys' that are never suspended, or nothing at all."""
    users = list(range(1, sc.nusers + 1))
    v = rng.choice(users[1:])                      # the main candidate: not the owner
    head = [h for h in sc.head if not h.startswith("sess ")]
    sess = [h for h in sc.head if h.startswith("sess ")]
    if not any(h.startswith("subrow %d " % v) for h in head) and rng.random() < 0.8:
        head.append("subrow %d want=%d given=%d" % (v, rng.choice([47, 47, 63, 43]), rng.choice([47, 47, 63, 43])))
    for u in users:
        if (u == v and rng.random() < 0.7) or (u != v and rng.random() < 0.2):
            head.append("sysrow %d" % u)

    def mode():
        return rng.choice(P2P_W_MODES * 3 + P2P_NOW_MODES)
    pairs = []
    w = rng.choice([u for u in users if u != v])
    pairs.append((min(v, w), max(v, w)))
    if sc.nusers >= 3 and rng.random() < 0.7:
        # a second topic: the owner with somebody, or two accounts other than v
        a = rng.choice(users)
        b = rng.choice([u for u in users if u != a])
        if (min(a, b), max(a, b)) not in pairs:
            pairs.append((min(a, b), max(a, b)))
    for k, (a, b) in enumerate(pairs):
        head.append("p2prow %d %d %d wa=%d ga=%d wb=%d gb=%d" % (k + 1, a, b, mode(), mode(), mode(), mode()))
    sc.head = head + sess
    return v, pairs


def gen_life(rng, sc, nops):
    """Topic states in which nobody may publish (delete in flight, owner / party suspended), every topic kind."""
    v, pairs = gen_population(rng, sc)
    sids = sorted(sc.sessions)
    users = list(range(1, sc.nusers + 1))
    owner_s = sessions_of(sc, 1)
    ops = []
    resub(rng, sc, ops, 0.85)
    cnt = [200]

    def party_sessions(k):
        a, b = pairs[k - 1]
        return sessions_of(sc, a) + sessions_of(sc, b)

    def p2psubs(p=0.8):
        for k in range(1, len(pairs) + 1):
            for s in party_sessions(k):
                if rng.random() < p:
                    ops.append(("N", "p2psub", [s, k]))

    def pubs(n, fault_p=0.0):
        for _ in range(n):
            cnt[0] += 1
            ops.append((rand_fault(rng, fault_p), "pub", [rng.choice(sids), cnt[0], 1 if rng.random() < 0.15 else 0]))

    def p2ppubs(n, fault_p=0.0):
        for _ in range(n):
            cnt[0] += 1
            k = rng.randint(1, len(pairs))
            s = rng.choice(party_sessions(k) * 4 + sids)
            ops.append((rand_fault(rng, fault_p, ks=(1, 2, 2, 3)), "p2ppub", [s, k, cnt[0], 1 if rng.random() < 0.15 else 0]))
            if ops[-1][0][0] == "C":
                resub(rng, sc, ops, 0.8)
                p2psubs(0.8)

    def syspubs(n, fault_p=0.0):
        for _ in range(n):
            cnt[0] += 1
            ops.append((rand_fault(rng, fault_p, ks=(1, 2, 2, 3)), "pubsys", [rng.choice(sids), cnt[0]]))
            if ops[-1][0][0] == "C":
                resub(rng, sc, ops, 0.8)
                p2psubs(0.8)

    def everywhere():
        # the same moment seen from every topic kind
        pubs(rng.randint(1, 2), 0.1)
        p2ppubs(rng.randint(1, 3), 0.05)
        syspubs(rng.randint(1, 2), 0.05)

    p2psubs(0.85)
    pubs(rng.randint(0, 2))
    p2ppubs(rng.randint(0, 2))
    for _ in range(nops):
        r = rng.random()
        if r < 0.22:
            # the owner deletes the topic; publishes while the hub is inside store.Topics.Delete
            ops.append((rng.choice(["N", "N", "N", "F1", "F1", "C1", "F2"]), "delbegin", [rng.choice(owner_s if rng.random() < 0.9 else sids)]))
            for _ in range(rng.randint(1, 3)):
                cnt[0] += 1
                ops.append(("N", "pub", [rng.choice(sids), cnt[0], 1 if rng.random() < 0.15 else 0]))
            if rng.random() < 0.6:
                ops.append(("N", "delend", []))
            pubs(rng.randint(1, 2))
            if rng.random() < 0.5:
                resub(rng, sc, ops, 0.7)
                p2psubs(0.5)
                pubs(1)
        elif r < 0.66:
            # suspension of the owner / of the member-party-subscriber / of anybody
            t0 = rng.random()
            u = 1 if t0 < 0.35 else (v if t0 < 0.75 else rng.choice(users))
            ops.append((rand_fault(rng, 0.25, ks=(1, 2, 2, 3)), "suspend", [u, 1 if rng.random() < 0.8 else 0]))
            if ops[-1][0][0] == "C":
                resub(rng, sc, ops, 0.9)
                p2psubs(0.9)
            everywhere()
            t = rng.random()
            if t < 0.3:
                ops.append((rand_fault(rng, 0.2, ks=(1, 2)), "suspend", [u, 0]))
                if ops[-1][0][0] == "C":
                    resub(rng, sc, ops, 0.9)
                    p2psubs(0.9)
                everywhere()
            elif t < 0.5:
                # the read-only bit does not survive a reload (known findings)
                if rng.random() < 0.6:
                    ops.append(("N", "restart", []))
                else:
                    ops.append(("N", "unload", []))
                    k = rng.randint(1, len(pairs))
                    for s in party_sessions(k):
                        ops.append(("N", "p2pleave", [s, k]))
                    ops.append(("N", "p2punload", [k]))
                resub(rng, sc, ops, 0.9)
                p2psubs(0.9)
                everywhere()
            elif t < 0.7:
                # both parties suspended, one resumed (known finding: the topic becomes writable)
                k = rng.randint(1, len(pairs))
                a, b = pairs[k - 1]
                ops.append(("N", "suspend", [a, 1]))
                ops.append(("N", "suspend", [b, 1]))
                p2ppubs(1)
                ops.append(("N", "suspend", [rng.choice([a, b]), 0]))
                everywhere()
            elif t < 0.85:
                s = rng.choice(sids)
                ops.append(("N", "setsub", [s, rng.choice(users), hx(rng.choice(W_MODES + NOW_MODES))]))
                ops.append(("N", "note", [rng.choice(sids), "kp", 0]))
                pubs(1)
        elif r < 0.85:
            for _ in range(rng.randint(1, 3)):
                k = rng.random()
                s = rng.choice(sids)
                cnt[0] += 1
                if k < 0.25:
                    which = rng.choice(["me", "fnd"])
                    ops.append(("N", "sub" + which, [s]))
                    ops.append(("N", "pub" + which, [s, cnt[0]]))      # attached: refused for want of W (ModeCSelf)
                elif k < 0.45:
                    ops.append(("N", rng.choice(["pubme", "pubfnd"]), [s, cnt[0]]))
                elif k < 0.7:
                    syspubs(1, 0.3)
                else:
                    p2ppubs(1, 0.3)
        else:
            k = rng.random()
            if k < 0.3:
                ops.append(("N", "setsub", [rng.choice(sids), rng.choice([0] + users), hx(rng.choice(W_MODES + NOW_MODES))]))
            elif k < 0.45:
                ops.append(("N", "leave", [rng.choice(sids), 0]))
            elif k < 0.6:
                ops.append(("N", "sub", [rng.choice(sids), "-", 0]))
            elif k < 0.8:
                kk = rng.randint(1, len(pairs))
                ops.append(("N", rng.choice(["p2pleave", "p2psub", "p2psub"]), [rng.choice(party_sessions(kk) * 3 + sids), kk]))
                if rng.random() < 0.3:
                    ops.append(("N", "p2punload", [kk]))
            else:
                ops.append(("N", rng.choice(["unload", "restart"]), []))
                if ops[-1][1] == "restart":
                    p2psubs(0.6)
            pubs(1)
            p2ppubs(1)
    sc.ops = ops
    return sc


PRIVS = ["-", "-", "L7", "M1:5", "M1:5,2:6", "M1:d", "M2:d,1:9", "M3:n", "M", "L0", "M1:7,3:n"]
JUNK_MODES_C03 = ["+W", "JX", "JN", "J R", "?"]


def gen_offset(rng, sc, nops):
    """{set} from sessions that are NOT attached, carrying every combination of desc.private (absent / not a map /
    map that changes something / map that changes nothing) and sub.mode (absent / valid without W / valid with W /
    junk / O-bit mismatch), with Fail/Crash on both store calls, to the group topic and to a peer-to-peer topic;
    then the topic is (re)loaded or not, the user attaches and publishes."""
    users = list(range(1, sc.nusers + 1))
    head = [h for h in sc.head if not h.startswith("subrow ") and not h.startswith("sess ")]
    sess = [h for h in sc.head if h.startswith("sess ")]
    members = []
    for u in users[1:]:
        if len(members) < 3 and rng.random() < 0.85:
            members.append(u)
            head.append("subrow %d want=%d given=%d" % (u, rng.choice([47, 47, 47, 63, 15, 11, 43, 3, 175 - 128]),
                                                        rng.choice([47, 47, 47, 63, 43, 3, 127, 175])))
    a = rng.choice(members or [1])
    b = rng.choice([u for u in users if u != a])
    pa, pb = min(a, b), max(a, b)
    head.append("p2prow 1 %d %d wa=%d ga=%d wb=%d gb=%d" % (pa, pb, rng.choice([31, 31, 27, 23]), rng.choice([31, 31, 27]),
                                                            rng.choice([31, 31, 27, 19]), rng.choice([31, 31, 27])))
    sc.head = head + sess
    sids = sorted(sc.sessions)
    ops = []
    maybe = set()       # sessions that may be attached to the group topic
    pmaybe = set()      # sessions that may be attached to the p2p topic
    cnt = [300]

    def detached(u):
        cand = [s for s in sessions_of(sc, u) if s not in maybe]
        if cand:
            return rng.choice(cand)
        s = rng.choice(sessions_of(sc, u))
        ops.append(("N", "leave", [s, 0]))
        maybe.discard(s)
        return s

    def crashed():
        maybe.clear()
        pmaybe.clear()

    # some sessions attach first (the topic is loaded: the not-attached {set} leaves its cache stale - known finding)
    if rng.random() < 0.5:
        for s in sids:
            if rng.random() < 0.5:
                ops.append(("N", "sub", [s, "-", 0]))
                maybe.add(s)
    for _ in range(nops):
        r = rng.random()
        u = rng.choice((members or [1]) * 4 + users)
        mk = rng.random()
        if mk < 0.12:
            m = ""
        elif mk < 0.50:
            m = rng.choice(NOW_MODES)
        elif mk < 0.78:
            m = rng.choice(W_MODES)
        elif mk < 0.88:
            m = rng.choice(JUNK_MODES_C03)
        else:
            m = rng.choice(O_MODES)
        if u == 1 and m and rng.random() < 0.8 and "O" not in m and parse_mode(m) is not None and m != "N":
            m += "O"
        priv = rng.choice(PRIVS)
        flt = rand_fault(rng, 0.22, ks=(1, 2, 2, 3), kinds=("F", "F", "C"))
        if r < 0.22 and u in (pa, pb):
            cand = [s for s in sessions_of(sc, u) if s not in pmaybe]
            if cand:
                s = rng.choice(cand)
                ops.append((flt, "p2posetx", [s, 1, hx(m), priv]))
                if flt[0] == "C":
                    crashed()
                for s2 in sessions_of(sc, u)[:1]:
                    ops.append(("N", "p2psub", [s2, 1]))
                    pmaybe.add(s2)
                    cnt[0] += 1
                    ops.append(("N", "p2ppub", [s2, 1, cnt[0], 0]))
                    if rng.random() < 0.6:
                        ops.append(("N", "p2pleave", [s2, 1]))
                        pmaybe.discard(s2)
                        ops.append(("N", "p2punload", [1]))
                continue
        s = detached(u)
        tgt = 0 if rng.random() < 0.8 else rng.choice([u, u, rng.choice(users)])
        ops.append((flt, "osetx", [s, tgt, hx(m), priv]))
        if flt[0] == "C":
            crashed()
        t = rng.random()
        if t < 0.45:
            ops.append(("N", "restart", []))
            crashed()
        elif t < 0.65:
            for s2 in sorted(maybe):
                ops.append(("N", "leave", [s2, 0]))
            maybe.clear()
            ops.append(("N", "unload", []))
        for s2 in sessions_of(sc, u):
            if rng.random() < 0.8:
                ops.append(("N", "sub", [s2, "-", 0]))
                maybe.add(s2)
                cnt[0] += 1
                ops.append(("N" if rng.random() < 0.9 else rand_fault(rng, 1.0), "pub", [s2, cnt[0], 0]))
                if ops[-1][0][0] == "C":
                    crashed()
        if rng.random() < 0.3:
            s3 = rng.choice(sids)
            cnt[0] += 1
            ops.append(("N", "pub", [s3, cnt[0], 0]))
    sc.ops = ops
    return sc


BAN_MODES = ["RWP", "RWPS", "RW", "RWPAS", "N", "RP", "WP"]      # given without J (most keep W)


def gen_obo(rng, sc, nops):
    """ROOT sessions attached to the group topic ON BEHALF of a member (extra.obo) and publishing on behalf of
    members, strangers, write-less and banned users; the acted-for user is then banned (given loses J, mostly
    keeping W), removed ({del sub}), unsubscribes, bans himself (want loses J) or loses W; publishes again."""
    users = list(range(1, sc.nusers + 1))
    head = [h for h in sc.head if not h.startswith("subrow ") and not h.startswith("sess ")]
    members = []
    for u in users[1:]:
        if len(members) < 3 and (not members or rng.random() < 0.8):
            members.append(u)
            head.append("subrow %d want=%d given=%d" % (u, rng.choice([47, 47, 47, 63, 15, 11]), rng.choice([47, 47, 47, 63, 43])))
    if not members:
        members = [1]
    sc.sessions = {}
    s = 0
    sess = []
    for u in users:
        for _ in range(rng.choice([1, 1, 2])):
            s += 1
            sc.sessions[s] = u
            sess.append("sess %d %d" % (s, u))
    roots = []
    for _ in range(rng.choice([1, 1, 2])):
        s += 1
        ru = rng.choice([1, users[-1], rng.choice(users)])
        sc.sessions[s] = ru
        roots.append(s)
        sess.append("sess %d %d r" % (s, ru))
    sc.head = head + sess
    plain = [x for x in sorted(sc.sessions) if x not in roots]
    owner_s = [x for x in plain if sc.sessions[x] == 1]
    ops = []
    ras = {}           # root session -> user it is believed attached as
    cnt = [400]

    def root_attach(r, u):
        if r in ras:
            ops.append(("N", "leave@%d" % ras[r], [r, 0]))
            del ras[r]
        ops.append(("N", "sub@%d" % u, [r, "-", 0]))
        ras[r] = u

    def pub(x, obo=None):
        cnt[0] += 1
        ops.append(("N", "pub" if obo is None else "pub@%s" % obo, [x, cnt[0], 1 if rng.random() < 0.1 else 0]))

    def everybody():
        for x in plain:
            if rng.random() < 0.85:
                ops.append(("N", "sub", [x, "-", 0]))
        for r in roots:
            root_attach(r, rng.choice(members * 3 + users))

    everybody()
    for _ in range(nops):
        r = rng.choice(roots)
        v = ras.get(r) if rng.random() < 0.8 and ras.get(r) is not None else rng.choice(members)
        pub(r, v)
        t = rng.random()
        flt = "N" if rng.random() < 0.85 else rng.choice(["F1", "F1", "C1", "F2"])
        if t < 0.40:
            # the owner bans v: the granted mode loses J (and mostly keeps W)
            ops.append((flt, "setsub", [rng.choice(owner_s * 4 + plain), v, hx(rng.choice(BAN_MODES))]))
        elif t < 0.52:
            ops.append((flt, "delsub", [rng.choice(owner_s * 4 + plain), v]))
        elif t < 0.62:
            own = sessions_of(sc, v)
            own = [x for x in own if x not in roots]
            if own and v != 1:
                ops.append((flt, "leave", [rng.choice(own), 1]))
            else:
                ops.append((flt, "delsub", [rng.choice(owner_s or plain), v]))
        elif t < 0.74:
            own = [x for x in sessions_of(sc, v) if x not in roots]
            if own and v != 1:
                ops.append((flt, "setsub", [rng.choice(own), 0, hx(rng.choice(["RWP", "RWPS", "N", "JRP"]))]))
            else:
                ops.append((flt, "setsub", [rng.choice(owner_s or plain), v, hx("JRP")]))
        elif t < 0.84:
            # W taken away, J kept
            ops.append((flt, "setsub", [rng.choice(owner_s * 4 + plain), v, hx(rng.choice(["JRP", "JRPS", "JR"]))]))
        elif t < 0.90:
            # an ordinary session naming a user: refused by the dispatcher
            pub(rng.choice(plain), rng.choice(users))
            pub(r, rng.choice(["x", "0"]))
        elif t < 0.95:
            ops.append(("N", "restart", []))
            ras.clear()
            everybody()
        else:
            root_attach(r, rng.choice(members + users))
        if flt[0] == "C":
            ras.clear()
            everybody()
        # afterwards: on behalf of the same user through every root session, his own sessions, somebody else
        for r2 in roots:
            pub(r2, v)
        for x in sessions_of(sc, v):
            if x not in roots and rng.random() < 0.7:
                pub(x)
        if rng.random() < 0.5:
            pub(rng.choice(roots), rng.choice(users))
        if rng.random() < 0.3:
            pub(rng.choice(roots))
        if rng.random() < 0.35:
            # the owner lets him back in; the root session comes back on his behalf
            ops.append(("N", "setsub", [rng.choice(owner_s or plain), v, hx(rng.choice(["JRWPS", "JRWP"]))]))
            for x in sessions_of(sc, v):
                if x not in roots:
                    ops.append(("N", "sub", [x, hx("JRWPS") if rng.random() < 0.5 else "-", 0]))
            root_attach(rng.choice(roots), v)
    sc.ops = ops
    return sc


_orig_gen_scenarios = T.gen_scenarios


def gen_scenarios(ctx, count, profile, faults=0.0, nops=(6, 22), prefix="g"):
    if profile in ("msg", "perm"):
        return _orig_gen_scenarios(ctx, count, profile, faults, nops, prefix)
    res = []
    for i in range(count):
        sc = T.gen_setup(ctx.rng, "%s%d" % (prefix, i), "msg" if profile == "life" else "perm")
        if profile == "permfault":
            gen_permfault(ctx.rng, sc, ctx.rng.randint(2, 6))
        elif profile == "offset":
            gen_offset(ctx.rng, sc, ctx.rng.randint(2, 5))
        elif profile == "obo":
            gen_obo(ctx.rng, sc, ctx.rng.randint(2, 4))
        else:
            gen_life(ctx.rng, sc, ctx.rng.randint(2, 5))
        res.append(sc)
    return res


# ---------------------------------------------------------------------------
# running the C03 driver / the C03 model runner (same block format as the topic driver)

def run_impl(ctx, scns, tag="t"):
    fin = os.path.join(ctx.work, "scn_%s.in" % tag)
    fout = os.path.join(ctx.work, "scn_%s.impl" % tag)
    with open(fin, "w") as f:
        for sc in scns:
            f.write("\n".join(sc.lines()) + "\n")
    if os.path.exists(fout):
        os.remove(fout)
    env = dict(vlib.GOENV, VERIF_IN=fin, VERIF_OUT=fout)
    p = subprocess.run([os.path.join(vlib.BUILD, "maindrv.test"), "-test.run", "^TestVerifC03x$", "-test.count=1", "-test.timeout=3000s"],
                       stdout=subprocess.PIPE, stderr=subprocess.STDOUT, env=env, cwd=os.path.join(vlib.REPO, "server"), timeout=3400)
    out = p.stdout.decode("utf8", "replace")
    lines = open(fout).read().split("\n") if os.path.exists(fout) else []
    log = "\n".join(l for l in out.split("\n") if not (len(l) > 3 and l[0] in "IWE" and l[1:3] == "20"))
    return p.returncode, T.parse_blocks(lines), log


def run_model(ctx, scns, tag="t"):
    lines = []
    for sc in scns:
        lines += sc.lines()
    rc, out, err = ctx.run_model("c03x", lines)
    flat = []
    for o in out:
        flat += o.split("\n")
    return rc, T.parse_blocks(flat), err


# ---------------------------------------------------------------------------
# the property on the implementation's trace

class X:
    """the extra lines of a block: status bits, suspended users, me/fnd attachments, sys"""
    def __init__(self, v):
        self.paused = self.ro = self.window = False
        self.susp, self.me, self.fnd = set(), set(), set()
        self.sys_seqid = self.sys_lastid = 0
        self.sysmsgs = {}
        self.sysro = False
        self.syssubs, self.mefndro = set(), set()
        self.p2p = {}       # k -> dict(loaded, ro, seqid, lastid, users {u: (want, given)}, sess set, msgs {seq: (from, content)})
        self.priv = {}      # user -> stored Private of his row on the group topic (canonical text)
        self.p2prows = {}   # k -> {user: (want, given, private, deleted)}: the STORED rows of the k-th p2p topic
        for l in v.b["store"]:
            w = l.split()
            if w[0] == "priv":
                self.priv[int(w[1])] = w[2]
            elif w[0] == "p2prows":
                rows = {}
                for e in (w[2].split(",") if len(w) > 2 else []):
                    f = e.split(":", 2)
                    m = f[1].split("/")
                    pv = f[2] if len(f) > 2 else ""
                    dele = pv.endswith(":deleted")
                    rows[int(f[0])] = (m[0], m[1], pv[:-8] if dele else pv, dele)
                self.p2prows[int(w[1])] = rows
            elif w[0] == "xstatus":
                d = kvs(l)
                self.paused, self.ro, self.window = d["paused"] == "1", d["ro"] == "1", d.get("window") == "1"
            elif w[0] in ("susp", "me", "fnd"):
                setattr(self, w[0], set(int(x) for x in (w[1].split(",") if len(w) > 1 else []) if x))
            elif w[0] == "sys":
                d = kvs(l)
                self.sys_seqid, self.sys_lastid = int(d["seqid"]), int(d["lastid"])
            elif w[0] == "sysmsg":
                d = kvs(l)
                self.sysmsgs[int(w[1])] = (int(d["from"]), d["content"])
            elif w[0] == "sysro":
                self.sysro = w[1] == "1"
            elif w[0] == "syssubs":
                self.syssubs = set(int(x) for x in (w[1].split(",") if len(w) > 1 else []) if x)
            elif w[0] == "mefndro":
                self.mefndro = set(x for x in (w[1].split(",") if len(w) > 1 else []) if x)
            elif w[0] == "p2p":
                d = kvs(l)
                users = {}
                if d["users"] not in ("-", ""):
                    for e in d["users"].split(","):
                        u, m = e.split(":")
                        users[int(u)] = tuple(m.split("/"))
                msgs = {}
                for e in (d["msgs"].split(",") if d.get("msgs") else []):
                    q, fr, c = e.split(":")
                    msgs[int(q)] = (int(fr), c)
                self.p2p[int(w[1])] = dict(loaded=d["loaded"] == "1", ro=d["ro"] == "1", seqid=int(d["seqid"]), lastid=int(d["lastid"]),
                                           users=users, sess=set(int(x) for x in d.get("sess", "").split(",") if x), msgs=msgs)


def modes(row):
    return None if row is None or row.get("deleted") else (row["want"], row["given"])


def monitor(sc, views, known_hit=None):
    res = []
    if not sc.sessions:
        # corpus / replay scenarios carry only the head lines
        sc.sessions = {int(h.split()[1]): int(h.split()[2]) for h in sc.head if h.startswith("sess ")}
        sc.nusers = len([h for h in sc.head if h.startswith("user ")])
    prev = px = None
    div = {}            # user -> name of the known stale-cache trigger that hit him since the topic was loaded
    ro_lost = False     # the owner is suspended and the topic was (re)loaded since: the read-only bit is gone (known finding)
    rows = p2p_rows(sc)
    roots = roots_of(sc)
    pdiv = {}           # p2p topic -> {user: name of the known stale-cache trigger that hit him since THIS topic instance was loaded}
    p_lost = {}         # p2p topic -> why it is writable although a party is suspended ("reload" | "peer"): known findings
    win_fault = "N"     # fault plan of the held {del topic}: a request other than {pub} to the group topic first lets it finish
    for k, v in enumerate(views):
        fault, kind0, args = sc.ops[k]
        kind, obo = split_kind(kind0)
        x = X(v)
        sid = args[0] if args and kind not in ("suspend", "p2punload") else None
        # the user the request is executed as (msg.AsUser): the session's own user, or - for a root session - the
        # user named by extra.obo; None = the dispatcher refuses the request (403 / 400)
        actor = acting_user(sc, roots, sid, obo) if sid is not None else None
        mine = [t for s, t in v.frames if s == sid and t.startswith("ctrl ")] if sid is not None else []
        acked = bool(mine) and mine[0].startswith("ctrl 202")
        if kind == "delbegin":
            win_fault = fault
        # the held delete finishes first, and its plan is a crash: the request is served by a restarted process
        crashed_first = px is not None and px.window and kind not in ("pub", "delend") and win_fault[0] == "C"

        def known(law, detail):
            if known_hit is not None:
                known_hit(law, sc, k, detail)

        def rejected_clean(what):
            if not mine:
                res.append(("rejected-gets-error-reply", k, "%s got no reply" % what))
            elif int(mine[0].split()[1]) < 400:
                res.append(("rejected-gets-error-reply", k, "rejected %s answered %s" % (what, mine[0])))
            others = [(s, t) for s, t in v.frames if not (s == sid and t.startswith("ctrl "))]
            if others or v.pres:
                res.append(("rejected-no-effect", k, "rejected %s produced frames %s %s" % (what, others, v.pres)))
            # (a request other than {pub} to the group topic first lets a held delete finish: what that changes is not
            # an effect of this request)
            if fault == "N" and not (px.window and kind != "pub"):
                if v.b["store"] != prev.b["store"]:
                    res.append(("rejected-no-effect", k, "rejected %s changed the store: %s" %
                                (what, [l for l in v.b["store"] if l not in prev.b["store"]])))
                if v.loaded and prev.loaded and v.cache.get("lastid") != prev.cache.get("lastid"):
                    res.append(("rejected-no-effect", k, "rejected %s consumed a number" % what))

        if prev is not None and kind == "pub":
            row = prev.subs.get(actor)
            crow = prev.cusers.get(actor) if prev.loaded else None
            attached = prev.loaded and sid in prev.csess
            writer = modes(row) is not None and "W" in eff(row["want"], row["given"])
            # "being deleted" = the owner's {del topic} has reached store.Topics.Delete and has not returned (a fact
            # of the driver, not the topic's own status bit); "suspended" = the read-only bit, which is checked
            # against the suspension itself by the law read-only-follows-suspension
            state_ok = not px.window and not px.ro
            expect = attached and writer and state_ok
            stale = None
            if actor in div and prev.loaded and modes(row) != ((crow["want"], crow["given"]) if crow else None):
                stale = div[actor]
            desc = "session %d (%s, acting as user %s): attached=%s as user %s, stored mode %s cached mode %s delete-in-flight=%s paused=%s read-only=%s" % (
                sid, ("root session of user %s" if sid in roots else "own session of user %s") % sc.sessions.get(sid), actor, attached,
                prev.csess.get(sid) if prev.loaded else None, "/".join(modes(row)) if modes(row) else None,
                (crow["want"] + "/" + crow["given"]) if crow else None, px.window, px.paused, px.ro)
            if acked and px.window:
                res.append(("publish-accepted-while-being-deleted", k, "publish accepted while the topic is being deleted; " + desc))
            elif acked and px.ro:
                res.append(("publish-accepted-while-suspended", k, "publish accepted by a suspended (read-only) topic; " + desc))
            elif acked and not (attached and writer):
                if stale:
                    known("stale-cache-" + stale, "publish accepted on the cached mode; " + desc)
                else:
                    res.append(("publish-accepted-without-write", k, "publish accepted; " + desc))
            elif expect and not acked and fault == "N":
                if stale:
                    known("stale-cache-" + stale, "publish refused on the cached mode; " + desc)
                else:
                    res.append(("publish-by-writer-rejected", k, "publish by an attached writer answered %s; %s" % (mine, desc)))
            if acked and state_ok and attached and prev.cache.get("owner") in px.susp and ro_lost:
                known("suspended-owner-accepted-after-reload",
                      "publish accepted although the owner (user %s) is suspended: the topic was loaded after the suspension; %s"
                      % (prev.cache.get("owner"), desc))
            if not acked:
                rejected_clean("publish")
            elif fault == "N":
                n = int(kvs(mine[0]).get("seq", "-1"))
                m = v.msgs.get(n)
                if m is None or m["content"] != str(args[1]) or m["frm"] != actor:
                    res.append(("accepted-stored", k, "accepted message (%s) not stored as published: %s" % (mine[0], m)))
        elif prev is not None and kind == "p2ppub" and args[1] in rows and args[1] in px.p2p and actor in rows[args[1]][2]:
            # a publish to a peer-to-peer topic by one of its parties (for anybody else the name means another topic)
            kk = args[1]
            p, q = px.p2p[kk], x.p2p[kk]
            want, given = rows[kk][2][actor]
            if kk in px.p2prows and actor in px.p2prows[kk]:
                want, given = px.p2prows[kk][actor][:2]       # the STORED row (a not-attached {set} may have changed it)
            if crashed_first:
                p = dict(p, loaded=False, ro=False, sess=set(), users={}, lastid=p["seqid"])
            attached = p["loaded"] and sid in p["sess"]
            writer = "W" in eff(want, given)
            expect = attached and writer and not p["ro"]
            # the known trigger on THIS topic instance: an acknowledged not-attached {set sub} of this user changed his
            # stored row while the p2p topic was loaded, the topic has not been reloaded since, and his cached mode
            # still differs from the stored one
            pstale = None
            if not crashed_first and p["loaded"] and actor in pdiv.get(kk, {}) and tuple(p["users"].get(actor, ("-", "-"))) != (want, given):
                pstale = pdiv[kk][actor]
            desc = "session %d (user %s) to p2p topic %d of users %s: attached=%s stored mode %s/%s cached mode %s read-only=%s suspended accounts %s" % (
                sid, actor, kk, rows[kk][:2], attached, want, given, "/".join(p["users"].get(actor, ("-", "-"))), p["ro"], sorted(px.susp))
            if acked and p["ro"]:
                res.append(("publish-accepted-while-suspended", k, "publish accepted by a suspended (read-only) p2p topic; " + desc))
            elif acked and not (attached and writer):
                if pstale and attached:
                    known("stale-cache-" + pstale, "publish to a p2p topic accepted on the cached mode; " + desc)
                else:
                    res.append(("publish-accepted-without-write", k, "publish accepted; " + desc))
            elif expect and not acked and fault == "N":
                if pstale:
                    known("stale-cache-" + pstale, "publish to a p2p topic refused on the cached mode; " + desc)
                else:
                    res.append(("publish-by-writer-rejected", k, "publish by an attached writer answered %s; %s" % (mine, desc)))
            if acked and p_lost.get(kk):
                known("suspended-party-accepted-after-" + ("reload" if p_lost[kk] == "reload" else "peer-resumed"),
                      "publish accepted although a party is suspended (%s); %s" % (
                          "the topic was loaded after the suspension" if p_lost[kk] == "reload" else
                          "the resumption of the other party cleared the read-only bit", desc))
            if not acked:
                rejected_clean("publish to a p2p topic")
            elif fault == "N":
                n = int(kvs(mine[0]).get("seq", "-1"))
                if n != p["lastid"] + 1 or q["msgs"].get(n) != (actor, str(args[2])):
                    res.append(("accepted-stored", k, "accepted message (%s) to p2p topic %d not stored as published with the next number: %s, previous lastID %d"
                                % (mine[0], kk, q["msgs"].get(n), p["lastid"])))
        elif prev is not None and kind in ("pubme", "pubfnd"):
            if acked:
                res.append(("publish-to-self-or-search-topic-accepted", k, "%s by session %d answered %s" % (kind, sid, mine[0])))
            else:
                rejected_clean("publish to " + kind[3:])
        elif prev is not None and kind == "pubsys":
            if acked:
                n = int(kvs(mine[0]).get("seq", "-1"))
                if n != (px.sys_seqid if crashed_first else px.sys_lastid) + 1:
                    res.append(("accepted-stored", k, "message to sys acknowledged as %d, previous was %d" % (n, px.sys_lastid)))
                if fault == "N" and x.sysmsgs.get(n) != (actor, str(args[1])):
                    res.append(("accepted-stored", k, "message %d to sys not stored as published: %s" % (n, x.sysmsgs.get(n))))
            else:
                if fault == "N":
                    res.append(("sys-publish-rejected", k, "publish to sys by logged-in session %d (not attached) answered %s" % (sid, mine)))
                if not mine or int(mine[0].split()[1]) < 400:
                    res.append(("rejected-gets-error-reply", k, "rejected publish to sys answered %s" % mine))
                if set(x.sysmsgs) != set(px.sysmsgs) or x.sys_lastid != px.sys_lastid and fault[0] != "C" and not crashed_first:
                    res.append(("rejected-no-effect", k, "rejected publish to sys stored something or consumed a number"))
                if [t for s, t in v.frames if not (s == sid and t.startswith("ctrl "))]:
                    res.append(("rejected-no-effect", k, "rejected publish to sys produced frames"))
        # a {set} from a session that is NOT attached (replyOfflineTopicSetSub): an acknowledged request carrying
        # sub.mode = m has stored exactly the sanitised m as the user's requested mode, whatever else the request
        # carries (desc.private); a refused one (error reply) leaves the row as it was
        if prev is not None and kind in ("osetx", "p2posetx") and actor is not None and fault[0] != "C":
            if kind == "osetx":
                tgt, mhex, priv = args[1], args[2], args[3]
                att = px.window is False and prev.loaded and sid in prev.csess
                before = (lambda r: None if r is None or r.get("deleted") else (r["want"], r["given"], px.priv.get(actor, "")))(prev.subs.get(actor))
                after = (lambda r: None if r is None or r.get("deleted") else (r["want"], r["given"], x.priv.get(actor, "")))(v.subs.get(actor))
                addressed = not px.window
                p2p = False
            else:
                kk, mhex, priv = args[1], args[2], args[3]
                tgt = 0
                pr, qr = px.p2prows.get(kk, {}).get(actor), x.p2prows.get(kk, {}).get(actor)
                att = kk in px.p2p and px.p2p[kk]["loaded"] and sid in px.p2p[kk]["sess"]
                before = None if pr is None or pr[3] else pr[:3]
                after = None if qr is None or qr[3] else qr[:3]
                addressed = pr is not None and not px.window
                p2p = True
            m = unhex(mhex)
            if addressed and not att and not crashed_first:
                code = int(mine[0].split()[1]) if mine else None
                what = "{set} by session %d (user %s, not attached) to the %s with sub.mode=%r desc.private=%s sub.user=%s" % (
                    sid, actor, "p2p topic %d" % args[1] if p2p else "group topic", m, priv, tgt)
                if len(mine) != 1 or [t for s_, t in v.frames if s_ != sid]:
                    res.append(("offline-set-one-reply", k, "%s: frames %s, exactly one reply to the sender expected" % (what, v.frames)))
                elif code < 400 and m and before is not None:
                    bits = parse_mode(m)
                    if bits is None or tgt not in (0, actor) or ("O" in bits) != ("O" in before[0]):
                        res.append(("offline-set-ack-stores-want", k, "%s acknowledged (%s) although the request must be refused (stored row %s)" % (what, mine[0], before)))
                    else:
                        if p2p:
                            bits = (bits & set("JRWPA")) | {"A"}
                        exp = mode_text(bits)
                        if after is None or after[0] != exp or after[1] != before[1]:
                            res.append(("offline-set-ack-stores-want", k, "%s acknowledged (%s): stored mode before %s, after %s; the stored requested mode must be %s and the granted mode unchanged"
                                        % (what, mine[0], "/".join(before[:2]), "/".join(after[:2]) if after else None, exp)))
                        if code == 200 and "acs=" in mine[0] and after is not None and kvs(mine[0]).get("acs") != after[0] + "/" + after[1]:
                            res.append(("offline-set-ack-stores-want", k, "%s: the reply reports %s, the stored row is %s" % (what, mine[0], "/".join(after[:2]))))
                elif code >= 400 and fault == "N" and after != before:
                    res.append(("offline-set-rejected-no-effect", k, "%s refused (%s) but the stored row changed from %s to %s" % (what, mine[0], before, after)))
        # evictUser: an acknowledged request that bans a user (the granted or the requested mode loses J), removes his
        # subscription or unsubscribes him detaches EVERY session attached on his behalf - whoever owns the session
        # (a root session attached with extra.obo included)
        if prev is not None and prev.loaded and v.loaded and fault[0] != "C" and not px.window and not x.window and mine \
                and mine[0].startswith("ctrl 200") and actor is not None and sid in prev.csess:
            gone = None
            if kind == "setsub":
                tgt = args[1] if args[1] not in (0, actor) else actor
                r = v.subs.get(tgt)
                if r is not None and not r.get("deleted"):
                    if tgt != actor and "J" not in r["given"]:
                        gone = (tgt, "banned: granted mode %s" % r["given"])
                    elif tgt == actor and "J" not in r["want"]:
                        gone = (tgt, "left by dropping J from the requested mode %s" % r["want"])
            elif kind == "delsub":
                gone = (args[1], "subscription deleted by {del sub}")
            elif kind == "leave" and args[1] == 1:
                gone = (actor, "unsubscribed by {leave unsub}")
            if gone is not None:
                left = sorted(s_ for s_, u_ in v.csess.items() if u_ == gone[0])
                if left:
                    res.append(("banned-user-session-still-attached", k, "user %s %s by request %s of session %d, but sessions %s are still attached to the topic on his behalf (%s)"
                                % (gone[0], gone[1], kind0, sid, left,
                                   ", ".join("session %d = %s session of user %s" % (s_, "root" if s_ in roots else "own", sc.sessions.get(s_)) for s_ in left))))
        # the read-only bit of every loaded topic follows the suspensions, per topic category: an accepted change of
        # the state of account u marks the group topic iff u is its owner (not if u is only a member), a p2p topic iff
        # u is one of its parties, never 'sys' (whoever subscribes to it), never me/fnd; nothing else sets the bit
        if prev is not None and fault[0] != "C" and kind != "restart":
            law = "read-only-follows-suspension"
            if kind == "suspend":
                u, b = int(args[0]), int(args[1]) == 1
                changed = (u in x.susp) != (u in px.susp)
                what = "account %d %s" % (u, ("suspended" if b else "resumed") if changed else "state unchanged by the request")
            else:
                u, b, changed, what = None, False, False, "request %s" % kind
            if v.loaded and prev.loaded and not px.window and not x.window:
                owner = prev.cache.get("owner")
                exp = b if (changed and owner == u) else px.ro
                if x.ro != exp and (kind == "suspend" or x.ro):
                    role = "owner" if owner == u else ("member" if u in prev.cusers else "no subscriber")
                    res.append((law, k, "group topic: %s (%s of the topic), read-only bit is %s, expected %s" % (what, role, x.ro, exp)))
            if x.sysro != px.sysro and (kind == "suspend" or x.sysro):
                res.append((law, k, "'sys' topic: %s (%s), read-only bit of sys is %s, expected %s" % (
                    what, "a subscriber of sys" if u in px.syssubs else "not a subscriber", x.sysro, px.sysro)))
            if x.mefndro != px.mefndro and (kind == "suspend" or x.mefndro - px.mefndro):
                res.append((law, k, "me/fnd topics: %s, read-only me/fnd topics %s, expected %s" % (what, sorted(x.mefndro), sorted(px.mefndro))))
            for kk in sorted(x.p2p):
                p, q = px.p2p.get(kk), x.p2p[kk]
                if p is None or not (p["loaded"] and q["loaded"]):
                    continue
                exp = b if (changed and u in p["users"]) else p["ro"]
                if q["ro"] != exp and (kind == "suspend" or q["ro"]):
                    res.append((law, k, "p2p topic %d of users %s: %s (%s), read-only bit is %s, expected %s" % (
                        kk, sorted(p["users"]), what, "a party" if u in p["users"] else "not a party", q["ro"], exp)))
        # bookkeeping of the known triggers
        if prev is not None:
            if not v.loaded or not prev.loaded:
                div.clear()
            else:
                self_req = (kind == "sub") or (kind in ("setsub", "osetx") and args[1] in (0, actor))
                if kind in ("setsub", "osetx") and self_req and sid not in prev.csess:
                    if modes(v.subs.get(actor)) != modes(v.cusers.get(actor)):
                        div[actor] = "offline-setsub"
                pc = prev.cusers.get(actor)
                if fault != "N" and kind in ("sub", "setsub", "osetx") and self_req and "O" in unhex(args[1] if kind == "sub" else args[2]) \
                        and pc is not None and "O" in pc["given"] and "O" not in pc["want"]:
                    # a faulted acceptance of a pending ownership transfer (thisUserSub, ownerChange branch)
                    for u in (actor, prev.cache.get("owner")):
                        if modes(v.subs.get(u)) != modes(v.cusers.get(u)):
                            div[u] = "transfer-fault"
            # the same trigger on a peer-to-peer topic: exactly an ACKNOWLEDGED (200) {set sub} of the user's own row from a
            # session that is not attached to that topic, while the topic instance stays loaded across the request and
            # the stored row now differs from the cached one; forgotten as soon as the topic is seen not loaded
            for kk, q in x.p2p.items():
                p = px.p2p.get(kk)
                if not q["loaded"] or p is None or not p["loaded"] or fault[0] == "C" or kind == "restart" or crashed_first:
                    pdiv.pop(kk, None)
            if kind == "p2posetx" and actor is not None and fault[0] != "C" and not crashed_first:
                kk = args[1]
                p, q = px.p2p.get(kk), x.p2p.get(kk)
                if p and q and p["loaded"] and q["loaded"] and sid not in p["sess"] and mine and mine[0].startswith("ctrl 200"):
                    br, ar = px.p2prows.get(kk, {}).get(actor), x.p2prows.get(kk, {}).get(actor)
                    if br and ar and ar[:2] != br[:2] and tuple(q["users"].get(actor, ("-", "-"))) != ar[:2]:
                        pdiv.setdefault(kk, {})[actor] = "offline-setsub"
            owner = v.cache.get("owner") if v.loaded else None
            if owner not in x.susp or not v.loaded:
                ro_lost = False
            elif not prev.loaded:
                ro_lost = True
            for kk, q in x.p2p.items():
                p = px.p2p.get(kk)
                if not q["loaded"] or q["ro"] or not (set(q["users"]) & x.susp):
                    p_lost[kk] = None
                elif p is None or not p["loaded"]:
                    p_lost[kk] = "reload"
                elif kind == "suspend" and int(args[1]) == 0 and int(args[0]) in p["users"] and p["ro"] and int(args[0]) not in x.susp:
                    p_lost[kk] = "peer"
        prev, px = v, x
    return res


def frame_f(t):
    return True


def extra_cov(scns, impl):
    """how often the implementation's trace visited the cases of the suspension test (non-vacuity of the laws)"""
    c = {"suspensions_changing_state": 0, "of_owner_of_loaded_group": 0, "of_plain_member_of_loaded_group": 0,
         "of_party_of_loaded_p2p": 0, "of_non_party_with_loaded_p2p": 0, "of_sys_subscriber": 0,
         "sys_publishes_while_a_subscriber_is_suspended": 0, "p2p_publishes_202": 0, "p2p_publishes_403_read_only": 0,
         "p2p_publishes_403_other": 0, "p2p_publishes_409": 0}
    for sc in scns:
        px = pv = None
        for k, b in enumerate(impl.get(sc.id, [])):
            v = statelib.View(b)
            x = X(v)
            fault, kind, args = sc.ops[k]
            if px is not None and kind == "suspend" and fault[0] != "C":
                u = int(args[0])
                if (u in x.susp) != (u in px.susp):
                    c["suspensions_changing_state"] += 1
                    if pv.loaded and pv.cache.get("owner") == u:
                        c["of_owner_of_loaded_group"] += 1
                    elif pv.loaded and u in pv.cusers:
                        c["of_plain_member_of_loaded_group"] += 1
                    for p in px.p2p.values():
                        if p["loaded"]:
                            c["of_party_of_loaded_p2p" if u in p["users"] else "of_non_party_with_loaded_p2p"] += 1
                    if u in px.syssubs:
                        c["of_sys_subscriber"] += 1
            if px is not None and kind == "pubsys" and px.syssubs & px.susp:
                c["sys_publishes_while_a_subscriber_is_suspended"] += 1
            if px is not None and kind == "p2ppub":
                mine = [t for s, t in v.frames if s == args[0] and t.startswith("ctrl ")]
                code = mine[0].split()[1] if mine else "-"
                p = px.p2p.get(args[1])
                if code == "202":
                    c["p2p_publishes_202"] += 1
                elif code == "403":
                    c["p2p_publishes_403_read_only" if p and p["ro"] else "p2p_publishes_403_other"] += 1
                elif code == "409":
                    c["p2p_publishes_409"] += 1
            px, pv = x, v
    return {"suspension_cases_visited": c}


def line_f(kind, l):
    if kind == "store":
        if l.startswith("sub "):
            return re.sub(r" read=.*", "", l)
        return l
    if l.startswith("user "):
        return re.sub(r" read=.*", "", l)
    return l


def run(ctx):
    # s03f: a replay of the p2p-creation layer runs that layer only
    if ctx.replay:
        rp = json.load(open(ctx.replay))
        if rp.get("replay", {}).get("part") == "c03f":
            ctx.coq_props(())
            ctx.build_runner()
            ctx.build_main()
            ctx.coverage.update(c03f.run_layer(ctx, rp["replay"]["line"]))
            ctx.finish()
    # this check runs its own driver and model runner through the shared flow of statelib
    T.gen_scenarios, T.run_impl, T.run_model = gen_scenarios, run_impl, run_model
    seen_known = set()

    def known_hit(law, sc, k, detail):
        if law not in seen_known:
            seen_known.add(law)
            ctx.violation("monitor", law, "law %s fails on the implementation's trace: %s" % (law, detail),
                          {"head": sc.head, "ops": sc.ops[:k + 1], "law": law, "detail": detail})

    statelib.run_stateful(
        ctx, [("msg", 0.0, 0.149), ("perm", 0.0, 0.149), ("perm", 0.1, 0.088), ("permfault", 0.0, 0.246), ("life", 0.0, 0.246),
              ("offset", 0.0, 0.068), ("obo", 0.0, 0.054)],
        lambda sc, views: monitor(sc, views, known_hit),
        dict(ops=OpSetC03(PUB_KINDS), frame=frame_f, line=line_f, keys=("frames", "store", "cache")),
        rule="seeded random histories over one group topic plus me/fnd/sys: authors = owner, members, muted, write-less (want or given without W), banned, removed, never subscribed; publishes preceded by subscribe/set-sub/del-sub/leave histories (arbitrary mode strings) with Fail k / Crash k at every adapter-call position of the permission requests, unload/restart; the owner's {del topic} held open inside store.Topics.Delete (memverif call hook) with publishes dispatched meanwhile; suspension/resumption (with Fail/Crash on its store calls) of accounts that are at once a plain member of the group topic, a party of one or two real peer-to-peer topics (assorted modes, with and without W) and a subscriber of sys, or the owner, or a bystander, followed by publishes to the group topic, the p2p topics and sys; reloads after a suspension, both parties suspended and one resumed; publishes to me/fnd (attached or not) and sys (never attached; with and without subscribers); profile offset: {set} from sessions that are NOT attached with every combination of desc.private {absent, number, map setting / deleting keys, map of nulls, empty map} x sub.mode {absent, valid without W, valid with W, junk, O-bit mismatch} x sub.user {absent, self, somebody else}, Fail/Crash on Subs.Get and Subs.Update, to the group topic and to a peer-to-peer topic, followed by restart / idle unload / nothing, attach and publish; profile obo: one or two ROOT sessions attached with extra.obo on behalf of members and strangers, publishing on behalf of the acted-for user and of others before and after he is banned (granted mode without J, mostly keeping W), removed by {del sub}, unsubscribes, drops J or W himself, with faults on the permission request, restarts, extra.obo from ordinary sessions and malformed; non-trivial = at least one accepted mutating request",
        trusted=["projection compared for C03: every frame of a publish request (group topic, me, fnd, sys), the stored rows and the cached modes/lastID after every request, the paused/read-only bits of the loaded group topic, of every p2p topic, of sys and of every loaded me/fnd topic, cached modes / attached sessions / seqid / lastID / messages of every p2p topic, the suspended accounts, me/fnd attachments, seqid/lastID/messages/subscribers of sys",
                 "read-only-follows-suspension takes the account states from the users table and the membership from the topic's cached perUser before the request; the read-only bit itself is read from Topic.status at quiescence",
                 "p2p topics are created with both subscription rows by store.Topics.CreateP2P at set-up (initTopicP2P case 4); the subscribers of sys are rows created at set-up followed by a reload of sys; both are removed / unloaded at the end of the scenario",
                 "the monitor takes the STORED subscription row as the definition of 'currently subscribed with W in both modes'; a failure of the iff is filed under a known finding only if the author's cached mode differs from the stored one AND one of the two named triggers hit that user since the topic was loaded (not-attached {set sub} of his own; faulted ownership-transfer request)",
                 "harness/overlay/server/zz_verif_c03x_test.go: the {del topic} of the owner is held inside adapter.TopicDelete by a memverif call hook (db/memverif/zz_hook.go) while publishes are dispatched and awaited; {acc status=susp} is sent by a root session; the driver's sessions are not in the session store, so suspension does not evict them (eviction on suspension and login refusal are C11's)",
                 "s03c: harness/overlay/server/zz_verif_c03oz_test.go sends {set} with desc.private and sub in one JSON request, creates root sessions (authLvl put back after a restart at quiescence) and sends kind@obo requests through zz_verif_c04x_test.go's c04xOp (reused unchanged); the stored Private of every row and the stored rows of the p2p topics are read through memverif.DumpTopicDesc; the acting user of a request (tools/props/c03.py acting_user) is a python restatement of dispatch_as_c04; the law offline-set-ack-stores-want parses the mode with a python restatement of types.ParseAcs (letters JRWPASDO, N alone)",
                 "topic deletion is modelled for hub.topicUnreg case 1.1.1 only (owner, topic loaded, hard); other {del topic} requests are not issued"],
        counts={"quick": 640, "thorough": 5600},
        extra_cov=lambda scns, impl: dict(extra_cov(scns, impl), **c03f.run_layer(ctx)))
