"""C03 write permission: theorems in coq/Props/PropC03.v; correspondence and monitor through
the topic-history driver."""
import re
from props import statelib
from props.statelib import kvs, eff


def monitor(sc, views):
    res = []
    prev = None
    tainted = False   # a known cache/store divergence trigger (C08 findings) has happened: the iff is not judged
    for k, v in enumerate(views):
        fault, kind, args = sc.ops[k]
        if prev is not None and kind == "pub":
            sid = args[0]
            actor = sc.sessions.get(sid)
            row = prev.subs.get(actor)
            attached = prev.loaded and sid in prev.csess
            writer = row is not None and not row["deleted"] and "W" in eff(row["want"], row["given"])
            expect = attached and writer
            mine = [t for s, t in v.frames if s == sid and t.startswith("ctrl ")]
            acked = bool(mine) and mine[0].startswith("ctrl 202")
            if fault == "N" and not tainted:
                if acked and not expect:
                    res.append(("publish-accepted-without-write", k, "publish by session %d (user %s) accepted; attached=%s, stored mode %s" %
                                (sid, actor, attached, (row["want"] + "/" + row["given"]) if row else None)))
                if expect and not acked:
                    res.append(("publish-by-writer-rejected", k, "publish by attached writer (session %d, user %s) answered %s" % (sid, actor, mine)))
            if not acked:
                if not mine:
                    res.append(("rejected-gets-error-reply", k, "publish got no reply"))
                elif int(mine[0].split()[1]) < 400:
                    res.append(("rejected-gets-error-reply", k, "rejected publish answered %s" % mine[0]))
                others = [(s, t) for s, t in v.frames if not (s == sid and t.startswith("ctrl "))]
                if others or v.pres:
                    res.append(("rejected-no-effect", k, "rejected publish produced frames %s %s" % (others, v.pres)))
                if fault == "N":
                    if v.b["store"] != prev.b["store"]:
                        res.append(("rejected-no-effect", k, "rejected publish changed the store: %s" %
                                    [x for x in v.b["store"] if x not in prev.b["store"]]))
                    if v.loaded and prev.loaded and v.cache.get("lastid") != prev.cache.get("lastid"):
                        res.append(("rejected-no-effect", k, "rejected publish consumed a number"))
            elif fault == "N":
                n = int(kvs(mine[0])["seq"])
                m = v.msgs.get(n)
                if m is None or m["content"] != str(args[1]) or m["frm"] != actor:
                    res.append(("accepted-stored", k, "accepted message %d not stored as published: %s" % (n, m)))
        if kind == "setsub" and prev is not None and prev.loaded and args[0] not in prev.csess:
            tainted = True
        if fault != "N" and kind in ("sub", "setsub", "delsub", "leave"):
            tainted = True
        prev = v
    return res


def frame_f(t):
    return True


def line_f(kind, l):
    if kind == "store":
        if l.startswith("sub "):
            return re.sub(r" read=.*", "", l)
        return l
    if l.startswith("user "):
        return re.sub(r" read=.*", "", l)
    return l


def run(ctx):
    statelib.run_stateful(
        ctx, [("msg", 0.0, 0.35), ("perm", 0.0, 0.45), ("perm", 0.1, 0.2)], monitor,
        dict(ops={"pub"}, frame=frame_f, line=line_f, keys=("frames", "store", "cache")),
        rule="seeded random histories over one group topic: authors = owner, members, muted, write-less (want or given without W), banned, removed, never subscribed; publishes preceded by random subscribe/set-sub/del-sub/leave histories (arbitrary mode strings), unload/restart; non-trivial = at least one accepted mutating request",
        trusted=["projection compared for C03: every frame of a pub request, the stored rows and the cached modes/lastID after every request",
                 "the monitor takes the STORED subscription row as the definition of 'currently subscribed with W in both modes' and skips the iff after a trigger of a known cache/store divergence (offline set-sub on a loaded topic, faulted permission request: C08 findings)"])
