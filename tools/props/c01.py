"""C01 message numbering: theorems in coq/Props/PropC01.v over Sys/Topic.v (group topic),
Sys/TopicLoad.v (load paths of all topic kinds, peer-to-peer and 'sys' topics) and
Sys/TopicBurstC01.v (several requests in flight: bursts, write loops, idle-unload race);
correspondence and monitor through the topic-history driver (group), the load-path driver
zz_verif_c01x_test.go (p2p, sys) and the burst / unload-race driver zz_verif_c01b_test.go
(tools/props/c01burst.py): real hub/topic/session code above memverif.  tools/props/c01ims.py adds: description
queries with options (Sys/TopicImsC01.v, driver zz_verif_c01i_test.go), channel subscriptions as recipients (the C02
fan-out slice) and the later queries of those recipients (Sys/FanoutQueryC01.v, driver zz_verif_c01q_test.go)."""
import json
import os
import re
import subprocess
import time
import vlib
from props import statelib
from props import topiclib as T
from props import c01burst
from props import c01ims
from props import c01att
from props import c01join
from props.statelib import kvs


def monitor(sc, views):
    """The C01 trace laws on one topic's history.  Scenario attributes used when present:
    seed_seqid / seed_msgs (numbers issued before the history starts)."""
    res = []
    shown = dict(getattr(sc, "seed_msgs", {}))          # seq -> (content, from) as first shown
    max_shown = getattr(sc, "seed_seqid", 0)
    last_issued = None  # last acknowledged number since the last (re)load
    acked = set()
    floor = max_shown   # highest number known to be issued (acknowledged here or before the history)
    faulted = False     # a store fault or crash has happened in this history
    pending_fail = None # number a failed publish would have had
    failed_contents = set()
    prev_loaded = False
    for k, v in enumerate(views):
        fault, kind, args = sc.ops[k]
        if fault != "N":
            faulted = True
        reloaded_now = (not prev_loaded and v.loaded)
        if reloaded_now:
            last_issued = None
        for sid, t in sorted(v.frames, key=lambda x: 0 if x[1].startswith("ctrl 202") else 1):
            if t.startswith("ctrl 202"):
                if "seq" not in kvs(t):
                    # hub.routeCli: topic not loaded, "accepted" without a number: nothing is numbered
                    continue
                n = int(kvs(t)["seq"])
                content = str(args[1])
                if n in acked:
                    res.append(("number-issued-twice", k, "number %d acknowledged twice" % n))
                acked.add(n)
                if last_issued is not None and n != last_issued + 1:
                    res.append(("numbers-consecutive", k, "acknowledged %d after %d without a reload in between" % (n, last_issued)))
                if last_issued is None:
                    if n <= max_shown:
                        res.append(("reload-above-shown", k, "number %d issued after a (re)load although %d was already shown" % (n, max_shown)))
                    elif not faulted and n != max_shown + 1:
                        res.append(("numbers-gapless", k, "number %d issued after a (re)load, %d expected (no fault occurred)" % (n, max_shown + 1)))
                if pending_fail is not None and n != pending_fail:
                    res.append(("failed-save-consumes-nothing", k, "after a failed publish the next number is %d, %d expected" % (n, pending_fail)))
                pending_fail = None
                last_issued = n
                if n in shown and shown[n][0] != content:
                    res.append(("number-content-agree", k, "number %d acknowledged for content %s, shown earlier with %s" % (n, content, shown[n][0])))
                shown.setdefault(n, (content, sc.sessions.get(args[0])))
                max_shown = max(max_shown, n)
                floor = max(floor, n)
            elif t.startswith("data "):
                d = kvs(t)
                n = int(d["seq"])
                if n in shown and (d["content"], int(d["from"])) != (shown[n][0], shown[n][1]) and d["content"] != "0":
                    res.append(("number-content-agree", k, "message %d shown as content=%s from=%s, published as %s from %s" % (n, d["content"], d["from"], shown[n][0], shown[n][1])))
                if d["content"] in failed_contents:
                    res.append(("failed-publish-invisible", k, "content %s of a publish that was answered with an error is shown as message %d" % (d["content"], n)))
                if n not in shown and kind != "pub":
                    res.append(("history-only-acknowledged", k, "message %d shown but never acknowledged" % n))
                max_shown = max(max_shown, n)
            elif t.startswith("desc "):
                d = kvs(t)
                n = int(d["seq"])
                if d["acs"] != "-/-" and "R" in statelib.eff(*d["acs"].split("/")) and sid in v.csess:
                    if n < floor:
                        res.append(("desc-seq-current", k, "description shows seq=%d, %d was acknowledged" % (n, floor)))
                    elif not faulted and n != floor:
                        res.append(("desc-seq-current", k, "description shows seq=%d, last acknowledged %d (no fault occurred)" % (n, floor)))
                max_shown = max(max_shown, n)
        if kind == "pub":
            codes = [t for sid, t in v.frames if sid == args[0] and t.startswith("ctrl ")]
            if codes and not codes[0].startswith("ctrl 202"):
                failed_contents.add(str(args[1]))
                if last_issued is not None and v.loaded and not (fault != "N" and fault[0] == "C"):
                    pending_fail = last_issued + 1
        if kind in ("unload", "restart") or (fault != "N" and fault[0] == "C") or not v.loaded:
            pending_fail = None
        if kind == "restart" or (fault != "N" and fault[0] == "C"):
            # the process was restarted: whatever is loaded now was (re)loaded from the store
            last_issued = None
        # the persisted mark bounds everything shown
        if v.topic and v.topic.get("seqid", 0) < max_shown:
            res.append(("mark-above-shown", k, "stored seqid %d below a shown number %d" % (v.topic["seqid"], max_shown)))
        if not v.topic and getattr(sc, "kind", "grp") == "p2p":
            # both subscriptions of the p2p topic were deleted: the topic and its messages are gone,
            # a topic created later under the same name is a new topic
            shown, max_shown, floor, acked, last_issued, pending_fail = {}, 0, 0, set(), None, None
        prev_loaded = v.loaded
    return res


def frame_f(t):
    return t.startswith("ctrl 202") or t.startswith("data ") or t.startswith("desc ")


def line_f(kind, l):
    if kind == "store":
        if l.startswith("topic "):
            return l.split(" delid=")[0]
        if l.startswith("msg "):
            return re.sub(r" delid=\S+", "", re.sub(r" content=\S+", "", l))
        return None
    if l.startswith("lastid"):
        return l.split(" delid=")[0]
    return None


# ---------------------------------------------------------------------------------------------
# load paths of p2p and sys topics (driver zz_verif_c01x_test.go, model Sys/TopicLoad.v)

class XScn(T.Scn):
    kind = "p2p"
    seed_seqid = 0
    seed_msgs = {}

    def clone(self, ops):
        s = XScn(self.id)
        s.head, s.nusers, s.sessions = self.head, self.nusers, self.sessions
        s.kind, s.seed_seqid, s.seed_msgs = self.kind, self.seed_seqid, self.seed_msgs
        s.ops = list(ops)
        return s


P2P_ACC = [47, 47, 47, 63, 31, 15, 47, 46, 11]
P2P_MODES = [31, 31, 31, 47, 31, 27, 29, 30, 15, 31, 0]   # JRWPA, JRWPS, no W, no R, no J, no A, N


def fault_of(rng, faults):
    if faults and rng.random() < faults:
        return rng.choice(["F", "F", "C"]) + str(rng.randint(1, 4))
    return "N"


def gen_seed_msgs(rng, sc, seqid, authors):
    msgs = {}
    for i in range(1, seqid + 1):
        if rng.random() < 0.85:
            frm = rng.choice(authors)
            msgs[i] = (str(10 + i), frm)
            sc.head.append("msg %d from=%d content=%d" % (i, frm, 10 + i))
    sc.seed_msgs = msgs
    sc.seed_seqid = seqid


def gen_p2p(rng, sid, faults):
    sc = XScn(sid)
    sc.kind = "p2p"
    sc.nusers = 2
    exists = rng.random() < 0.65
    seqid = rng.choice([0, 1, 2, 3, 5, 7, 9]) if exists else 0
    delid = rng.choice([0, 0, 1, 2, 4]) if exists else 0
    sc.head.append("scn %s kind=p2p exists=%d seqid=%d delid=%d" % (sid, 1 if exists else 0, seqid, delid))
    for i in (1, 2):
        sc.head.append("user %d acc=%d root=0" % (i, rng.choice(P2P_ACC)))
    sc.seed_msgs, sc.seed_seqid = {}, 0
    if exists:
        # which load branch the first attach takes: both rows live / one missing or soft-deleted / none live
        shape = rng.choice(["both", "both", "one", "one", "one", "one", "none"])
        rows = {1: "live", 2: "live"}
        if shape == "one":
            rows[rng.choice([1, 2])] = rng.choice(["deleted", "deleted", "missing"])
        elif shape == "none":
            rows = {1: rng.choice(["deleted", "missing"]), 2: rng.choice(["deleted", "missing"])}
        for i in (1, 2):
            if rows[i] != "missing":
                sc.head.append("subrow %d want=%d given=%d deleted=%d" % (i, rng.choice(P2P_MODES), rng.choice(P2P_MODES[:-1]),
                                                                          1 if rows[i] == "deleted" else 0))
        gen_seed_msgs(rng, sc, seqid, [1, 2])
    s = 0
    for i in (1, 2):
        for _ in range(rng.choice([1, 1, 2])):
            s += 1
            sc.sessions[s] = i
            sc.head.append("sess %d %d" % (s, i))
    sids = sorted(sc.sessions)
    ops = []
    def sub_kind():
        # mostly by the usrXXX name, sometimes by the p2pAAABBB name
        return "subp" if rng.random() < 0.2 else "sub"
    for x in sids:
        if rng.random() < 0.7:
            ops.append((fault_of(rng, faults * 0.5), sub_kind(), [x]))
    for _ in range(rng.randint(6, 20)):
        x = rng.choice(sids)
        r = rng.random()
        flt = fault_of(rng, faults)
        if r < 0.36:
            ops.append((flt, "pub", [x, 100 + len(ops), 1 if rng.random() < 0.15 else 0]))
        elif r < 0.50:
            ops.append((flt, sub_kind(), [x]))
        elif r < 0.57:
            ops.append(("N", "leave", [x, 0]))
        elif r < 0.66:
            ops.append((flt, "leave", [x, 1]))
        elif r < 0.73:
            ops.append((flt, "getdata", [x]))
        elif r < 0.80:
            ops.append((flt, "getdesc", [x]))
        elif r < 0.92:
            # idle unload then re-attach: every session leaves (one of them possibly unsubscribing)
            un = rng.choice(sids) if rng.random() < 0.5 else None
            for y in sids:
                ops.append(("N", "leave", [y, 1 if y == un else 0]))
            ops.append(("N", "unload", []))
            ops.append((fault_of(rng, faults), sub_kind(), [rng.choice(sids)]))
        elif r < 0.95:
            ops.append(("N", "unload", []))
        else:
            ops.append(("N", "restart", []))
    sc.ops = ops
    return sc


def gen_sys(rng, sid, faults):
    sc = XScn(sid)
    sc.kind = "sys"
    n = rng.choice([2, 3, 3])
    sc.nusers = n
    seqid = rng.choice([0, 0, 1, 2, 4, 6])
    delid = rng.choice([0, 0, 1, 3])
    sc.head.append("scn %s kind=sys exists=1 seqid=%d delid=%d" % (sid, seqid, delid))
    nroot = 2 if (n == 3 and rng.random() < 0.3) else 1
    for i in range(1, n + 1):
        sc.head.append("user %d acc=47 root=%d" % (i, 1 if i <= nroot else 0))
    for i in range(1, n + 1):
        # stored subscriptions: root users often, the others rarely (subscribed while they were root);
        # sometimes self-banned (want without J) or banned (given without J)
        if rng.random() < (0.5 if i <= nroot else 0.12):
            sc.head.append("subrow %d want=%d given=%d deleted=%d" % (i, rng.choice([79, 79, 79, 79, 0, 78]), rng.choice([79, 79, 79, 79, 78]),
                                                                      1 if rng.random() < 0.3 else 0))
    gen_seed_msgs(rng, sc, seqid, list(range(1, n + 1)))
    s = 0
    for i in range(1, n + 1):
        for _ in range(rng.choice([1, 1, 2])):
            s += 1
            sc.sessions[s] = i
            sc.head.append("sess %d %d" % (s, i))
    sids = sorted(sc.sessions)
    ops = []
    for _ in range(rng.randint(6, 18)):
        x = rng.choice(sids)
        r = rng.random()
        flt = fault_of(rng, faults)
        if r < 0.50:
            ops.append((flt, "pub", [x, 100 + len(ops), 1 if rng.random() < 0.15 else 0]))
        elif r < 0.64:
            ops.append((flt, "sub", [x]))
        elif r < 0.69:
            ops.append(("N", "leave", [x, 0]))
        elif r < 0.74:
            ops.append((flt, "leave", [x, 1]))
        elif r < 0.81:
            ops.append((flt, "getdata", [x]))
        elif r < 0.88:
            ops.append((flt, "getdesc", [x]))
        elif r < 0.90:
            ops.append(("N", "unload", []))
        else:
            ops.append(("N", "restart", []))
    sc.ops = ops
    return sc


def x_run_impl(ctx, scns, tag="x"):
    fin = os.path.join(ctx.work, "xscn_%s.in" % tag)
    fout = os.path.join(ctx.work, "xscn_%s.impl" % tag)
    with open(fin, "w") as f:
        for sc in scns:
            f.write("\n".join(sc.lines()) + "\n")
    if os.path.exists(fout):
        os.remove(fout)
    env = dict(vlib.GOENV, VERIF_IN=fin, VERIF_OUT=fout)
    p = subprocess.run([os.path.join(vlib.BUILD, "maindrv.test"), "-test.run", "^TestVerifC01x$", "-test.count=1", "-test.timeout=3000s"],
                       stdout=subprocess.PIPE, stderr=subprocess.STDOUT, env=env, cwd=os.path.join(vlib.REPO, "server"), timeout=3400)
    out = p.stdout.decode("utf8", "replace")
    lines = open(fout).read().split("\n") if os.path.exists(fout) else []
    log = "\n".join(l for l in out.split("\n") if not (len(l) > 3 and l[0] in "IWE" and l[1:3] == "20"))
    return p.returncode, T.parse_blocks(lines), log


def x_run_model(ctx, scns):
    lines = []
    for sc in scns:
        lines += sc.lines()
    rc, out, err = ctx.run_model("c01x", lines)
    flat = []
    for o in out:
        flat += o.split("\n")
    return rc, T.parse_blocks(flat), err


def x_norm_frame(t):
    if t.startswith("ctrl 202"):
        d = kvs(t)
        return "ctrl 202" + (" seq=" + d["seq"] if "seq" in d else "")
    if t.startswith("data "):
        return t
    if t.startswith("desc "):
        return "desc seq=" + kvs(t)["seq"]
    return None


def x_project(op):
    """The projection C01 compares on p2p / sys histories: acknowledgements, data copies, desc.seq per session;
    stored seqid / delid and message rows; cached lastID / delID; loaded; number of adapter calls."""
    fr = {}
    for sid, t in op["frames"]:
        n = x_norm_frame(t)
        if n and sid != 0:
            fr.setdefault(sid, []).append(n)
    store = []
    for l in op["store"]:
        if l.startswith("topic "):
            store.append(l.split(" owner=")[0])
        elif l.startswith("msg "):
            store.append(re.sub(r" delid=\S+", "", l))
    cache = [l.split(" owner=")[0] for l in op["cache"] if l.startswith("lastid")]
    return {"frames": fr, "store": store, "cache": cache, "loaded": op["loaded"], "calls": op["calls"]}


def x_views(blocks):
    vs = []
    for b in blocks:
        b2 = dict(b)
        b2["cache"] = [l for l in b["cache"] if not l.startswith("pdel")]
        vs.append(statelib.View(b2))
    return vs


def x_monitor(sc, blocks):
    res = monitor(sc, x_views(blocks))
    for k, b in enumerate(blocks):
        if b["hang"]:
            res.append(("hang", k, b["hang"]))
    return res


def run_load_paths(ctx):
    quick = ctx.tier == "quick"
    rng = ctx.rng
    scns = []
    if ctx.replay:
        rp = json.load(open(ctx.replay))["replay"]
        sc = XScn(rp["head"][0].split()[1])
        sc.head = rp["head"]
        sc.ops = [tuple(o) for o in rp["ops"]]
        sc.kind = kvs(sc.head[0])["kind"]
        sc.seed_seqid = int(kvs(sc.head[0])["seqid"])
        sc.seed_msgs = {}
        for l in sc.head:
            w = l.split()
            if w[0] == "msg":
                sc.seed_msgs[int(w[1])] = (kvs(l)["content"], int(kvs(l)["from"]))
            elif w[0] == "sess":
                sc.sessions[int(w[1])] = int(w[2])
        scns = [sc]
    else:
        np2p, nsys = (110, 45) if quick else (2500, 800)
        for i in range(np2p):
            scns.append(gen_p2p(rng, "x%d" % i, 0.0 if i % 2 == 0 else 0.22))
        for i in range(nsys):
            scns.append(gen_sys(rng, "y%d" % i, 0.0 if i % 2 == 0 else 0.22))
    t0 = time.time()
    rc, impl, log = x_run_impl(ctx, scns)
    t_impl = time.time() - t0
    if rc != 0 or any(sc.id not in impl or len(impl[sc.id]) != len(sc.ops) for sc in scns):
        bad = next((sc for sc in scns if sc.id not in impl or len(impl[sc.id]) != len(sc.ops)), None)
        ctx.violation("monitor", "server-crashed", "the server process died or stopped answering while running p2p/sys scenario %s: %s"
                      % (bad.id if bad else "?", log[-1500:]),
                      {"part": "loadpaths", "head": bad.head if bad else [], "ops": bad.ops if bad else [], "log": log[-4000:]})
        return
    rc, model, err = x_run_model(ctx, scns)
    if rc != 0:
        ctx.violation("proof", "runner-crashed", "model runner (c01x) failed: " + err[-1500:], {"theorem_or_obligation": "model runner c01x"})
        return
    fails = []
    for sc in scns:
        for law, k, detail in x_monitor(sc, impl[sc.id]):
            fails.append((sc, law, k, detail))
    seen = {}
    for sc, law, k, detail in fails:
        seen.setdefault(law, []).append((sc, k, detail))
    nshrunk = 0
    for law, lst in seen.items():
        sc, k, detail = min(lst, key=lambda x: len(x[0].ops))
        small = sc.clone(sc.ops[:k + 1])
        if nshrunk < 3 and not ctx.replay:
            nshrunk += 1

            def still_bad(c, law=law):
                rc2, im2, _ = x_run_impl(ctx, [c], tag="shrink")
                return rc2 == 0 and c.id in im2 and len(im2[c.id]) == len(c.ops) and any(l == law for l, _, _ in x_monitor(c, im2[c.id]))
            small = T.shrink(ctx, small, still_bad, budget=15 if quick else 120)
        ctx.violation("monitor", law, "law %s fails on the implementation's trace of a %s topic (%d scenarios this run): %s"
                      % (law, sc.kind, len(lst), detail),
                      {"part": "loadpaths", "head": small.head, "ops": small.ops, "law": law, "detail": detail, "scenarios_failing": len(lst)})
    mism = []
    for sc in scns:
        io, mo = impl[sc.id], model.get(sc.id, [])
        if len(io) != len(mo):
            mism.append((sc, -1, "shape %d/%d" % (len(io), len(mo))))
            continue
        for k in range(len(io)):
            a, b = x_project(io[k]), x_project(mo[k])
            if a != b:
                d = {key: (a[key], b[key]) for key in a if a[key] != b[key]}
                mism.append((sc, k, d))
                break
    if mism and not fails:
        sc, k, d = min(mism, key=lambda x: len(x[0].ops))
        base = sc.clone(sc.ops[:k + 1]) if k >= 0 else sc
        # failing-input search near the disagreement: continue the disagreeing prefix with publishes, reloads and queries
        pool = []
        sids = sorted(sc.sessions)
        for j in range(40 if quick else 400):
            c = base.clone(list(base.ops))
            c.id = "n%d" % j
            c.head = [re.sub(r"^scn \S+", "scn " + c.id, base.head[0])] + base.head[1:]
            extra = []
            for _ in range(rng.randint(1, 6)):
                x = rng.choice(sids)
                extra.append(rng.choice([("N", "pub", [x, 900 + len(extra), 0]), ("N", "sub", [x]), ("N", "getdata", [x]), ("N", "getdesc", [x]),
                                         ("N", "leave", [x, 0]), ("N", "unload", []), ("N", "restart", []), ("N", "pub", [x, 950 + len(extra), 0])]))
            c.ops = list(base.ops) + extra
            pool.append(c)
        rc2, im2, _ = x_run_impl(ctx, pool, tag="search")
        if rc2 == 0:
            for c in pool:
                if c.id in im2 and len(im2[c.id]) == len(c.ops):
                    hit = x_monitor(c, im2[c.id])
                    if hit:
                        law, kk, detail = hit[0]
                        ctx.violation("monitor", law, "law %s fails on the implementation's trace of a %s topic: %s" % (law, c.kind, detail),
                                      {"part": "loadpaths", "head": c.head, "ops": c.ops[:kk + 1], "law": law, "detail": detail,
                                       "found_by": "search near a correspondence mismatch"})
                        fails.append((c, law, kk, detail))
                        break
        if not fails:
            ctx.violation("corr", "correspondence-loadpaths-" + (sc.ops[k][1] if k >= 0 else "shape"),
                          "model (Sys/TopicLoad.v) and implementation disagree on %d of %d %s histories on C01's projection; first (prefix): op %d %s: %s; no law failure found on %d neighbouring histories"
                          % (len(mism), len(scns), "p2p/sys", k, sc.ops[k] if k >= 0 else "", json.dumps(d, default=str)[:800], len(pool)),
                          {"part": "loadpaths", "correspondence": "projection of C01 on p2p/sys histories", "head": base.head, "ops": base.ops, "diff": d})
    # coverage
    kinds, faults_seen, branches, acks = {}, {}, {}, 0
    nops = 0
    nt = set()
    for sc in scns:
        sig = []
        prev_loaded = sc.kind == "sys"
        for k, o in enumerate(sc.ops):
            nops += 1
            b = impl[sc.id][k]
            kinds[sc.kind + ":" + o[1]] = kinds.get(sc.kind + ":" + o[1], 0) + 1
            if o[0] != "N":
                faults_seen[o[0]] = faults_seen.get(o[0], 0) + 1
            if b["loaded"] == "1" and not prev_loaded or o[1] == "restart" and sc.kind == "sys":
                # which load branch ran: read off the adapter calls of the loading request
                cl = b["calllog"]
                br = ("p2p new topic" if "TopicCreateP2P" in cl else "p2p one subscription recreated" if "UserGetAll" in cl else
                      "p2p both subscriptions" if sc.kind == "p2p" else "sys")
                branches[br] = branches.get(br, 0) + 1
            prev_loaded = b["loaded"] == "1"
            acks += sum(1 for sid, t in b["frames"] if t.startswith("ctrl 202 seq"))
            sig.append((o, tuple(b["frames"])))
        if any(t.startswith("ctrl 202 seq") for b in impl[sc.id] for sid, t in b["frames"]):
            nt.add(hash(tuple(map(repr, sig))))
    ctx.coverage["load_paths"] = {
        "evaluations": len(scns), "distinct_nontrivial": len(nt), "operations_executed": nops,
        "rule": "seeded random histories on one peer-to-peer topic (stored state seeded: absent / both subscriptions / one missing or soft-deleted / none live, seqid 0-9 with holes, delid 0-4; 2 users x 1-2 sessions; sub, pub, leave, leave+unsub, get data, get desc, idle unload + re-attach through every branch of initTopicP2P, restart) and on the 'sys' topic (root subscribers, any user publishes, restart reloads it), half of the histories with a failing (F k) or crashing (C k) adapter call k=1..4 on random requests; non-trivial = at least one acknowledged number; distinct by (ops, replies)",
        "load_branches_taken": branches, "acknowledged_numbers": acks, "op_kinds": kinds, "faults": faults_seen,
        "correspondence_mismatches": len(mism), "monitor_failures": len(fails), "impl_wall_s": round(t_impl, 1),
        "samples": [{"head": sc.head, "ops": sc.ops} for sc in scns[:1]],
    }


def run(ctx):
    rp = None
    if ctx.replay:
        rp = json.load(open(ctx.replay)).get("replay", {})
    # proofs and builds once for both parts
    proof = ctx.coq_props(())
    vlib.proof_violation(ctx)
    ok_r, out_r = ctx.build_runner()
    ok_m, out_m = ctx.build_main()
    if ok_r and ok_m and ctx.proof_ok() and (rp is None or rp.get("part") == "loadpaths"):
        run_load_paths(ctx)
        if rp is not None:
            ctx.coverage.setdefault("trusted_base", []).append("harness/overlay/server/zz_verif_c01x_test.go: p2p/sys load-path driver")
            ctx.finish()
    if ok_r and ok_m and ctx.proof_ok() and (rp is None or rp.get("part") == "flight"):
        c01burst.run_flight(ctx, monitor)
        if rp is not None:
            ctx.coverage.setdefault("trusted_base", []).append("harness/overlay/server/zz_verif_c01b_test.go: burst / unload-race driver")
            ctx.finish()
    if ok_r and ok_m and ctx.proof_ok() and (rp is None or rp.get("part") == "ims"):
        c01ims.run_ims(ctx, monitor)
        if rp is not None:
            ctx.coverage.setdefault("trusted_base", []).append("harness/overlay/server/zz_verif_c01i_test.go: description-options driver")
            ctx.finish()
    if ok_r and ok_m and ctx.proof_ok() and (rp is None or rp.get("part") == "att"):
        c01att.run_att(ctx, monitor)
        if rp is not None:
            ctx.coverage.setdefault("trusted_base", []).append("harness/overlay/server/zz_verif_c01a_test.go: attachments driver")
            ctx.finish()
    if ok_r and ok_m and ctx.proof_ok() and (rp is None or rp.get("part") == "join"):
        c01join.run_join(ctx)
        if rp is not None:
            ctx.coverage.setdefault("trusted_base", []).append("harness/overlay/server/zz_verif_c01j_test.go: concurrent-joins driver")
            ctx.finish()
    if ok_r and ok_m and ctx.proof_ok() and (rp is None or rp.get("part") == "chan"):
        c01ims.run_channel(ctx)
        if rp is not None:
            ctx.coverage.setdefault("trusted_base", []).append("harness/overlay/server/zz_verif_c02_test.go: fan-out driver of the C02 check (channel-enabled topics)")
            ctx.finish()
    if ok_r and ok_m and ctx.proof_ok() and (rp is None or rp.get("part") == "queries"):
        c01ims.run_queries(ctx)
        if rp is not None:
            ctx.coverage.setdefault("trusted_base", []).append("harness/overlay/server/zz_verif_c01q_test.go: query driver on the fan-out topics of the C02 check")
            ctx.finish()
    ctx.violations = [v for v in ctx.violations if v["key"] != "proof-broken"]   # re-raised by run_stateful
    ctx.coq_props = lambda extra_files=(): proof
    ctx.build_runner = lambda: (ok_r, out_r)
    ctx.build_main = lambda tags="verif": (ok_m, out_m)
    statelib.run_stateful(
        ctx, [("msg", 0.0, 0.45), ("msg", 0.25, 0.45), ("perm", 0.1, 0.1)], monitor,
        dict(ops=None, frame=frame_f, line=line_f, keys=("frames", "store", "cache", "calls")),
        rule="seeded random histories over one group topic: 2-5 users x 1-2 sessions (owner / plain / write-less / read-less publishers), pub interleaved with get/del/note/leave/sub, unload and restart at random positions, and for about half of the histories a failing (F k) or crashing (C k) adapter call k=1..4 on random requests; non-trivial = at least one accepted mutating request; distinct by (ops, replies); PLUS the p2p/sys load-path histories reported under coverage.load_paths",
        trusted=["projection compared for C01: 202 acks, data frames, desc, stored seqid and message numbers, cached lastID, number of adapter calls per request (p2p/sys histories: also stored/cached delID and the loaded flag)",
                 "harness/overlay/server/zz_verif_c01x_test.go: p2p/sys load-path driver (stored state seeded through the store mappers; 'sys' row reset between scenarios)",
                 "the reduction 'all publishes of a topic are handled by one goroutine, so any interleaving of sessions is some order of requests' is exercised (bursts dispatched without waiting: Go channel FIFO), not proved",
                 "harness/overlay/server/zz_verif_c01b_test.go: burst / unload-race driver - write loops that serialise with Session.serialize at dequeue time and can be held; the kill timer's unregister request is handed to the real hub when the scenario says so; a {pub} queued at an unregistered instance (by the real Session.publish) is handled by the driver calling that instance's handleClientMsg after its goroutine has ended (select order clientMsg-before-exit emulated); hubunregmid holds the instance's goroutine at the entry of TopicUpdateOnMessage with the memverif call hook; store.Messages is wrapped to record every SeqId passed to Save and the outcome",
                 "harness/overlay/server/zz_verif_c01i_test.go: description-options driver - the concrete If-Modified-Since timestamp of every query is built by the driver on the side (before / not before) of the topic's CURRENT t.updated that the scenario names, t.updated being read at quiescence from the loaded topic or from the stored row; desc.created / desc.public are printed and compared for the evidence only",
                 "channel recipients and later queries: the C02 fan-out driver harness/overlay/server/zz_verif_c02_test.go and its extension zz_verif_c01q_test.go (qdesc / qdata; {meta desc} rendered as seq + acs present); 'attached at that moment' and 'effective permissions' in the laws are the implementation's own state dump after the previous request; queries are inserted into the C02 generator's histories after the fact, for connections attached by the fan-out model's state",
                 "harness/overlay/server/zz_verif_c01a_test.go: attachments driver - a stub media handler (file ids read off /v0/file/s/<id> URLs), upload records of 'k' URLs written by the driver through store.Files before the fault is armed; the protobuf number pbseq is read off pbServSerialize of the very frame object that was queued for the session",
                 "harness/overlay/server/zz_verif_c01j_test.go: concurrent-joins driver - topicInit's goroutine is held at the entry of adp.TopicGet by the memverif call hook while the second {sub} is dispatched and handled to quiescence; store.Messages is wrapped (c01bSpy) to record every number passed to Save; the model's event order [join a; join b; load completes] is the one the driver forces",
                 "frames of the model are values: 'no mutable state shared between a queued frame and later work of the topic goroutine' is checked by the driver (serialisation at dequeue time with held write loops), not proved"])
