"""C01 message numbering: theorems in coq/Props/PropC01.v over Sys/Topic.v; correspondence and
monitor through the topic-history driver (real hub/topic/session code above memverif)."""
import re
from props import statelib
from props.statelib import kvs


def monitor(sc, views):
    res = []
    shown = {}          # seq -> (content, from) as first shown
    max_shown = 0
    last_issued = None  # last acknowledged number since the last (re)load
    acked = set()
    faulted = False     # a store fault or crash has happened in this history
    pending_fail = None # number a failed publish would have had
    failed_contents = set()
    prev_loaded = False
    for k, v in enumerate(views):
        fault, kind, args = sc.ops[k]
        if fault != "N":
            faulted = True
        if kind in ("unload", "restart") or (fault != "N" and fault[0] == "C") or (not prev_loaded and v.loaded):
            # the topic has been (re)loaded, or will be before the next publish
            if not prev_loaded and v.loaded or kind in ("unload", "restart"):
                pass
        reloaded_now = (not prev_loaded and v.loaded)
        if reloaded_now:
            last_issued = None
        for sid, t in sorted(v.frames, key=lambda x: 0 if x[1].startswith("ctrl 202") else 1):
            if t.startswith("ctrl 202"):
                n = int(kvs(t)["seq"])
                content = str(args[1])
                if n in acked:
                    res.append(("number-issued-twice", k, "number %d acknowledged twice" % n))
                acked.add(n)
                if last_issued is not None and n != last_issued + 1:
                    res.append(("numbers-consecutive", k, "acknowledged %d after %d without a reload in between" % (n, last_issued)))
                if last_issued is None:
                    if n <= max_shown:
                        res.append(("reload-above-shown", k, "number %d issued after a (re)load although %d was already shown" % (n, max_shown)))
                    elif not faulted and n != max_shown + 1:
                        res.append(("numbers-gapless", k, "number %d issued after a (re)load, %d expected (no fault occurred)" % (n, max_shown + 1)))
                if pending_fail is not None and n != pending_fail:
                    res.append(("failed-save-consumes-nothing", k, "after a failed publish the next number is %d, %d expected" % (n, pending_fail)))
                pending_fail = None
                last_issued = n
                if n in shown and shown[n][0] != content:
                    res.append(("number-content-agree", k, "number %d acknowledged for content %s, shown earlier with %s" % (n, content, shown[n][0])))
                shown.setdefault(n, (content, sc.sessions.get(args[0])))
                max_shown = max(max_shown, n)
            elif t.startswith("data "):
                d = kvs(t)
                n = int(d["seq"])
                if n in shown and (d["content"], int(d["from"])) != (shown[n][0], shown[n][1]) and d["content"] != "0":
                    res.append(("number-content-agree", k, "message %d shown as content=%s from=%s, published as %s from %s" % (n, d["content"], d["from"], shown[n][0], shown[n][1])))
                if d["content"] in failed_contents:
                    res.append(("failed-publish-invisible", k, "content %s of a publish that was answered with an error is shown as message %d" % (d["content"], n)))
                if n not in shown and kind != "pub":
                    res.append(("history-only-acknowledged", k, "message %d shown but never acknowledged" % n))
                max_shown = max(max_shown, n)
            elif t.startswith("desc "):
                d = kvs(t)
                n = int(d["seq"])
                if d["acs"] != "-/-" and "R" in statelib.eff(*d["acs"].split("/")) and sid in v.csess:
                    if n < (max(acked) if acked else 0):
                        res.append(("desc-seq-current", k, "description shows seq=%d, %d was acknowledged" % (n, max(acked))))
                    elif not faulted and n != (max(acked) if acked else 0):
                        res.append(("desc-seq-current", k, "description shows seq=%d, last acknowledged %d (no fault occurred)" % (n, max(acked) if acked else 0)))
                max_shown = max(max_shown, n)
        if kind == "pub":
            codes = [t for sid, t in v.frames if sid == args[0] and t.startswith("ctrl ")]
            if codes and not codes[0].startswith("ctrl 202"):
                failed_contents.add(str(args[1]))
                if last_issued is not None and v.loaded and not (fault != "N" and fault[0] == "C"):
                    pending_fail = last_issued + 1
        if kind in ("unload", "restart") or (fault != "N" and fault[0] == "C") or not v.loaded:
            pending_fail = None
        # the persisted mark bounds everything shown
        if v.topic and v.topic.get("seqid", 0) < max_shown:
            res.append(("mark-above-shown", k, "stored seqid %d below a shown number %d" % (v.topic["seqid"], max_shown)))
        prev_loaded = v.loaded
    return res


def frame_f(t):
    return t.startswith("ctrl 202") or t.startswith("data ") or t.startswith("desc ")


def line_f(kind, l):
    if kind == "store":
        if l.startswith("topic "):
            return l.split(" delid=")[0]
        if l.startswith("msg "):
            return re.sub(r" delid=\S+", "", re.sub(r" content=\S+", "", l))
        return None
    if l.startswith("lastid"):
        return l.split(" delid=")[0]
    return None


def desc_only_seq(t):
    return t


def run(ctx):
    statelib.run_stateful(
        ctx, [("msg", 0.0, 0.45), ("msg", 0.25, 0.45), ("perm", 0.1, 0.1)], monitor,
        dict(ops=None, frame=frame_f, line=line_f, keys=("frames", "store", "cache", "calls")),
        rule="seeded random histories over one group topic: 2-5 users x 1-2 sessions (owner / plain / write-less / read-less publishers), pub interleaved with get/del/note/leave/sub, unload and restart at random positions, and for about half of the histories a failing (F k) or crashing (C k) adapter call k=1..4 on random requests; non-trivial = at least one accepted mutating request; distinct by (ops, replies)",
        trusted=["projection compared for C01: 202 acks, data frames, desc, stored seqid and message numbers, cached lastID, number of adapter calls per request",
                 "the reduction 'all publishes of a topic are handled by one goroutine, so any interleaving of sessions is some order of requests' is exercised, not proved"])
