"""C08 the live topic state and the stored state never diverge.

Theorems: coq/Props/PropC08.v over Sys/Topic.v + Sys/TopicCohC08*.v (coherence invariant
cache = load(store), reload invisibility, ack => stored, reject => no change).

This plugin is the property's correspondence AND its failing-input search:
 1. model-vs-implementation correspondence on seeded histories (profiles msg + perm of
    topiclib, a share with store faults), projection = query answers + ctrl replies +
    stored rows + cached fields the answers read;
 2. the coherence monitor on the IMPLEMENTATION's trace: after every request the cache dumped
    by the driver equals what the load path builds from the dumped store; a rejected/failed
    request leaves store and cache as they were; an acknowledged one is in the store;
 3. the reload differential on the real server: the same history with the topic unloaded and
    loaded back (or the process restarted) between two requests, every later query answer and
    the stored rows compared with the unperturbed run;
 4. the fault sweep: Fail(k)/Crash(k) at every adapter call of every mutating request (quick: a sample
    stratified by request kind, call index, F/C and - for {sub}/{set sub} - the branch taken);
 5. MODEL-GUIDED permission histories (c08perm.py): the extracted classifier perm_branch_c08c aims {sub} / {set sub}
    requests at every branch of thisUserSub / anotherUserSub / replyOfflineTopicSetSub; the law ack-acs-not-stored
    (theorem c08_acs_ack_is_stored) is evaluated on every {ctrl 200 params.acs} of the implementation.
A second, self-contained part (description / default access / tags / public / private data, which
are outside the op alphabet of Sys/Topic.v) lives in c08desc.py."""
import json
import os
import re
import time
import vlib
from props import statelib
from props import topiclib as T
from props import c08perm as PERM
from props.statelib import View, eff, kvs

QUERIES = ("getdesc", "getsub", "getdata", "getdel")
MUTATING = ("sub", "leave", "pub", "note", "delmsg", "setsub", "delsub")
PERTURB = ("unload", "restart")

# laws that name one reproduced defect each (see findings/C08.md); everything else is generic
ROOT_MARKS = ("note-read-recv-cached-only", "readless-publisher-marks-cached-only", "publisher-marks-store-error-ignored")
DETACHED_RECV = "detached-recv-note-needs-loaded-topic"
# the marks defects after which the marks REPORTED by {get desc} (not only the cached/stored recv) may differ across a reload
MARKS_EXPLAIN_DESC = ("readless-publisher-marks-cached-only", "publisher-marks-store-error-ignored")


# ---------------------------------------------------------------------------
# the load path, restated on the dumped rows

def incoherent(v):
    """{(kind, user): detail}: fields of the dumped cache that differ from what
    initTopicGrp/loadSubscribers would build from the dumped store rows."""
    d = {}
    if not v.loaded:
        return d
    if not v.topic:
        d[("topic", 0)] = "topic is loaded but has no stored row"
        return d
    if v.cache.get("lastid") != v.topic.get("seqid"):
        d[("seq", 0)] = "cached lastID=%s stored seqid=%s" % (v.cache.get("lastid"), v.topic.get("seqid"))
    if v.cache.get("delid") != v.topic.get("delid"):
        d[("delid", 0)] = "cached delID=%s stored delid=%s" % (v.cache.get("delid"), v.topic.get("delid"))
    live = {u: s for u, s in v.subs.items() if not s["deleted"]}
    owners = sorted(u for u, s in live.items() if "O" in eff(s["want"], s["given"]))
    co = v.cache.get("owner", 0)
    if (owners and co not in owners) or (not owners and co != 0):
        d[("owner", 0)] = "cached owner=%s, stored subscriptions make the owner %s" % (co, owners)
    for u in sorted(set(live) | set(v.cusers)):
        s, p = live.get(u), v.cusers.get(u)
        if s is None or p is None:
            d[("member", u)] = "user %d is %s but %s" % (u, "cached" if p else "not cached", "has a live stored subscription" if s else "has no live stored subscription")
            continue
        for f in ("want", "given"):
            if s[f] != p[f]:
                d[(f, u)] = "user %d cached %s=%s stored %s=%s" % (u, f, p[f], f, s[f])
        for f in ("read", "recv"):
            if s[f] != p[f]:
                d[(f, u)] = "user %d cached %s=%d stored %s=%d" % (u, f, p[f], f, s[f])
        if s["delid"] != p["delid"]:
            d[("subdel", u)] = "user %d cached delID=%d stored delid=%d" % (u, p["delid"], s["delid"])
    return d


def reply_code(v, sid):
    for s, t in v.frames:
        if s == sid and t.startswith("ctrl "):
            return int(t.split()[1])
    return None


def cache_core(v):
    """cached fields the answers read (no online counters, no session list)"""
    if not v.loaded:
        return None
    return (tuple(sorted(v.cache.items())),
            tuple(sorted((u, p["want"], p["given"], p["read"], p["recv"], p["delid"]) for u, p in v.cusers.items())))


def fired(fault, v):
    """did the fault plan of this request hit one of its adapter calls"""
    return fault != "N" and (v.b["calls"] or 0) >= int(fault[1:])


def classify(sc, k, prev, v, key, detail):
    """name of the law for a NEW incoherence (kind, user) raised by request k"""
    fault, kind, args = sc.ops[k]
    if not fired(fault, v):
        fault = "N"
    actor = sc.sessions.get(args[0]) if args else None
    fk, u = key
    code = reply_code(v, args[0]) if args else None
    attached = prev is not None and prev.loaded and args and args[0] in prev.csess
    if fault == "N":
        if fk == "recv" and kind == "note" and args[1] == "read" and u == actor:
            s, p = v.subs[u], v.cusers[u]
            if p["recv"] > s["recv"] and p["recv"] == p["read"]:
                return "note-read-recv-cached-only"
        if fk in ("read", "recv") and kind == "pub" and u == actor and code == 202 and prev is not None and u in prev.cusers:
            if "R" not in eff(prev.cusers[u]["want"], prev.cusers[u]["given"]):
                return "readless-publisher-marks-cached-only"
        if fk == "want" and kind == "setsub" and u == actor and not attached and code == 200 and prev is not None and prev.loaded:
            return "offline-setsub-stale-cache"
    else:
        if fk in ("read", "recv") and kind == "pub" and u == actor and code == 202:
            return "publisher-marks-store-error-ignored"
        if fk == "seq" and kind == "pub" and code is not None and code >= 500:
            return "failed-publish-advances-stored-seqid"
        if fk in ("delid", "subdel") and kind == "delmsg" and code is not None and code >= 500:
            return "failed-delete-partly-stored"
        if fk in ("want", "given", "owner") and kind in ("sub", "setsub") and code is None:
            return "owner-transfer-partly-stored"
    if code is not None and 200 <= code < 300:
        return "ack-not-stored-" + fk
    if code is not None and code >= 400:
        return "reject-changes-" + fk
    return "coherent-" + fk


def monitor(sc, views):
    """-> [(law, op index, detail, field key or None)]"""
    res = []
    prev = None
    prev_inc = {}
    for k, v in enumerate(views):
        fault, kind, args = sc.ops[k]
        crashed = fault != "N" and fault[0] == "C"
        if not fired(fault, v):
            fault = "N"
        inc = incoherent(v)
        just_loaded = prev is None or not prev.loaded
        for key, det in inc.items():
            if key in prev_inc and not just_loaded:
                # already incoherent before this request: the request that made it so has been reported; whatever
                # this request does to an already diverged field is a consequence, not a new root cause
                continue
            if just_loaded and fault == "N" and kind == "sub" and not _sub_changes(sc, k):
                # the cache was built by the load path in this very request
                law = "load-path-" + key[0]
            else:
                law = classify(sc, k, prev, v, key, det)
            res.append((law, k, "%s after %s %s" % (det, kind, args), key))
        # an acknowledged access mode is the stored access mode (theorem c08_acs_ack_is_stored): every
        # {ctrl 200 params.acs=want/given} of a {sub}/{set sub} names the live stored row of the user it is about
        if kind in ("sub", "setsub") and args:
            for sid, t in v.frames:
                if sid != args[0] or not t.startswith("ctrl 200 ") or " acs=" not in t:
                    continue
                d = kvs(t)
                subject = int(d["user"]) if d.get("user", "0") != "0" else sc.sessions.get(args[0])
                aw, ag = d["acs"].split("/")
                row = v.subs.get(subject)
                if row is not None and not row["deleted"] and not just_loaded and \
                   all((f, subject) in prev_inc for f, a in (("want", aw), ("given", ag)) if row[f] != a):
                    # the differing mode had diverged BEFORE this request (hypothesis inv of the theorem): the request
                    # that made it so has been reported (e.g. offline-setsub-stale-cache); this is its consequence
                    continue
                if row is None or row["deleted"] or row["want"] != aw or row["given"] != ag:
                    res.append(("ack-acs-not-stored", k, "%s %s acknowledged acs=%s/%s for user %s but the stored subscription is %s"
                                % (kind, args, aw, ag, subject,
                                   "absent" if row is None else "%s/%s deleted=%d" % (row["want"], row["given"], row["deleted"])), None))
        # a rejected or failed request changes neither the store nor the cache
        if prev is not None and kind in MUTATING + QUERIES and args:
            code = reply_code(v, args[0])
            rejected = code is not None and code >= 400
            if rejected:
                banned = None
                if fault == "N" and kind in ("sub", "setsub") and code == 403 and (kind == "sub" or args[1] in (0, sc.sessions.get(args[0]))):
                    a = sc.sessions.get(args[0])
                    bs, as_ = prev.subs.get(a), v.subs.get(a)
                    if bs and as_ and not as_["deleted"] and "J" not in as_["given"] and "J" in as_["want"] and bs["given"] == as_["given"] \
                       and bs["want"] != as_["want"]:
                        banned = "banned-user-request-rejected-but-want-changed"
                if v.b["store"] != prev.b["store"]:
                    ch = [l for l in v.b["store"] if l not in prev.b["store"]]
                    law = banned or "reject-changes-store"
                    if fault != "N":
                        if kind == "pub" and all(l.startswith("topic ") for l in ch):
                            law = "failed-publish-advances-stored-seqid"
                        elif kind == "delmsg":
                            law = "failed-delete-partly-stored"
                    res.append((law, k, "%s %s answered %d but the stored rows changed: %s" % (kind, args, code, ch[:4]), None))
                if not crashed and prev.loaded and v.loaded and cache_core(prev) != cache_core(v):
                    res.append((banned or "reject-changes-cache", k, "%s %s answered %d but the cached state changed: %s -> %s" % (kind, args, code, cache_core(prev), cache_core(v)), None))
            elif kind in QUERIES:
                if v.b["store"] != prev.b["store"]:
                    res.append(("query-changes-store", k, "%s %s changed the stored rows" % (kind, args), None))
                if not crashed and prev.loaded and v.loaded and cache_core(prev) != cache_core(v):
                    res.append(("query-changes-cache", k, "%s %s changed the cached state" % (kind, args), None))
            elif code is None and kind in ("sub", "setsub") and fault != "N" and v.b["store"] != prev.b["store"]:
                res.append(("owner-transfer-partly-stored", k, "%s %s got no reply after a store fault and the stored rows changed: %s"
                            % (kind, args, [l for l in v.b["store"] if l not in prev.b["store"]][:4]), None))
        prev = v
        prev_inc = inc if v.loaded else {}
    return res


def _sub_changes(sc, k):
    """does the {sub} at k carry a mode (then its own handler, not the load path, may be at fault)"""
    return sc.ops[k][2][1] != "-"


# ---------------------------------------------------------------------------
# projection (correspondence and differential)

def frame_f(t):
    return t.startswith(("ctrl ", "desc ", "sub ", "del ", "data "))


def line_f(kind, l):
    if kind == "store":
        return l
    if l.startswith("user "):
        return re.sub(r" online=\S+", "", l)
    if l.startswith("sess "):
        return None
    return l


def answers(block):
    d = {}
    for sid, t in block["frames"]:
        if frame_f(t) and sid != 0:
            d.setdefault(sid, []).append(t)
    return d


def diff_kinds(a_block, b_block, query):
    """field kinds in which two blocks (base, variant) differ on the differential's projection"""
    kinds = set()
    det = []
    if query:
        a, b = answers(a_block), answers(b_block)
        if a != b:
            for sid in sorted(set(a) | set(b)):
                fa, fb = a.get(sid, []), b.get(sid, [])
                if fa == fb:
                    continue
                det.append(("answer to session %d" % sid, fa, fb))
                if len(fa) != len(fb):
                    kinds.add("shape")
                    continue
                for x, y in zip(fa, fb):
                    if x == y:
                        continue
                    wx, wy = x.split(), y.split()
                    if wx[0] != wy[0] or len(wx) != len(wy):
                        kinds.add("shape")
                    elif wx[0] == "desc":
                        dx, dy = kvs(x), kvs(y)
                        for f in dx:
                            if dx[f] != dy.get(f):
                                kinds.add({"acs": "acs", "seq": "seq", "read": "desc-marks", "recv": "desc-marks", "del": "delid"}.get(f, f))
                                if f in ("read", "recv"):
                                    # the marks replyGetDesc REPORTS (read, max(recv, read)), and to whom
                                    kinds.add("desc-marks:S%d" % sid)
                    elif wx[0] == "sub":
                        for rx, ry in zip(wx[1:], wy[1:]):
                            fx, fy = rx.split(":"), ry.split(":")
                            if fx[0] != fy[0]:
                                kinds.add("member")
                            if fx[1] != fy[1]:
                                kinds.add("acs")
                            if fx[2:4] != fy[2:4]:
                                kinds.add("marks")
                            if fx[4] != fy[4]:
                                kinds.add("delid")
                    elif wx[0] == "ctrl":
                        kinds.add("ctrl")
                    else:
                        kinds.add(wx[0])
    sa, sb = a_block["store"], b_block["store"]
    if sa != sb:
        only_a = [l for l in sa if l not in sb]
        only_b = [l for l in sb if l not in sa]
        det.append(("stored rows", only_a, only_b))
        for l in only_a + only_b:
            w = l.split()
            if w[0] == "sub":
                other = [m for m in (only_b if l in only_a else only_a) if m.startswith("sub %s " % w[1])]
                if not other:
                    kinds.add("member")
                else:
                    o = other[0].split()
                    if w[2] != o[2] or w[6] != o[6]:
                        kinds.add("acs")
                    if w[3:5] != o[3:5]:
                        kinds.add("marks")
                    if w[5] != o[5]:
                        kinds.add("delid")
            elif w[0] == "topic":
                other = [m for m in (only_b if l in only_a else only_a) if m.startswith("topic ")]
                if other:
                    dx, dy = kvs(l), kvs(other[0])
                    for f in dx:
                        if dx[f] != dy.get(f):
                            kinds.add({"seqid": "seq", "delid": "delid", "owner": "owner"}[f])
                else:
                    kinds.add("topic")
            else:
                kinds.add(w[0])
    return kinds, det


def reload_ops(view_before, how):
    att = sorted(view_before.csess) if view_before is not None and view_before.loaded else []

    def again(s):
        # a mode-less {sub} re-attaches a session without changing anything - except for a user whose want has no J
        # (attached by re-stating that want, branch t-same): there it would un-self-ban.  Such a session comes back
        # the way it came, with its current want spelled out.
        p = view_before.cusers.get(view_before.csess[s])
        return T.hx(p["want"]) if p is not None and "J" not in p["want"] else "-"
    back = [("N", "sub", [s, again(s), 0]) for s in att]
    if how == "unload":
        return [("N", "leave", [s, 0]) for s in att] + [("N", "unload", [])] + back
    return [("N", "restart", [])] + back


def variant_of(sc, views, p, how, vid):
    ins = reload_ops(views[p - 1] if p > 0 else None, how)
    c = sc.clone(sc.ops[:p] + ins + sc.ops[p:])
    c.id = vid
    c.head = [re.sub(r"^scn \S+", "scn " + vid, sc.head[0])] + sc.head[1:]
    return c, len(ins)


def compare_variant(sc, base_blocks, var_blocks, p, nins):
    """first request at or after the insertion point whose projection differs: (k, kinds, detail) or None"""
    if p > 0 and nins:
        vb, va = View(base_blocks[p - 1]), View(var_blocks[p + nins - 1])
        if vb.loaded and vb.csess != (va.csess if va.loaded else {}):
            # the perturbation is "the cache is rebuilt by the load path with the SAME sessions attached again" (reload of
            # Sys/TopicCohC08.v keeps c_sess).  Here a session did not come back: it had been attached by a request that a
            # plain re-attach does not repeat (a subscriber whose grant lacks J, C07's banned-user-attached finding).  Not
            # the same experiment: nothing after this point is comparable.
            return None
        # the reload itself changes no stored row
        kinds, det = diff_kinds(base_blocks[p - 1], var_blocks[p + nins - 1], False)
        if kinds:
            return p - 1, kinds, det, True
    for k in range(p, len(sc.ops)):
        if sc.ops[k][0] != "N" and _names(base_blocks[k]["calllog"]) != _names(var_blocks[k + nins]["calllog"]):
            # Fail(k)/Crash(k) counts the adapter calls of the request; here the request makes a different sequence of
            # calls in the two runs (typically: the perturbed run has to load the topic first, because the idle unload
            # removed a topic that had stayed loaded without sessions), so the SAME fault plan hits a different call:
            # the two runs are no longer the same experiment, nothing after this point is comparable
            return None
        kinds, det = diff_kinds(base_blocks[k], var_blocks[k + nins], sc.ops[k][1] in QUERIES)
        if kinds:
            return k, kinds, det, False
    return None


def _names(calllog):
    return [c.split("!")[0] for c in calllog.split()]


def attribute(sc, views, fails, p, k, kinds, base_blocks, var_blocks, nins, during):
    """law name of a differential failure: the root cause already raised by the coherence monitor on the
    unperturbed run when one explains it (then the reload only makes that defect visible), else reload-visible"""
    if p == 0:
        return "reload-visible"
    inc = incoherent(views[p - 1])
    act = sorted(set((law, key) for law, j, _, key in fails if j < p and key is not None and key in inc))
    active = sorted(set(law for law, _ in act))
    base = set(x.split(":")[0] for x in kinds)
    if not active:
        fault, kind, args = sc.ops[k]
        if not during and k > 0 and kind == "note" and args[1] == "recv" and views[k - 1].loaded \
           and args[0] not in views[k - 1].csess and var_blocks[k + nins - 1]["loaded"] == "0" and base <= {"marks", "desc-marks"}:
            return DETACHED_RECV
        return "reload-visible"
    if all(a in ROOT_MARKS for a in active):
        # what each reproduced marks defect explains (theorems c08_getdesc_same_modulo_recv_lag / c08_reported_marks_reload_invisible):
        # note-read-recv-cached-only is about the cached recv ITSELF - the stored recv (and {get sub}, which reads the store) may
        # differ once a later {note recv} is judged against it; what {get desc} REPORTS (read, max(recv, read)) may not.  The two
        # publisher defects put marks into the cache that the store never got: there {get desc} of THAT user differs too.
        if not base <= {"marks", "desc-marks"}:
            return "reload-visible"
        for x in kinds:
            if x.startswith("desc-marks:S"):
                u = sc.sessions.get(int(x.split(":S")[1]))
                if not any(law in MARKS_EXPLAIN_DESC and key[1] == u for law, key in act):
                    return "reload-visible"
        if "marks" not in base:
            return next(law for law, key in act if law in MARKS_EXPLAIN_DESC)
    return active[0]


def probes(rng, sc):
    sids = sorted(sc.sessions)
    full = set(rng.sample(sids, min(3, len(sids))))
    ops = []
    for s in sids:
        ops.append(("N", "getdesc", [s]))
        ops.append(("N", "getsub", [s]))
        if s in full:
            ops.append(("N", "getdata", [s, 0, 0, 0]))
            ops.append(("N", "getdel", [s, 0, 0, 0]))
    return ops


def gen_marks_c08d(ctx, count):
    """histories aimed at the marks {get desc} reports: the owner publishes, readers send {note recv a} / {note read b}
    with b above, at and below their received mark (read-above-recv is the trigger of note-read-recv-cached-only),
    ask {get desc} / {get sub}; the differential reloads right after the notes"""
    rng = ctx.rng
    res = []
    for i in range(count):
        sc = T.gen_setup(rng, "mk%d" % i, "msg")
        sids = sorted(sc.sessions)
        ops = [("N", "sub", [s, "-", 0]) for s in sids]
        owner_s = [s for s in sids if sc.sessions[s] == 1][0]
        last = 0
        for _ in range(rng.randint(2, 4)):
            for _ in range(rng.randint(1, 3)):
                ops.append(("N", "pub", [owner_s, 100 + len(ops), 0]))
                last += 1
            for s in rng.sample(sids, min(len(sids), rng.randint(1, 3))):
                r = rng.random()
                if r < 0.45:
                    ops.append(("N", "note", [s, "read", rng.randint(max(1, last - 1), last)]))
                elif r < 0.65:
                    a = rng.randint(1, last)
                    ops.append(("N", "note", [s, "recv", a]))
                    ops.append(("N", "note", [s, "read", rng.choice([a, min(last, a + 1), max(1, a - 1)])]))
                elif r < 0.8:
                    ops.append(("N", "note", [s, "recv", rng.randint(1, last)]))
                else:
                    ops.append(("N", "leave", [s, 0]))
                    ops.append(("N", "note", [s, "recv", rng.randint(1, last)]))
                    ops.append(("N", "sub", [s, "-", 0]))
                if rng.random() < 0.5:
                    ops.append(("N", rng.choice(["getdesc", "getdesc", "getsub"]), [s]))
        sc.ops = ops
        res.append(sc)
    return res


# ---------------------------------------------------------------------------

def run_impl_guarded(ctx, scns, tag):
    """T.run_impl with a watchdog: the driver waits for quiescence without a wall-clock bound in a few
    places (session cleanUp at restart); a run that stops making progress is killed with SIGQUIT, its
    goroutine dump is kept, and the batch is run once more (a hang is C14's business, not a C08 verdict)."""
    import signal
    import subprocess
    nops = sum(len(sc.ops) for sc in scns)
    budget = 180 + nops * 0.03
    for attempt in (1, 2):
        fin = os.path.join(ctx.work, "scn_%s.in" % tag)
        fout = os.path.join(ctx.work, "scn_%s.impl" % tag)
        with open(fin, "w") as f:
            for sc in scns:
                f.write("\n".join(sc.lines()) + "\n")
        if os.path.exists(fout):
            os.remove(fout)
        env = dict(vlib.GOENV, VERIF_IN=fin, VERIF_OUT=fout)
        p = subprocess.Popen([os.path.join(vlib.BUILD, "maindrv.test"), "-test.run", PERM.TEST_NAME, "-test.count=1", "-test.timeout=3000s"],
                             stdout=subprocess.PIPE, stderr=subprocess.STDOUT, env=env, cwd=os.path.join(vlib.REPO, "server"))
        try:
            out, _ = p.communicate(timeout=budget)
            hung = False
        except subprocess.TimeoutExpired:
            p.send_signal(signal.SIGQUIT)
            try:
                out, _ = p.communicate(timeout=30)
            except subprocess.TimeoutExpired:
                p.kill()
                out, _ = p.communicate()
            hung = True
        out = out.decode("utf8", "replace")
        if hung:
            dump = os.path.join(ctx.work, "hang_%s_%d.log" % (tag, attempt))
            open(dump, "w").write(out)
            ctx.notes.append("driver batch '%s' (%d requests) made no progress within %.0f s and was killed (attempt %d); goroutine dump in %s"
                             % (tag, nops, budget, attempt, dump))
            if attempt == 1:
                continue
        lines = open(fout).read().split("\n") if os.path.exists(fout) else []
        log = "\n".join(l for l in out.split("\n") if not (len(l) > 3 and l[0] in "IWE" and l[1:3] == "20"))
        return (1 if hung else p.returncode), T.parse_blocks(lines), log
    return 1, {}, ""


def run_impl_plain(ctx, scns, tag="t"):
    """topiclib.run_impl through this property's own driver entry (TestVerifC08cPerm: the topic driver + ghost users)"""
    import subprocess
    fin = os.path.join(ctx.work, "scn_%s.in" % tag)
    fout = os.path.join(ctx.work, "scn_%s.impl" % tag)
    with open(fin, "w") as f:
        for sc in scns:
            f.write("\n".join(sc.lines()) + "\n")
    if os.path.exists(fout):
        os.remove(fout)
    env = dict(vlib.GOENV, VERIF_IN=fin, VERIF_OUT=fout)
    try:
        p = subprocess.run([os.path.join(vlib.BUILD, "maindrv.test"), "-test.run", PERM.TEST_NAME, "-test.count=1", "-test.timeout=600s"],
                           stdout=subprocess.PIPE, stderr=subprocess.STDOUT, env=env, cwd=os.path.join(vlib.REPO, "server"), timeout=700)
    except subprocess.TimeoutExpired:
        return 1, {}, "timeout"
    out = p.stdout.decode("utf8", "replace")
    lines = open(fout).read().split("\n") if os.path.exists(fout) else []
    log = "\n".join(l for l in out.split("\n") if not (len(l) > 3 and l[0] in "IWE" and l[1:3] == "20"))
    return p.returncode, T.parse_blocks(lines), log


def run_and_view(ctx, scns, tag):
    rc, impl, log = run_impl_guarded(ctx, scns, tag)
    bad = next((sc for sc in scns if sc.id not in impl or len(impl[sc.id]) != len(sc.ops)), None)
    if rc != 0 or bad is not None:
        ctx.violation("monitor", "server-crashed", "the server process died or stopped answering while running scenario %s: %s"
                      % (bad.id if bad else "?", log[-1500:]),
                      {"head": bad.head if bad else [], "ops": bad.ops if bad else [], "log": log[-4000:]})
        finish(ctx)
    return impl


def mon(sc, blocks):
    views = [View(b) for b in blocks]
    res = monitor(sc, views)
    for k, b in enumerate(blocks):
        if b["hang"]:
            res.append(("hang", k, b["hang"], None))
    return views, res


def finish(ctx):
    ctx.finish()


def run(ctx):
    extra = []
    if os.path.exists(os.path.join(vlib.COQ, "Props", "PropC08Desc.v")):
        extra.append(os.path.join("Props", "PropC08Desc.v"))
    ctx.coq_props(extra)
    vlib.proof_violation(ctx)
    ok, out = ctx.build_runner()
    if not ok:
        ctx.violation("proof", "extraction-broken", "model extraction/runner build failed: " + out[-1500:],
                      {"theorem_or_obligation": "extraction of the model"})
        finish(ctx)
    ok, out = ctx.build_main()
    if not ok:
        ctx.violation("corr", "harness-build-broken", "package-main driver no longer builds against /repo: " + out[-1500:],
                      {"correspondence": "build of harness/overlay against /repo/server"})
        finish(ctx)
    quick = ctx.tier == "quick"
    rng = ctx.rng
    stats = {}
    phase = {"proofs_and_builds": round(time.time() - ctx.t0, 1)}

    # ---- base histories
    scns = []
    every = {}          # scenario id -> perturb at every position
    guided = set()      # ids of the model-guided permission histories
    marksd = set()      # ids of the marks histories (gen_marks_c08d)
    replay_ins = None
    if ctx.replay and json.load(open(ctx.replay))["replay"].get("part") == "chan":
        # a replay of the channel part
        from props import c08chan as c08ch
        ctx.coverage["chan_part"] = c08ch.replay_part(ctx, json.load(open(ctx.replay))["replay"])
        ctx.coverage.setdefault("trusted_base", [])
        finish(ctx)
    if ctx.replay and json.load(open(ctx.replay))["replay"].get("part") == "kinds":
        # a replay of the p2p part
        from props import c08kinds as c08k
        ctx.coverage["p2p_part"] = c08k.replay_part(ctx, json.load(open(ctx.replay))["replay"])
        ctx.coverage.setdefault("trusted_base", [])
        finish(ctx)
    if ctx.replay and json.load(open(ctx.replay))["replay"].get("part") == "desc":
        # a replay of the description/tags part
        from props import c08desc as c08d
        ctx.coverage["desc_part"] = c08d.replay_part(ctx, json.load(open(ctx.replay))["replay"])
        ctx.coverage.setdefault("trusted_base", [])
        finish(ctx)
    if ctx.replay:
        rp = json.load(open(ctx.replay))["replay"]
        sc = T.Scn(rp["head"][0].split()[1])
        sc.head = rp["head"]
        sc.ops = [(o[0], o[1], list(o[2])) for o in rp["ops"]]
        for l in sc.head:
            w = l.split()
            if w[0] == "sess":
                sc.sessions[int(w[1])] = int(w[2])
        sc.nusers = len([l for l in sc.head if l.startswith("user ")])
        scns = [sc]
        if "insert_at" in rp:
            replay_ins = (rp["insert_at"], rp.get("how", "unload"))
    else:
        cdir = os.path.join(vlib.ROOT, "corpus", ctx.pid)
        if os.path.isdir(cdir):
            for f in sorted(os.listdir(cdir)):
                rp = json.load(open(os.path.join(cdir, f)))
                sc = T.Scn("c_" + f.split(".")[0])
                sc.head = [("scn %s " % sc.id + " ".join(rp["head"][0].split()[2:]))] + rp["head"][1:]
                sc.ops = [(o[0], o[1], list(o[2])) for o in rp["ops"]]
                for l in sc.head:
                    w = l.split()
                    if w[0] == "sess":
                        sc.sessions[int(w[1])] = int(w[2])
                sc.nusers = len([l for l in sc.head if l.startswith("user ")])
                scns.append(sc)
                every[sc.id] = True
        total = 80 if quick else 400
        # the permission share of the random profiles is smaller than it was: the model-guided permission
        # histories below take their place
        for pi, (profile, faults, share) in enumerate([("msg", 0.0, 0.35), ("msg", 0.15, 0.2), ("perm", 0.0, 0.1), ("perm", 0.15, 0.1)]):
            for sc in T.gen_scenarios(ctx, max(1, int(total * share)), profile, faults, nops=(6, 20), prefix="p%d_" % pi):
                sc.ops = sc.ops + probes(rng, sc)
                scns.append(sc)
        for sc in gen_marks_c08d(ctx, 10 if quick else 80):
            sc.ops = sc.ops + probes(rng, sc)
            scns.append(sc)
            marksd.add(sc.id)
        gscns, _, gcov = PERM.gen_guided(ctx, 28 if quick else 150, extra_max=20)
        for sc in gscns:
            sc.ops = sc.ops + probes(rng, sc)
            scns.append(sc)
            guided.add(sc.id)
    phase["generation"] = round(time.time() - ctx.t0 - phase["proofs_and_builds"], 1)
    t0 = time.time()
    impl = run_and_view(ctx, scns, "base")
    t_impl = time.time() - t0
    rc, model, branches, err = PERM.run_model_branches(ctx, scns)
    if rc != 0:
        ctx.violation("proof", "runner-crashed", "model runner failed: " + err[-1500:], {"theorem_or_obligation": "model runner"})
        finish(ctx)

    # ---- coherence monitor on the implementation's trace
    views, fails = {}, {}
    by_law = {}
    for sc in scns:
        views[sc.id], fails[sc.id] = mon(sc, impl[sc.id])
        for law, k, detail, key in fails[sc.id]:
            by_law.setdefault(law, []).append((sc, k, detail))
    known = set(f["key"] for f in ctx.load_findings() if f["property"] == ctx.pid)
    nshrunk = 0
    for law, lst in sorted(by_law.items()):
        sc, k, detail = min(lst, key=lambda x: (x[1], len(x[0].ops)))
        small = sc.clone(sc.ops[:k + 1])
        if law not in known and nshrunk < 4 and not ctx.replay:
            nshrunk += 1

            def still_bad(c, law=law):
                rc2, im2, _ = run_impl_plain(ctx, [c], tag="shrink")
                return rc2 == 0 and c.id in im2 and len(im2[c.id]) == len(c.ops) and any(l == law for l, _, _, _ in mon(c, im2[c.id])[1])
            small = T.shrink(ctx, small, still_bad, budget=20 if quick else 120)
        ctx.violation("monitor", law, "law %s fails on the implementation's trace (%d requests this run): %s" % (law, len(lst), detail),
                      {"head": small.head, "ops": small.ops, "law": law, "detail": detail, "requests_failing": len(lst)})

    # ---- model-vs-implementation correspondence on this property's projection
    mism = []
    for sc in scns:
        io, mo = impl[sc.id], model.get(sc.id, [])
        if len(io) != len(mo):
            mism.append((sc, -1, [("shape", len(io), len(mo))]))
            continue
        for k in range(len(io)):
            d = T.diff_op(io[k], mo[k], ("frames", "loaded", "store", "cache"), frame_f, line_f)
            if d:
                mism.append((sc, k, d))
                break

    # ---- reload / restart differential on the real server
    variants = []       # (variant scn, base scn, p, nins, how)
    reload_after = {}   # branch -> perturbed runs with the reload right after a request of that branch
    if ctx.replay:
        if replay_ins:
            c, nins = variant_of(scns[0], views[scns[0].id], replay_ins[0], replay_ins[1], "v0")
            variants.append((c, scns[0], replay_ins[0], nins, replay_ins[1]))
    else:
        n_every = 3 if quick else 60
        plain = [sc for sc in scns if sc.id not in guided and sc.id not in marksd]
        pick_every = set(sc.id for sc in rng.sample(plain, min(n_every, len(plain)))) | set(every)
        for sc in scns:
            n = len(sc.ops)
            if sc.id in pick_every:
                pos = [(p, PERTURB[(p + len(variants)) % 2] if quick else None) for p in range(1, n + 1)]
            elif sc.id in guided:
                # reload RIGHT AFTER permission requests, the positions spread over the branches: the ones whose
                # branch has had the fewest reloads so far (thorough: after every permission request)
                cand = sorted(branches.get(sc.id, {}).items())
                if quick:
                    rng.shuffle(cand)
                    cand.sort(key=lambda kb: reload_after.get(kb[1], 0))
                    cand = cand[:2]
                pos = []
                for k, b in cand:
                    reload_after[b] = reload_after.get(b, 0) + 1
                    pos.append((k + 1, PERTURB[(k + len(variants) + len(pos)) % 2]))
            elif sc.id in marksd:
                # reload RIGHT AFTER {note} requests (quick: two of them; thorough: every one, both ways)
                cand = [k + 1 for k, o in enumerate(sc.ops) if o[1] == "note"]
                if quick:
                    cand = rng.sample(cand, min(2, len(cand)))
                pos = [(p, PERTURB[(p + len(variants)) % 2] if quick else None) for p in sorted(cand)]
            elif quick:
                pos = [(rng.randint(1, n), rng.choice(PERTURB))]
            else:
                pos = [(rng.randint(1, n), None)]
            for p, how in pos:
                for h in ([how] if how else PERTURB):
                    c, nins = variant_of(sc, views[sc.id], p, h, "%s_%s%d" % (sc.id, h[0], p))
                    variants.append((c, sc, p, nins, h))
    dfails = {}
    t1 = time.time()
    if variants:
        vimpl = {}
        for i in range(0, len(variants), 400):
            vimpl.update(run_and_view(ctx, [v[0] for v in variants[i:i + 400]], "var"))
        for c, sc, p, nins, how in variants:
            # straight after the reload the cache was built by the load path alone
            for j in range(p, p + nins):
                vj = View(vimpl[c.id][j])
                if vj.loaded and (j == 0 or vimpl[c.id][j - 1]["loaded"] == "0"):
                    for key, det in incoherent(vj).items():
                        dfails.setdefault("load-path-" + key[0], []).append((sc, p, how, p, {key[0]}, [("cache after the reload", det)]))
                    break
            r = compare_variant(sc, impl[sc.id], vimpl[c.id], p, nins)
            if r is None:
                continue
            k, kinds, det, during = r
            law = attribute(sc, views[sc.id], fails[sc.id], p, k, kinds, impl[sc.id], vimpl[c.id], nins, during)
            dfails.setdefault(law, []).append((sc, p, how, k, kinds, det))
    t_var = time.time() - t1
    for law, lst in sorted(dfails.items()):
        sc, p, how, k, kinds, det = min(lst, key=lambda x: (x[3], len(x[0].ops)))
        small, sp = sc.clone(sc.ops[:k + 1]), p
        if law not in known and not ctx.replay:
            small, sp = shrink_variant(ctx, small, p, how, law, budget=30 if quick else 240)
        what = ("the cache built by the load path differs from the stored rows after the topic is reloaded (%s) before request %d of this history"
                if law.startswith("load-path-") else
                "the real server answers differently when the topic is reloaded (%s) before request %d of this history") % (how, sp)
        ctx.violation("monitor", law,
                      "%s: first difference at request %d %s, fields %s: %s (%d perturbed runs differ this way)"
                      % (what, k, sc.ops[min(k, len(sc.ops) - 1)], sorted(kinds), json.dumps(det, default=str)[:600], len(lst)),
                      {"head": small.head, "ops": small.ops, "insert_at": sp, "how": how, "law": law, "fields": sorted(kinds), "detail": det})

    t_sw = time.time()
    # ---- fault sweep: Fail(k)/Crash(k) at every adapter call of every mutating request
    # (thorough: all; quick: a sample stratified by (request kind, call index, F/C))
    sweep = 0
    sweep_br = {}
    if not ctx.replay:
        sw = []
        for sc in scns:
            if any(o[0] != "N" for o in sc.ops):
                continue
            for p, o in enumerate(sc.ops):
                if o[1] not in MUTATING:
                    continue
                ncalls = impl[sc.id][p]["calls"] or 0
                for kk in range(1, ncalls + 1):
                    for fc in "FC":
                        if o[1] == "note" and fc == "C":
                            continue
                        c = sc.clone(sc.ops[:p] + [(fc + str(kk), o[1], o[2])] + sc.ops[p + 1:p + 6])
                        c.id = "%s_%s%d_%d" % (sc.id, fc, kk, p)
                        c.head = [re.sub(r"^scn \S+", "scn " + c.id, sc.head[0])] + sc.head[1:]
                        br = branches.get(sc.id, {}).get(p) if sc.id in guided else None
                        sw.append((c, sc, p, (o[1], kk, fc, ncalls) + ((br,) if br else ())))
        rng.shuffle(sw)
        if quick:
            per = {}
            pick = []
            for x in sw:
                # 4 runs per (kind, call, F/C, calls); 1 more per (.., branch) for the guided permission requests
                if per.get(x[3], 0) < (4 if len(x[3]) == 4 else 1):
                    per[x[3]] = per.get(x[3], 0) + 1
                    pick.append(x)
            pick.sort(key=lambda x: len(x[3]))
            sw = pick[:240] + [x for x in pick[240:] if len(x[3]) == 5][:80]
        else:
            sw = sw[:4000]
        sweep = len(sw)
        for x in sw:
            if len(x[3]) == 5:
                sweep_br[x[3][4]] = sweep_br.get(x[3][4], 0) + 1
        stats["sweep_strata"] = len(set(x[3] for x in sw))
        for i in range(0, len(sw), 400):
            part = sw[i:i + 400]
            simpl = run_and_view(ctx, [x[0] for x in part], "sweep")
            for c, sc, p, _ in part:
                vs, fl = mon(c, simpl[c.id])
                code = reply_code(vs[p], c.ops[p][2][0])
                if code is not None and 200 <= code < 300 and simpl[c.id][p]["store"] != impl[sc.id][p]["store"]:
                    kinds, det = diff_kinds(impl[sc.id][p], simpl[c.id][p], False)
                    law = "publisher-marks-store-error-ignored" if c.ops[p][1] == "pub" and kinds <= {"marks"} else "ack-not-stored"
                    fl.append((law, p, "request %s answered %d under %s but the stored rows differ from the fault-free run: %s"
                               % (c.ops[p], code, c.ops[p][0], json.dumps(det)[:400]), None))
                seen = set()
                for law, k, detail, key in fl:
                    if k < p or law in seen:
                        continue
                    seen.add(law)
                    by_law.setdefault(law, []).append((c, k, detail))
                    if not any(v["key"] == law for v in ctx.violations):
                        ctx.violation("monitor", law, "law %s fails on the implementation's trace (fault sweep): %s" % (law, detail),
                                      {"head": c.head, "ops": c.ops[:k + 1], "law": law, "detail": detail})

    phase["fault_sweep"] = round(time.time() - t_sw, 1)
    # ---- correspondence verdict
    nfail = len(ctx.violations)
    searched = 0
    if mism and not [v for v in ctx.violations if v["key"] not in known]:
        sc, k, d = min(mism, key=lambda x: len(x[0].ops))
        base = sc.clone(sc.ops[:k + 1]) if k >= 0 else sc
        pool = []
        for j in range(40 if quick else 400):
            c = base.clone(list(base.ops))
            c.id = "n%d" % j
            c.head = [re.sub(r"^scn \S+", "scn " + c.id, base.head[0])] + base.head[1:]
            extra = T.gen_ops(rng, T.gen_setup(rng, "x", "msg"), rng.choice(["msg", "perm"]), rng.randint(1, 6), 0.0).ops
            c.ops = c.ops + [o for o in extra if not o[2] or o[2][0] in base.sessions] + probes(rng, base)
            pool.append(c)
        found = False
        rc2, im2, _ = run_impl_plain(ctx, pool, tag="search")
        searched = len(pool)
        if rc2 == 0:
            for c in pool:
                if c.id in im2 and len(im2[c.id]) == len(c.ops):
                    for law, kk, detail, key in mon(c, im2[c.id])[1]:
                        if law in known:
                            continue
                        ctx.violation("monitor", law, "law %s fails on the implementation's trace: %s" % (law, detail),
                                      {"head": c.head, "ops": c.ops[:kk + 1], "law": law, "detail": detail,
                                       "found_by": "search near a correspondence mismatch"})
                        found = True
                        break
                if found:
                    break
        if not found:
            ctx.violation("corr", "correspondence-" + (sc.ops[k][1] if k >= 0 else "shape"),
                          "model and implementation disagree on %d of %d histories on this property's projection; first (prefix): request %d %s: %s; no law failure found on %d neighbouring histories"
                          % (len(mism), len(scns), k, sc.ops[k] if k >= 0 else "", json.dumps(d, default=str)[:800], searched),
                          {"correspondence": "projection of C08", "head": base.head, "ops": base.ops, "diff": d})

    # ---- second part: description / default access / tags / public / private
    desc_cov = None
    try:
        from props import c08desc
    except ImportError:
        c08desc = None
    if c08desc is not None and not ctx.replay:
        desc_cov = c08desc.run_part(ctx)

    # ---- third part: p2p topics (offline / live {set sub}, name forms, reload)
    kinds_cov = None
    if not ctx.replay:
        from props import c08kinds
        kinds_cov = c08kinds.run_part(ctx)
    # ---- fourth part: private / public data of channel-enabled group topics
    chan_cov = None
    if not ctx.replay:
        from props import c08chan
        chan_cov = c08chan.run_part(ctx)

    # ---- coverage
    nt = set()
    kinds_c, codes, faults_seen = {}, {}, {}
    nops = 0
    for sc in scns:
        sig = []
        acc = False
        for k, o in enumerate(sc.ops):
            nops += 1
            kinds_c[o[1]] = kinds_c.get(o[1], 0) + 1
            if o[0] != "N":
                faults_seen[o[0]] = faults_seen.get(o[0], 0) + 1
            for sid, t in impl[sc.id][k]["frames"]:
                if t.startswith("ctrl "):
                    cd = t.split()[1]
                    codes[cd] = codes.get(cd, 0) + 1
                    if cd in ("200", "202") and o[1] in MUTATING:
                        acc = True
            sig.append((o, tuple(impl[sc.id][k]["frames"])))
        if acc:
            nt.add(hash(tuple(map(repr, sig))))
    ctx.coverage.update({
        "evaluations": len(scns) + len(variants) + sweep, "distinct_nontrivial": len(nt),
        "rule": "seeded random histories over one group topic (profiles msg and perm of topiclib: 2-5 users x 1-2 sessions, seeded subscriptions with assorted want/given; pub/note/get*/delmsg/leave/sub/setsub/delsub/unload/restart, 6-20 requests, about a third with single store faults F k / C k) plus MODEL-GUIDED permission histories (tools/props/c08perm.py: 3-5 users + one user id that is in no table, owner and member rows of 22 shapes, the extracted classifier perm_branch_c08c probed on candidate {sub}/{set sub} requests built from the model's current want/given - same, one bit more, one bit less, without J, with/without O, default, N, junk, every session and target - and the least-visited branch chosen; each followed by get sub / get desc from the requester, the target and a third session; movers leave/unsubscribe/evict/publish/unload+re-attach/restart), all followed by probe queries (getdesc+getsub for every session, getdata+getdel for three); each history is run unperturbed and with the topic reloaded (leave all; unload; re-attach) or the process restarted (restart; re-attach) before one random request (before EVERY request for %s histories; for the model-guided histories right after two permission requests each, spread over the branches) and every later query answer and the stored rows are compared; the Fail(k)/Crash(k) sweep over the adapter calls of mutating requests is stratified in the quick tier (request kind, call index, F/C, branch of a guided permission request) and complete up to 4000 runs in the thorough tier; non-trivial = at least one accepted mutating request; distinct by (requests, replies)" % ("5" if quick else "all"),
        "operations_executed": nops + sum(len(v[0].ops) for v in variants),
        "base_histories": len(scns), "perturbed_runs": len(variants), "fault_sweep_runs": sweep, "fault_sweep_strata": stats.get("sweep_strata", 0),
        "perturbed_runs_differing": {k: len(v) for k, v in dfails.items()},
        "monitor_laws_failing": {k: len(v) for k, v in by_law.items()},
        "samples": [{"head": sc.head, "ops": sc.ops, "impl_frames_last_op": impl[sc.id][-1]["frames"] if impl[sc.id] else []} for sc in scns[:2]],
        "traces_validated_against_impl": len(scns), "correspondence_mismatches": len(mism), "monitor_failures": nfail,
        "search_pool": searched,
        "input_distribution": {"op_kinds": kinds_c, "ctrl_codes": codes, "faults": faults_seen,
                               "users_per_scenario": sorted(set(sc.nusers for sc in scns)),
                               "ops_per_scenario_max": max(len(sc.ops) for sc in scns)},
        "impl_wall_s": round(t_impl, 1), "differential_wall_s": round(t_var, 1), "phase_wall_s": phase,
        "trusted_base": [
            "projection compared for C08: answers to getdesc/getsub/getdata/getdel, ctrl replies, every stored row of the topic (topic row, subscriptions, messages, deletion log), cached lastID/delID/owner and per-user want/given/read/recv/delID",
            "the reload perturbation is built from requests of the alphabet (leave without unsub for every attached session; idle unload through hub.unreg; re-attach with a {sub} that carries no mode), so it runs only real code",
            "harness/overlay/server/zz_verif_topic_test.go: drives the real Hub/Topic/Session code through Session.dispatchRaw, quiescence by goroutine-state snapshot; dumps Topic.perUser/lastID/delID/owner at quiescence; entry point of this property: harness/overlay/server/zz_verif_c08c_test.go (TestVerifC08cPerm: the same loop and helpers + 'ghost n' = a user id that is in no table, and the owner's grant of the scn line written with store.Subs.Update)",
            "tools/props/c08perm.py + harness/runner/r_c08c.ml: the generator's branch labels come from the extracted Coq classifier perm_branch_c08c evaluated on the MODEL's state; they decide what is generated and what the evidence counts, never a verdict",
            "harness/overlay/server/db/memverif: in-memory adapter written from db/mysql/adapter.go (store contract modelled, not verified; the SQL engines are not run)",
            "tools/props/c08.py monitors: python restatement of the load path (initTopicGrp/loadSubscribers) and of the property on the implementation's trace",
            "model scope: one group topic (non-channel), LevelAuth users, no attachments/calls/presence frames; set-desc/tags/public/private are covered by the separate model Sys/TopicDesc.v (c08desc.py) when present"],
    })
    if desc_cov:
        ctx.coverage["desc_part"] = desc_cov
    if kinds_cov:
        ctx.coverage["p2p_part"] = kinds_cov
    if chan_cov:
        ctx.coverage["chan_part"] = chan_cov
    # ---- branch distribution of the permission requests (labels by the extracted classifier perm_branch_c08c on the
    # model's state; model and implementation agree on every reply, stored row and cached mode of these histories
    # unless a correspondence mismatch is reported above)
    bdist, bcodes = {}, {}
    for sc in scns:
        for k, b in branches.get(sc.id, {}).items():
            bdist[b] = bdist.get(b, 0) + 1
            if sc.ops[k][0] != "N":
                continue
            code = None
            for sid_, t_ in (views[sc.id][k].frames if k < len(views[sc.id]) else []):
                if sid_ == sc.ops[k][2][0] and t_.startswith("ctrl ") and not t_.startswith("ctrl 205"):
                    code = int(t_.split()[1])
            bcodes.setdefault(b, {})
            bcodes[b][str(code)] = bcodes[b].get(str(code), 0) + 1
    unexpected = {}
    for b, cs in bcodes.items():
        for cd, cnt in cs.items():
            if b in PERM.EXPECT and cd not in PERM.EXPECT[b]:
                unexpected.setdefault(b, {})[cd] = cnt
    empty = [b for b in PERM.REQUIRED if not bdist.get(b)]
    ctx.coverage["perm_branches"] = {
        "rule": "branch of thisUserSub (t-*) / anotherUserSub (a-*) / replyOfflineTopicSetSub (o-*) taken by each {sub}/{set sub} request of the base histories, as labelled by the extracted Coq classifier PermBranchC08c.perm_branch_c08c in the state the request starts from; model-guided histories: %d of %d base histories" % (len(guided), len(scns)),
        "requests_per_branch": {b: bdist.get(b, 0) for b in PERM.REQUIRED},
        "other_labels": {b: c for b, c in bdist.items() if b not in PERM.REQUIRED},
        "required_branches": len(PERM.REQUIRED), "required_branches_empty": empty,
        "self_raise_requests": sum(bdist.get(b, 0) for b in PERM.RAISE),
        "implementation_reply_codes_per_branch": bcodes,
        "fault_free_replies_outside_the_branch_expectation": unexpected,
        "reloads_right_after_branch": reload_after,
        "fault_sweep_runs_per_branch": sweep_br,
    }
    if empty and not ctx.replay:
        ctx.notes.append("permission branches not visited by this run's generator: %s" % ", ".join(empty))
    if unexpected:
        ctx.notes.append("fault-free replies outside the expectation of the branch label (classifier vs implementation): %s" % json.dumps(unexpected))
    finish(ctx)


def shrink_variant(ctx, sc, p, how, law, budget):
    """delta-debug (history, insertion point) while the differential still fails with the same law"""
    marker = ("N", "@reload", [])
    ops = list(sc.ops[:p]) + [marker] + list(sc.ops[p:])
    holder = sc.clone(ops)

    def split(c):
        i = next((j for j, o in enumerate(c.ops) if o[1] == "@reload"), None)
        if i is None:
            return None, None
        return c.clone([o for o in c.ops if o[1] != "@reload"]), i

    def still_bad(c):
        base, i = split(c)
        if base is None or not base.ops or i == 0:
            return False
        rc, im, _ = run_impl_plain(ctx, [base], tag="shrink")
        if rc != 0 or base.id not in im or len(im[base.id]) != len(base.ops):
            return False
        vs, fl = mon(base, im[base.id])
        v, nins = variant_of(base, vs, i, how, base.id)
        rc, im2, _ = run_impl_plain(ctx, [v], tag="shrink2")
        if rc != 0 or v.id not in im2 or len(im2[v.id]) != len(v.ops):
            return False
        r = compare_variant(base, im[base.id], im2[v.id], i, nins)
        if r is None:
            return False
        k, kinds, det, during = r
        return attribute(base, vs, fl, i, k, kinds, im[base.id], im2[v.id], nins, during) == law
    small = T.shrink(ctx, holder, still_bad, budget=budget)
    base, i = split(small)
    if base is None:
        return sc, p
    return base, i
