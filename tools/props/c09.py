"""C09 read/received marks: theorems in coq/Props/PropC09.v over Sys/Topic.v (note,
publish, load); correspondence + monitor through the topic-history driver.

Scenarios: the shared random profiles of topiclib plus this plugin's MODEL-GUIDED note
scenarios (gen_guided): the extracted model is stepped alongside generation and every
note's sequence number is aimed at a boundary of a guard of handleNoteBroadcast computed
from the model's own marks (DESIGN.md 4.1).  The distribution (note kind x position of
seq relative to read/recv/lastID x outcome) is measured on the IMPLEMENTATION's trace and
written to the evidence."""
import json

from props import statelib
from props import topiclib as T
from props.statelib import eff, kvs, View

# kinds accepted by Session.note; anything else is an unknown kind
GO_NOTE_KINDS = ("read", "recv", "kp", "kpa", "kpv", "data", "call")


# ---------------------------------------------------------------------------
# the property on the implementation's trace

def note_class(prev, origin, actor, what, seq):
    """What the property demands for a note, judged on the implementation's own state
    before the request.  -> (class, why); classes:
      invalid      unknown kind, seq <= 0 (read/recv), seq != 0 (kp), seq beyond the latest message,
                   or a routed note for a topic that is not loaded      -> dropped silently
      stale        read/recv not above the sender's current mark (duplicates included) -> dropped silently
      unpermitted  read/recv without R, kp without W, sender not subscribed         -> dropped silently
      reply        read/kp from a session that is not attached: 409 (test-pinned, not an 'invalid note')
      valid        accepted
      other        kinds outside the modelled alphabet (kpa, kpv, data, call): no demand"""
    if what not in GO_NOTE_KINDS:
        return "invalid", "unknown kind"
    if what not in ("read", "recv", "kp"):
        return "other", ""
    if what in ("read", "recv") and seq <= 0:
        return "invalid", "seq <= 0"
    if what == "kp" and seq != 0:
        return "invalid", "typing note with a seq"
    attached = prev.loaded and origin in prev.csess
    if not attached:
        if what != "recv":
            return "reply", "not attached"
        if not prev.loaded:
            return "invalid", "topic not loaded"
    if seq > prev.topic.get("seqid", 0):
        return "invalid", "seq beyond the latest message"
    pud = prev.cusers.get(actor)
    mode = eff(pud["want"], pud["given"]) if pud else ""
    if what == "kp":
        return ("valid", "") if "W" in mode else ("unpermitted", "no W" if pud else "not subscribed")
    if "R" not in mode:
        return "unpermitted", ("no R" if pud else "not subscribed")
    if seq <= pud[what]:
        return "stale", "%s mark is %d" % (what, pud[what])
    return "valid", ""


def not_silent(prev, v):
    """ways in which the request was NOT dropped silently"""
    out = []
    if v.frames or v.pres:
        out.append("output %s" % (v.frames + v.pres))
    if v.b.get("calls"):
        out.append("%s adapter call(s) [%s]" % (v.b["calls"], v.b.get("calllog", "")))
    if v.b["store"] != prev.b["store"]:
        out.append("store changed: %s" % [l for l in v.b["store"] if l not in prev.b["store"]])
    if prev.loaded and v.loaded and v.b["cache"] != prev.b["cache"]:
        out.append("cache changed: %s" % [l for l in v.b["cache"] if l not in prev.b["cache"]])
    return out


_views = {}   # scenario id -> views of the main run (for the distribution)


def monitor(sc, views):
    res = []
    prev = None
    if sc.id not in _views:
        _views[sc.id] = views
    rep_desc, rep_sub = {}, {}     # user -> last (read, recv) reported to clients in {meta desc} / {meta sub}
    for k, v in enumerate(views):
        fault, kind, args = sc.ops[k]
        actor = sc.sessions.get(args[0]) if args else None
        seqid = v.topic.get("seqid", 0)
        reloaded = prev is None or not prev.loaded or not v.loaded or kind in ("unload", "restart") or fault[0] == "C"
        mine = kind == "note" and len(args) > 1
        # ---- bounds, everywhere the marks are stored or reported
        for u, s in v.subs.items():
            if s["deleted"]:
                continue
            if not (0 <= s["read"] <= s["recv"] <= seqid):
                if 0 <= s["read"] <= seqid and 0 <= s["recv"] <= seqid and s["read"] > s["recv"]:
                    p = prev.subs.get(u) if prev is not None else None
                    introduced = p is not None and not p["deleted"] and p["read"] <= p["recv"]
                    if introduced and not (mine and args[1] == "read" and actor == u):
                        # the recorded finding is: a READ note stores read alone; any other way in is new
                        res.append(("stored-read-gt-recv-introduced", k, "user %d stored read=%d > recv=%d after %s by user %s"
                                    % (u, s["read"], s["recv"], (kind, args), actor)))
                    else:
                        res.append(("stored-read-le-recv", k, "user %d stored read=%d > recv=%d" % (u, s["read"], s["recv"])))
                else:
                    res.append(("stored-marks-bounds", k, "user %d stored read=%d recv=%d latest=%d" % (u, s["read"], s["recv"], seqid)))
        if v.loaded:
            lastid = v.cache.get("lastid", 0)
            for u, p in v.cusers.items():
                if not (0 <= p["read"] <= p["recv"] <= lastid):
                    if 0 <= p["read"] <= lastid and 0 <= p["recv"] <= lastid:
                        q = prev.cusers.get(u) if (prev is not None and not reloaded) else None
                        if q is not None and q["read"] <= q["recv"]:
                            # the recorded finding enters the cache only through a reload of the stored rows
                            res.append(("cached-read-gt-recv-introduced", k, "user %d cached read=%d > recv=%d after %s by user %s"
                                        % (u, p["read"], p["recv"], (kind, args), actor)))
                        else:
                            res.append(("cached-read-le-recv", k, "user %d cached read=%d recv=%d lastid=%d" % (u, p["read"], p["recv"], lastid)))
                    else:
                        res.append(("cached-marks-bounds", k, "user %d cached read=%d recv=%d lastid=%d" % (u, p["read"], p["recv"], lastid)))
        # a subscription that ended: its reports start again from zero
        for u in list(rep_sub):
            if u not in v.subs or v.subs[u]["deleted"]:
                rep_sub.pop(u, None)
                rep_desc.pop(u, None)
        if reloaded:
            # {meta desc} reports the cached marks; under injected store faults the cache may be ahead of the store
            rep_desc.clear()
        for sid, t in v.frames:
            if t.startswith("desc "):
                d = kvs(t)
                rd, rc, sq = int(d["read"]), int(d["recv"]), int(d["seq"])
                if d["acs"] != "-/-" and not (0 <= rd <= rc <= max(sq, 0) or sq == 0 and rd == 0 and rc == 0):
                    res.append(("reported-marks-bounds", k, "desc to session %d: %s" % (sid, t)))
                ru = sc.sessions.get(sid)
                if d["acs"] != "-/-" and "/" in d["acs"] and "R" in eff(*d["acs"].split("/", 1)) and ru is not None and sq > 0:
                    old = rep_desc.get(ru)
                    if old and (rd < old[0] or rc < old[1]):
                        res.append(("reported-marks-monotone", k, "{meta desc} to session %d of user %d reports read=%d recv=%d after read=%d recv=%d"
                                    % (sid, ru, rd, rc, old[0], old[1])))
                    rep_desc[ru] = (rd, rc)
            elif t.startswith("sub "):
                for row in t.split()[1:]:
                    f = row.split(":")
                    rd, rc = int(f[2]), int(f[3])
                    if not (0 <= rd <= rc <= seqid):
                        law = "reported-read-le-recv" if (0 <= rd <= seqid and 0 <= rc <= seqid) else "reported-marks-bounds"
                        res.append((law, k, "{meta sub} to session %d reports user %s read=%d recv=%d latest=%d" % (sid, f[0], rd, rc, seqid)))
                    ru = int(f[0]) if f[0].lstrip("-").isdigit() else 0
                    srow = v.subs.get(ru)
                    if srow and not srow["deleted"]:
                        m = eff(srow["want"], srow["given"])
                        if "R" in m and "J" in m:
                            old = rep_sub.get(ru)
                            if old and (rd < old[0] or rc < old[1]):
                                res.append(("reported-marks-monotone", k, "{meta sub} to session %d reports user %d read=%d recv=%d after read=%d recv=%d"
                                            % (sid, ru, rd, rc, old[0], old[1])))
                            rep_sub[ru] = (rd, rc)
        # ---- neither mark ever decreases; who may move a mark
        if prev is not None:
            acked = [t for sid, t in v.frames if t.startswith("ctrl 202")]
            for u, s in v.subs.items():
                p = prev.subs.get(u)
                if p is None or s["deleted"] or p["deleted"]:
                    continue
                recreated = (kind in ("sub", "setsub") and (s["read"], s["recv"], s["delid"]) == (0, 0, 0) and
                             (u not in prev.cusers if prev.loaded else False))
                if (s["read"] < p["read"] or s["recv"] < p["recv"]) and not recreated:
                    res.append(("marks-monotone", k, "user %d marks moved back: read %d->%d recv %d->%d" % (u, p["read"], s["read"], p["recv"], s["recv"])))
                if (s["read"], s["recv"]) != (p["read"], p["recv"]) and not recreated:
                    if kind == "pub" and actor == u and acked:
                        n = int(kvs(acked[0])["seq"])
                        if (s["read"], s["recv"]) != (n, n):
                            res.append(("publisher-marks-jump", k, "publisher's marks are %d/%d after message %d" % (s["read"], s["recv"], n)))
                    elif kind == "note" and actor == u:
                        # R as the live topic sees it (a mode change made through the hub while detached reaches the
                        # store only: that divergence is C08's business) or as stored
                        q = prev.cusers.get(u) if prev.loaded else None
                        if "R" not in eff(p["want"], p["given"]) and not (q and "R" in eff(q["want"], q["given"])):
                            res.append(("note-needs-read", k, "mark of user %d moved by a note without R" % u))
                    else:
                        res.append(("mark-moved-by-other", k, "marks of user %d changed by %s of user %s" % (u, kind, actor)))
            if not reloaded:
                for u, c in v.cusers.items():
                    p = prev.cusers.get(u)
                    if p is None:
                        continue
                    if c["read"] < p["read"] or c["recv"] < p["recv"]:
                        res.append(("cached-marks-monotone", k, "user %d cached marks moved back: read %d->%d recv %d->%d by %s of user %s"
                                    % (u, p["read"], c["read"], p["recv"], c["recv"], (kind, args), actor)))
                    if (c["read"], c["recv"]) != (p["read"], p["recv"]):
                        if kind == "pub" and actor == u and acked:
                            n = int(kvs(acked[0])["seq"])
                            if (c["read"], c["recv"]) != (n, n):
                                res.append(("publisher-marks-jump", k, "publisher's cached marks are %d/%d after message %d" % (c["read"], c["recv"], n)))
                        elif kind == "note" and actor == u:
                            if "R" not in eff(p["want"], p["given"]):
                                res.append(("note-needs-read", k, "cached mark of user %d moved by a note without R" % u))
                        else:
                            res.append(("mark-moved-by-other", k, "cached marks of user %d changed by %s of user %s" % (u, kind, actor)))
        # ---- notes: invalid ones are dropped silently; audience of the relay
        infos = [(sid, t) for sid, t in v.frames if t.startswith("info ")]
        if kind == "note" and prev is not None:
            what, seq = args[1], int(args[2])
            origin = args[0]
            cls, why = note_class(prev, origin, actor, what, seq)
            if cls in ("invalid", "stale", "unpermitted"):
                bad = not_silent(prev, v)
                if bad:
                    res.append((cls + "-note-silent", k, "%s note %s seq=%d (%s) from session %d of user %s was not dropped silently: %s"
                                % (cls, what, seq, why, origin, actor, "; ".join(bad)[:600])))
            amode = eff(prev.cusers.get(actor, {}).get("want", ""), prev.cusers.get(actor, {}).get("given", "")) if actor in prev.cusers else ""
            if what == "kp" and "W" not in amode and infos:
                res.append(("kp-needs-write", k, "typing note relayed from a user without W"))
            for sid, t in infos:
                d = kvs(t)
                ru = prev.csess.get(sid)
                rmode = eff(prev.cusers.get(ru, {}).get("want", ""), prev.cusers.get(ru, {}).get("given", "")) if ru in prev.cusers else ""
                if sid == origin:
                    res.append(("info-not-to-origin", k, "relayed note echoed to the originating session %d" % sid))
                if ru is None:
                    res.append(("info-attached-only", k, "relayed note reached session %d which is not attached" % sid))
                elif "R" not in rmode:
                    res.append(("info-readers-only", k, "relayed note reached session %d of user %d without R" % (sid, ru)))
                if what == "kp" and ru == actor:
                    res.append(("kp-not-to-typist", k, "typing note reached session %d of the typist" % sid))
                if int(d["from"]) != actor:
                    res.append(("info-true-sender", k, "relayed note names user %s, sent by %s" % (d["from"], actor)))
        elif infos:
            res.append(("info-only-from-notes", k, "info frames produced by %s" % kind))
        prev = v
    return res


# ---------------------------------------------------------------------------
# model-guided scenarios

RW, R_ONLY, W_ONLY, NEITHER = 47, 11, 13, 9      # JRWPS, JRP, JWP, JP (want; given is JRWPS)
BOUNDARIES = ["neg", "zero", "one", "read-1", "read", "read+1", "mid", "recv-1", "recv", "recv+1", "last-1", "last", "last+1", "far"]


def aim(b, rd, rc, last, rng):
    return {"neg": -rng.choice([1, 1, 2, 7]), "zero": 0, "one": 1, "read-1": rd - 1, "read": rd, "read+1": rd + 1,
            "mid": (rd + rc) // 2, "recv-1": rc - 1, "recv": rc, "recv+1": rc + 1, "last-1": last - 1, "last": last,
            "last+1": last + 1, "far": last + rng.choice([2, 3, 5, 100000])}[b]


def model_marks(view, u):
    """(read, recv, lastid) of user u in the MODEL's state"""
    if view is None:
        return 0, 0, 0
    last = view.cache.get("lastid", 0) if view.loaded else view.topic.get("seqid", 0)
    p = view.cusers.get(u) if view.loaded else None
    if p is None:
        p = view.subs.get(u)
    return (p["read"], p["recv"], last) if p else (0, 0, last)


def gen_guided(ctx, count):
    """Each scenario: a group topic with an owner, the SUBJECT (user 2: two attached sessions and one that never
    attaches), a reader peer, a peer without R and (in some) a stranger; publishes from another user; the subject's
    marks are driven to read < recv < lastID with gaps >= 2 (or to one of the degenerate shapes); then notes whose seq
    is aimed at every boundary, from every kind of session, interleaved with reports, publishes, deletions,
    permission changes and reloads.  Every choice that depends on the state reads the extracted model's state."""
    rng = ctx.rng
    scns, plans = [], {}
    deck = [(w, b) for b in BOUNDARIES for w in ("read", "recv")]
    shapes = ["strict"] * 7 + ["equal", "top", "zero", "inverted"]
    for i in range(count):
        sc = T.Scn("m%d" % i)
        cls = ["RW", "RW", "RW", "RW", "RW", "R", "W", "none", "stranger"][i % 9] if i >= len(deck) * 2 else "RW"
        shape = "strict" if i < len(deck) * 2 else rng.choice(shapes)
        stranger = cls == "stranger"
        sc.nusers = 5 if stranger else 4
        sc.head.append("scn %s owner=1 auth=%d anon=0 ownerwant=255 ownergiven=255" % (sc.id, 0 if stranger else rng.choice([47, 47, 0])))
        for u in range(1, sc.nusers + 1):
            sc.head.append("user %d acc=47" % u)
        want = {"RW": RW, "R": R_ONLY, "W": W_ONLY, "none": NEITHER, "stranger": RW}[cls]
        sc.head.append("subrow 2 want=%d given=47" % want)
        sc.head.append("subrow 3 want=47 given=47")
        sc.head.append("subrow 4 want=%d given=47" % rng.choice([W_ONLY, NEITHER]))
        sess = {1: 1, 2: 2, 3: 2, 4: 2, 5: 3, 6: 3, 7: 4}
        if stranger:
            sess[8] = 5
        for s in sorted(sess):
            sc.head.append("sess %d %d" % (s, sess[s]))
        sc.sessions = dict(sess)
        subj = 5 if stranger else 2
        ssess = [8] if stranger else [2, 3, 4]
        attach = [1, 2, 3, 5, 7] + ([6] if rng.random() < 0.5 else [])
        npub = rng.randint(8, 11)
        plan = []
        plan.append(lambda rng, sc, v, attach=attach: [("N", "sub", [s, "-", 0]) for s in attach])
        plan.append(lambda rng, sc, v, npub=npub: [("N", "pub", [rng.choice([1, 1, 5]), 100 + j, 0]) for j in range(npub)])
        if stranger:
            plan.append(lambda rng, sc, v: [("N", "sub", [8, "-", 0])])       # refused: the topic gives strangers nothing
        # drive the subject's marks to the wanted shape (the notes are dropped if the subject has no R)
        if shape in ("strict", "equal", "inverted"):
            def prep_recv(rng, sc, v, shape=shape):
                rd, rc, last = model_marks(v, 2)
                return [("N", "note", [rng.choice([2, 3]), "read" if shape == "inverted" else "recv", last - rng.choice([3, 3, 4])])]

            def prep_read(rng, sc, v, shape=shape):
                rd, rc, last = model_marks(v, 2)
                if shape == "inverted":
                    # the stored row keeps read > recv (recorded finding); it reaches the cache through a reload
                    return [("N", "leave", [s, 0]) for s in sorted(sc.sessions) if s in v.csess] + [("N", "unload", [])] + \
                           [("N", "sub", [s, "-", 0]) for s in (1, 2, 3, 5)]
                return [("N", "note", [rng.choice([2, 3]), "read", rc if shape == "equal" else max(2, rc - rng.choice([3, 3, 4]))])]
            plan += [prep_recv, prep_read]
        elif shape == "top":
            plan.append(lambda rng, sc, v: [("N", "note", [2, "read", model_marks(v, 2)[2]])])
        nprobe = rng.randint(3, 6)
        for j in range(nprobe):
            first = (j == 0)

            def probe(rng, sc, v, i=i, first=first, ssess=ssess, subj=subj):
                rd, rc, last = model_marks(v, subj)
                if first and i < len(deck) * 2:
                    what, b = deck[i % len(deck)]
                    sid = ssess[0] if i < len(deck) else rng.choice(ssess[:2])
                else:
                    what, b = rng.choice(deck)
                    sid = rng.choice(ssess + ssess[:2])
                    r = rng.random()
                    if r < 0.12:
                        return [("N", "note", [sid, "kp", 0 if rng.random() < 0.8 else rng.choice([1, last, -1])])]
                    if r < 0.17:
                        return [("N", "note", [sid, rng.choice(["xx", "", "READ", "kp2"]) or "x", aim(b, rd, rc, last, rng)])]
                    if r < 0.27:
                        # somebody else's note, aimed at that user's own marks
                        sid = rng.choice([1, 5, 6, 7])
                        rd, rc, last = model_marks(v, sc.sessions[sid])
                seq = aim(b, rd, rc, last, rng)
                # a failing store call under a note the MODEL accepts: nothing may change, nothing may be relayed
                accepted = v is not None and note_class(v, sid, sc.sessions[sid], what, seq)[0] == "valid"
                flt = "F1" if (accepted and not first and rng.random() < 0.2) else "N"
                ops = [(flt, "note", [sid, what, seq])]
                if rng.random() < 0.25:
                    ops.append(ops[0])      # the same note again: a duplicate
                return ops

            def after(rng, sc, v, ssess=ssess, subj=subj):
                r = rng.random()
                ops = []
                if r < 0.45:
                    ops.append(("N", rng.choice(["getdesc", "getsub"]), [rng.choice([2, 3, 1, 5] if subj == 2 else [8, 1])]))
                    if rng.random() < 0.5:
                        ops.append(("N", "getsub", [rng.choice([1, 5, 4])]))
                elif r < 0.55:
                    ops.append(("N", "pub", [rng.choice([2, 3, 1, 5]), 500 + len(sc.ops), 1 if rng.random() < 0.3 else 0]))
                elif r < 0.62:
                    last = model_marks(v, 2)[2]
                    ops.append(("N", "delmsg", [1, 1 if rng.random() < 0.5 else 0, "%d:%d" % (rng.randint(1, max(last, 1)), rng.choice([0, last + 1]))]))
                elif r < 0.70:
                    # the subject gives up / takes back R or W
                    ops.append(("N", "setsub", [rng.choice([2, 3]), 0, T.hx(rng.choice(["JWP", "JRP", "JRWPS", "JP"]))]))
                elif r < 0.76:
                    s = rng.choice([2, 3, 5])
                    ops.append(("N", "leave", [s, 0]))
                    if rng.random() < 0.6:
                        ops.append(("N", "sub", [s, "-", 0]))
                elif r < 0.86 and v is not None:
                    # reload: what comes back must be what was stored; reports right after it
                    ops += [("N", "leave", [s, 0]) for s in sorted(sc.sessions) if s in v.csess] + [("N", "unload", [])]
                    ops += [("N", "sub", [s, "-", 0]) for s in (2, 5, 3, 1) if rng.random() < 0.85]
                    ops += [("N", rng.choice(["getdesc", "getsub"]), [rng.choice([2, 5, 1])])]
                elif r < 0.92:
                    ops.append(("N", "restart", []))
                    ops += [("N", "sub", [s, "-", 0]) for s in (1, 2, 3, 5) if rng.random() < 0.85]
                    ops += [("N", rng.choice(["getdesc", "getsub"]), [rng.choice([2, 5, 1])])]
                return ops
            plan += [probe, after]
        scns.append(sc)
        plans[sc.id] = plan
    for r in range(max(len(p) for p in plans.values())):
        rc, model, err = T.run_model(ctx, scns, tag="gen")
        for sc in scns:
            if r < len(plans[sc.id]):
                blocks = model.get(sc.id) or []
                v = View(blocks[-1]) if blocks else None
                sc.ops += plans[sc.id][r](rng, sc, v)
    return scns


# ---------------------------------------------------------------------------
# measured distribution of the notes (on the implementation's trace)

def pos_label(seq, rd, rc, last):
    if seq < 0:
        return "seq<0"
    if seq == 0:
        return "seq=0"

    def c(a, b):
        return "<" if a < b else ("=" if a == b else ">")
    far = "" if seq <= last else ("+1" if seq == last + 1 else "++")
    return "%sread %srecv %slast%s" % (c(seq, rd), c(seq, rc), c(seq, last), far)


REQUIRED = ["seq<0", "seq=0", "<read <recv <last", "=read <recv <last", ">read <recv <last", ">read =recv <last",
            ">read >recv <last", ">read >recv =last", ">read >recv >last+1", ">read >recv >last++"]


def distribution(scns, impl):
    strict = {w: {p: {} for p in REQUIRED} for w in ("read", "recv")}
    allc, classes, actors = {}, {}, {}

    def bump(d, *path):
        for p in path[:-1]:
            d = d.setdefault(p, {})
        d[path[-1]] = d.get(path[-1], 0) + 1
    for sc in scns:
        views = _views.get(sc.id) or [View(b) for b in impl[sc.id]]
        for k in range(1, len(sc.ops)):
            fault, kind, args = sc.ops[k]
            if kind != "note":
                continue
            prev, v = views[k - 1], views[k]
            origin, what, seq = args[0], args[1], int(args[2])
            actor = sc.sessions.get(origin)
            pud = prev.cusers.get(actor) if prev.loaded else None
            row = prev.subs.get(actor)
            rd, rc = (pud["read"], pud["recv"]) if pud else ((row["read"], row["recv"]) if row and not row["deleted"] else (0, 0))
            last = prev.cache.get("lastid", 0) if prev.loaded else prev.topic.get("seqid", 0)
            mode = eff(pud["want"], pud["given"]) if pud else (eff(row["want"], row["given"]) if row and not row["deleted"] else None)
            att = "attached" if (prev.loaded and origin in prev.csess) else ("detached" if prev.loaded else "detached, topic not loaded")
            others = [s for s, u in prev.csess.items() if u == actor and s != origin]
            perm = "not subscribed" if mode is None else ("R" if "R" in mode else "") + ("W" if "W" in mode else "") or "neither R nor W"
            # outcome as observed
            out = []
            cur = v.cusers.get(actor) if v.loaded else None
            if pud and cur:
                mv = [m for m in ("read", "recv") if cur[m] != pud[m]]
                if mv:
                    out.append("cache:" + "+".join(mv))
            crow = v.subs.get(actor)
            if row and crow:
                mv = [m for m in ("read", "recv") if crow[m] != row[m]]
                if mv:
                    out.append("store:" + "+".join(mv))
            ninfo = len([1 for s, t in v.frames if t.startswith("info ")])
            if ninfo:
                out.append("relayed")
            out += [t for s, t in v.frames if t.startswith("ctrl ")]
            if fault != "N" and v.b.get("calls"):
                out.append("store call failed")
            outcome = " ".join(out) or "dropped silently"
            wk = what if what in ("read", "recv", "kp") else "unknown kind"
            pos = pos_label(seq, rd, rc, last) if wk != "kp" else ("seq=0" if seq == 0 else "seq!=0")
            bump(allc, wk, pos, outcome)
            bump(actors, "%s, %s%s" % (att, perm, ", user has another attached session" if others else ""), wk, outcome)
            bump(classes, note_class(prev, origin, actor, what, seq)[0], outcome)
            if wk in strict and att == "attached" and "R" in (mode or "") and 2 <= rd and rd + 3 <= rc and rc + 3 <= last and pos in strict[wk]:
                bump(strict[wk], pos, outcome)
    empty = ["%s / %s" % (w, p) for w in strict for p in REQUIRED if not strict[w][p]]
    return {"note_distribution": {
        "how": "every note of the run, classified on the implementation's state before it: kind x position of seq relative to the sender's cached read/recv and lastID x observed outcome",
        "reader_attached_read_lt_recv_lt_last_gaps_ge_2": strict,
        "empty_required_cells": empty,
        "all_notes": allc,
        "by_sender": actors,
        "by_demanded_handling": classes}}


def frame_f(t):
    return t.startswith("info ") or t.startswith("desc ") or t.startswith("sub ") or t.startswith("ctrl 202")


def line_f(kind, l):
    import re
    if kind == "store":
        if l.startswith("sub "):
            return re.sub(r" del=\S+", "", re.sub(r"^(sub \d+) \S+", r"\1", l))
        if l.startswith("topic "):
            return l.split(" delid=")[0]
        return None
    if l.startswith("user "):
        return re.sub(r" del=\S+", "", re.sub(r" online=\S+", "", re.sub(r"^(user \d+) \S+", r"\1", l)))
    if l.startswith("lastid"):
        return l.split(" delid=")[0]
    return None


def relay_audience(ctx):
    """Clause 'relayed notifications reach only attached sessions of users with read permission - never the
    originating session, never channel readers, typing notes never any session of the typist': the group-topic
    model of Sys/Topic.v has no channel subscriptions, so this clause is judged on the fan-out slice built for C02
    (coq/Sys/Fanout.v info_fanout; theorems re-stated in PropC09.v as c09_relay_*): the same driver
    (zz_verif_c02_test.go: grp / channel-enabled grp / p2p topics with note ops), the same extracted model, and the
    info-* laws of tools/props/c02.py evaluated on the IMPLEMENTATION's frames."""
    from props import c02
    if ctx.replay:
        rp = json.load(open(ctx.replay))
        if not (isinstance(rp.get("replay"), dict) and rp["replay"].get("relay_part")):
            return
        scns = [c02.Scn.from_replay(rp["replay"]["scenario"], "replay")]
    else:
        scns = [c02.mk(*c, sid="c%d" % i) for i, c in enumerate(c02.CORPUS)]
        scns += c02.gen_scenarios(ctx, 110 if ctx.tier == "quick" else 2000, prefix="r")
    rc, impl, log = c02.run_impl(ctx, scns, tag="relay")
    bad = next((sc for sc in scns if sc.id not in impl or len(impl[sc.id]) != len(sc.ops)), None)
    if rc != 0 or bad is not None:
        ctx.violation("monitor", "server-crashed", "the server process died or stopped answering in the relay-audience part (scenario %s): %s"
                      % (bad.id if bad else "?", log[-1200:]), {"relay_part": True, "scenario": bad.replay() if bad else {}})
        return
    rc, model, err = c02.run_model(ctx, scns)
    seen = {}
    notes = 0
    for sc in scns:
        notes += sum(1 for o in sc.ops if o[0] == "note")
        for law, k, detail in c02.monitor(sc, impl[sc.id]):
            if law.startswith("info-"):
                seen.setdefault(law, []).append((sc, k, detail))
    known = {f["key"] for f in ctx.load_findings() if f["property"] == "C02"}
    for law, lst in seen.items():
        if law in known:
            continue       # a defect recorded under C02 with exactly this law name
        sc, k, detail = min(lst, key=lambda x: len(x[0].ops))
        small = sc.clone(sc.ops[:k + 1]) if hasattr(sc, "clone") else sc
        ctx.violation("monitor", law, "law %s fails on the implementation's note relays (%d scenarios): %s" % (law, len(lst), detail),
                      {"relay_part": True, "scenario": small.replay(), "law": law, "detail": detail})
    mism = 0
    if rc == 0:
        for sc in scns:
            mo = model.get(sc.id, [])
            for k, o in enumerate(sc.ops):
                if o[0] == "note" and k < len(mo) and k < len(impl[sc.id]):
                    d = c02.diff_op(sc, k, impl[sc.id][k], mo[k])
                    if d:
                        mism += 1
                        if not seen:
                            ctx.violation("corr", "correspondence-relay", "fan-out model and implementation disagree on a note relay: op %d %s: %s"
                                          % (k, o, json.dumps(d, default=str)[:600]), {"correspondence": "note relay audience (Fanout.v info_fanout)",
                                                                                       "relay_part": True, "scenario": sc.replay()})
                        break
    ctx.coverage["relay_audience"] = {"scenarios": len(scns), "note_requests": notes, "law_failures": sum(len(v) for v in seen.values()),
                                      "correspondence_mismatches": mism}


# ---------------------------------------------------------------------------
# notes on 'me' + p2p + group topics: unsubscribed (deleted) parties, sessions on 'me' only, the {info} copies
# routed through the 'me' topics.  Model: coq/Sys/Pres.v + Sys/PresNoteC09.v (theorems c09_pres_* of PropC09.v);
# driver: harness/overlay/server/zz_verif_c09x_test.go (the C10 presence driver's scenarios, sessions and dump,
# plus full {info} frames, adapter calls and marks); runner: harness/runner/r_c09x.ml.

PN_R, PN_W, PN_P = 2, 4, 8


def pn_parse(lines):
    """c10.parse_blocks plus the lines of the c09x driver/runner: I (info frames of a note), K (adapter calls),
    E (replies without id), LC/LS (lastID / seqid), MC/MS (cached / stored marks)"""
    from props import c10
    res = c10.parse_blocks(lines)
    cur, op = None, None
    for ln in lines:
        if not ln:
            continue
        w = ln.split()
        if w[0] == "scn":
            cur, op, k = res.get(w[1]), None, -1
        elif w[0] == "op" and cur is not None:
            k += 1
            op = cur[k] if k < len(cur) else None
            if op is not None:
                op.update({"info": [], "calls": None, "err": [], "marks": []})
        elif w[0] == "end":
            cur, op = None, None
        elif op is None:
            continue
        elif w[0] == "I":
            op["info"].append(ln[2:])
        elif w[0] == "K":
            op["calls"] = (int(w[1]), w[2] if len(w) > 2 else "")
        elif w[0] == "E":
            op["err"].append(ln)
        elif w[0] in ("LC", "LS", "MC", "MS"):
            op["marks"].append(ln)
    return res


class PNView:
    """one quiescent point: the C10 view plus marks, {info} frames in full, adapter calls"""
    def __init__(self, b):
        from props import c10
        self.b = b
        self.v = c10.View(b) if b is not None else None
        self.frames = self.v.frames if self.v else []            # (sid, top, src, what) as strings
        self.topics = self.v.topics if self.v else {}
        self.rows = self.v.rows if self.v else {}
        self.cusers = {}     # (topic, user) -> dict(want, given, deleted): the live topic's perUser entry
        self.info = []       # (sid, top, src, what, from, seq or None)
        self.mc, self.ms, self.lc, self.ls = {}, {}, {}, {}
        self.calls = b.get("calls") if b else None
        self.ctrl = list(b["ctrl"]) + list(b.get("err", [])) if b else []
        if b is None:
            return
        for l in b["state"]:
            w = l.split()
            if w[0] == "U":
                kv = dict(x.split("=", 1) for x in w if "=" in x)
                self.cusers[(w[1], int(w[2]))] = dict(want=int(kv["want"]), given=int(kv["given"]), deleted=kv.get("deleted") == "1")
        for l in b.get("info", []):
            w = l.split()
            kv = dict(x.split("=", 1) for x in w if "=" in x)
            self.info.append((int(w[0]), w[1], w[2], w[3][2:], kv.get("from", "?"), int(kv["seq"]) if "seq" in kv else None))
        for l in b.get("marks", []):
            w = l.split()
            if w[0] == "LC":
                self.lc[w[1]] = int(w[2])
            elif w[0] == "LS":
                self.ls[w[1]] = int(w[2])
            elif w[0] == "MC":
                self.mc[(w[1], int(w[2]))] = (int(w[3]), int(w[4]))
            elif w[0] == "MS":
                self.ms[(w[1], int(w[2]))] = (int(w[3]), int(w[4]))

    def attached(self, sid, tk):
        return tk in self.topics and any(s == sid for (s, _, _) in self.topics[tk]["sess"])

    def sub_state(self, tk, u):
        """-> (stored row live, cached entry live, effective mode as stored or None, as cached or None)"""
        r, c = self.rows.get((tk, u)), self.cusers.get((tk, u))
        sl = r is not None and not r["deleted"]
        cl = c is not None and not c["deleted"]
        return sl, cl, (r["want"] & r["given"]) if sl else None, (c["want"] & c["given"]) if cl else None


def pn_note_class(prev, sid, u, tk, what, seq):
    """What the property demands for a {note} that reached the server, judged on the IMPLEMENTATION's own state
    before the request.  -> (class, why): invalid / unsubscribed / unpermitted / stale are to be dropped silently;
    valid is accepted; other = the live topic and the store disagree about the subscription (C08's business):
    no demand."""
    if what not in ("read", "recv", "kp"):
        return "invalid", "unknown kind"
    if what in ("read", "recv") and seq <= 0:
        return "invalid", "seq <= 0"
    if what == "kp" and seq != 0:
        return "invalid", "typing note with a seq"
    if tk not in prev.topics:
        return "invalid", "topic not loaded"
    if seq > prev.lc.get(tk, 0):
        return "invalid", "seq beyond the latest message (%d)" % prev.lc.get(tk, 0)
    sl, cl, sm, cm = prev.sub_state(tk, u)
    if not sl and not cl:
        r = prev.rows.get((tk, u))
        return "unsubscribed", ("subscription deleted" if r is not None else "never subscribed")
    if sl != cl:
        return "other", ""
    need = PN_W if what == "kp" else PN_R
    if not (sm & need) and not (cm & need):
        return "unpermitted", "no W" if what == "kp" else "no R"
    if bool(sm & need) != bool(cm & need):
        return "other", ""
    if what != "kp":
        mark = prev.mc.get((tk, u), (0, 0))[0 if what == "read" else 1]
        if seq <= mark:
            return "stale", "%s mark is %d" % (what, mark)
    return "valid", ""


def pn_not_silent(prev, v, tk):
    out = []
    if v.frames or v.info:
        out.append("frames %s" % ([" ".join(f) for f in v.frames] + ["I " + " ".join(str(x) for x in i) for i in v.info]))
    if v.ctrl:
        out.append("reply %s" % v.ctrl)
    if v.calls and v.calls[0]:
        out.append("%d adapter call(s) [%s]" % v.calls)
    for name, a, b in (("stored marks", prev.ms, v.ms), ("cached marks", prev.mc, v.mc), ("lastID", prev.lc, v.lc), ("seqid", prev.ls, v.ls)):
        ch = sorted((k, a.get(k), b.get(k)) for k in set(a) | set(b) if a.get(k) != b.get(k))
        if ch:
            out.append("%s changed: %s" % (name, ch))
    return out


def pn_own_name(tk, ru):
    """the recipient's own name for the topic, as the frames are printed"""
    if tk[0] == "g":
        return tk
    a, b = (int(x) for x in tk[1:].split("."))
    if ru not in (a, b):
        return None
    return "u%d" % (b if ru == a else a)


def pn_monitor(sc, views):
    """C09 on the implementation's trace of a presence scenario.  -> [(law, op index, detail)]"""
    from props import c10
    res = []
    prev = PNView(None)
    for k, v in enumerate(views):
        kind, args = sc.ops[k]
        actor = sc.sessions.get(int(args[0])) if args and str(args[0]).lstrip("-").isdigit() and kind not in ("unload", "unload1", "unload2") else None
        acked = any(c.split()[1] == "202" for c in v.b["ctrl"] if c.split()[0] == str(args[0])) if kind == "pub" else False
        # ---- marks: bounds, never backwards, who moves them (subscriptions that are live before and after)
        for (tk, u), (rd, rc) in v.ms.items():
            r1, r0 = v.rows.get((tk, u)), prev.rows.get((tk, u))
            if r1 is None or r1["deleted"]:
                continue
            top = v.ls.get(tk, 0)
            if not (0 <= rd <= top and 0 <= rc <= top):
                res.append(("stored-marks-bounds", k, "topic %s user %d stored read=%d recv=%d latest=%d" % (tk, u, rd, rc, top)))
            if r0 is None or r0["deleted"] or (tk, u) not in prev.ms:
                continue
            p = prev.ms[(tk, u)]
            if rd < p[0] or rc < p[1]:
                res.append(("marks-monotone", k, "topic %s user %d stored marks moved back: read %d->%d recv %d->%d by %s %s"
                            % (tk, u, p[0], rd, p[1], rc, kind, args)))
            if (rd, rc) != p and not (actor == u and (kind == "note" or (kind == "pub" and acked))):
                res.append(("mark-moved-by-other", k, "topic %s: stored marks of user %d changed %s->%s by %s %s of user %s"
                            % (tk, u, p, (rd, rc), kind, args, actor)))
        for (tk, u), (rd, rc) in v.mc.items():
            c1, c0 = v.cusers.get((tk, u)), prev.cusers.get((tk, u))
            if c1 is None or c1["deleted"]:
                continue
            top = v.lc.get(tk, 0)
            if not (0 <= rd <= top and 0 <= rc <= top):
                res.append(("cached-marks-bounds", k, "topic %s user %d cached read=%d recv=%d lastid=%d" % (tk, u, rd, rc, top)))
            if c0 is None or c0["deleted"] or (tk, u) not in prev.mc or tk not in prev.topics:
                continue
            p = prev.mc[(tk, u)]
            if rd < p[0] or rc < p[1]:
                res.append(("cached-marks-monotone", k, "topic %s user %d cached marks moved back: read %d->%d recv %d->%d by %s %s"
                            % (tk, u, p[0], rd, p[1], rc, kind, args)))
            if (rd, rc) != p and not (actor == u and (kind == "note" or (kind == "pub" and acked))):
                res.append(("mark-moved-by-other", k, "topic %s: cached marks of user %d changed %s->%s by %s %s of user %s"
                            % (tk, u, p, (rd, rc), kind, args, actor)))
        # ---- notes
        if kind == "note" and not v.b["skipped"]:
            sid, ref, what, seq = int(args[0]), args[1], args[2], int(args[3])
            u = sc.sessions[sid]
            tk = c10.rel_topic(u, ref)
            cls, why = pn_note_class(prev, sid, u, tk, what, seq)
            if cls in ("invalid", "unsubscribed", "unpermitted", "stale"):
                bad = pn_not_silent(prev, v, tk)
                if bad:
                    law = "note-from-unsubscribed-user-silent" if cls == "unsubscribed" else cls + "-note-silent"
                    res.append((law, k, "%s note %s seq=%d (%s) from session %d of user %d to %s was not dropped silently: %s"
                                % (cls, what, seq, why, sid, u, tk, "; ".join(bad)[:700])))
            # a mark of the sender moved: the sender is subscribed with R, as the live topic or the store sees it
            moved = any(a.get((tk, u)) != b.get((tk, u)) for a, b in ((prev.ms, v.ms), (prev.mc, v.mc)) if (tk, u) in a and (tk, u) in b)
            if moved:
                sl, cl, sm, cm = prev.sub_state(tk, u)
                if not ((sl and sm & PN_R) or (cl and cm & PN_R)):
                    res.append(("note-needs-read", k, "a mark of user %d in %s moved by a note although the user has no live subscription with R "
                                "(stored live=%s mode=%s, cached live=%s mode=%s)" % (u, tk, sl, sm, cl, cm)))
            for (rs, top, src, wh, frm, sq) in v.info:
                ru = sc.sessions.get(rs)
                if rs == sid:
                    res.append(("info-not-to-originating-session", k, "the {info %s} of the note came back to the originating session %d (on %s, src %s)"
                                % (wh, rs, top, src)))
                if frm != str(u):
                    res.append(("info-names-true-sender", k, "{info %s} to session %d on %s names user %s as the sender; the note was sent by user %d"
                                % (wh, rs, top, frm, u)))
                own = pn_own_name(tk, ru)
                if own is not None and not ((top == "me" and src == own) or (top == own and src == own)):
                    res.append(("info-names-recipients-topic", k, "{info %s} to session %d of user %d is labelled topic=%s src=%s; the user's name for %s is %s"
                                % (wh, rs, ru, top, src, tk, own)))
                if wh == "kp" and ru == u:
                    res.append(("kp-not-to-typist", k, "typing note reached session %d of the typist (on %s)" % (rs, top)))
                if wh != what:
                    res.append(("info-kind", k, "a {note %s} was relayed as {info %s} to session %d" % (what, wh, rs)))
                modes = [x.v.eff(tk, ru) for x in (prev, v) if x.v is not None]
                if ru is not None and not any(m is not None and m & PN_R for m in modes):
                    res.append(("info-readers-only", k, "{info %s} reached session %d of user %d who has no live subscription with R to %s (modes before/after %s)"
                                % (wh, rs, ru, tk, modes)))
                if top != "me" and not (prev.attached(rs, tk) or v.attached(rs, tk)):
                    res.append(("info-attached-only", k, "{info %s} labelled as coming from inside %s reached session %d which is not attached to it" % (wh, tk, rs)))
            for (rs, top, src, wh) in v.frames:
                if int(rs) == sid and wh in ("read", "recv"):
                    res.append(("pres-not-to-originating-session", k, "{pres %s} about the note's own mark came back to the originating session %d" % (wh, sid)))
        else:
            inf = [f for f in v.frames if f[3].startswith("i:")]
            if inf:
                res.append(("info-only-from-notes", k, "{info} frames %s produced by %s %s" % (inf, kind, args)))
        prev = v
    return res


def pn_marks(mv, tk, u):
    """(read, recv, lastid, loaded) of user u in topic tk in the MODEL's state"""
    if mv is None:
        return 0, 0, 0, False
    loaded = tk in mv.topics
    rd, rc = mv.mc.get((tk, u)) or mv.ms.get((tk, u)) or (0, 0)
    return rd, rc, (mv.lc.get(tk) if loaded else mv.ls.get(tk)) or 0, loaded


def pn_aim(rng, rd, rc, last, accept):
    """a seq for a recv note: inside (recv, lastID] when `accept`, else on or beyond a boundary"""
    if accept and rc < last:
        return rng.choice([rc + 1, last, last, rng.randint(rc + 1, last)])
    return rng.choice([rc, rc, last + 1, last + 1, 0, -1, max(1, rc - 1), 1, last + rng.choice([2, 100000]), rd])


def pn_gen(ctx, count):
    """Model-guided note scenarios on 'me' + p2p (+ group) topics.  Users a, b (+ c); user x has the observer session
    2x-1 (on 'me' only), the worker session 2x (attaches to the topics) and user a a second device 2n+1.  Skeleton:
    observers on 'me', a and b attach to their p2p topic (in some: a group owned by b with a and sometimes c as
    members), a publishes once, b several times (so that a's recv mark is below lastID).  Then, by shape:
      unsub     a unsubscribes ({leave unsub}; p2p entry kept, deleted) while b keeps the topic loaded
      gunsub    a leaves the group for good / is evicted by the owner / was never invited
      detached  a's worker detaches (the subscription stays); a's sessions on 'me' only acknowledge receipt
      perm      a gives up R (or W)
    followed by probes: notes from a's observer / worker / second device with seq aimed (from the extracted MODEL's
    marks) inside (recv, lastID] - the ones a correct server must drop only BECAUSE of the deleted subscription, or
    must relay without echo - and on every boundary; interleaved with b's publishes and own notes, a's
    re-subscription, attach/detach of observers."""
    from props import c10
    rng = ctx.rng
    scns, plans = [], {}
    shapes = ["unsub", "detached", "unsub", "detached", "gunsub", "perm", "unsub", "detached", "gunsub"]
    for i in range(count):
        sc = c10.Scn("n%d" % i)
        sc.profile = "pn"
        shape = shapes[i % len(shapes)]
        n = 3 if (shape == "gunsub" or rng.random() < 0.3) else 2
        sc.nusers = n
        a, b = rng.choice([(1, 2), (2, 1)])
        c = 3
        for x in range(1, n + 1):
            sc.sessions[2 * x - 1] = x
            sc.sessions[2 * x] = x
        dev2 = 2 * n + 1
        sc.sessions[dev2] = a
        grp = shape == "gunsub"
        ref = "g1" if grp else "p%d" % b          # a's name for the topic
        bref = "g1" if grp else "p%d" % a
        tk = c10.rel_topic(a, ref)
        stranger = grp and i % 3 == 2
        ops = []
        for x in range(1, n + 1):
            if x == a or rng.random() < 0.85:
                ops.append(("att", [2 * x - 1, "me", 0]))
            if rng.random() < 0.35:
                ops.append(("att", [2 * x, "me", 0]))      # a worker that is on 'me' AND in the topic (SkipTopic decides)
        if grp:
            ops.append(("new", [2 * b, 1, 0]))
            if not stranger:
                ops.append(("given", [2 * b, "g1", a, 47]))
                ops.append(("att", [2 * a, "g1", 0]))
            ops.append(("given", [2 * b, "g1", c, rng.choice([47, 47, 39])]))
            if rng.random() < 0.6:
                ops.append(("att", [2 * c, "g1", 0]))
        else:
            first = rng.choice([a, b])
            ops.append(("att", [2 * first, "p%d" % (b if first == a else a), 0]))
            ops.append(("att", [2 * (b if first == a else a), "p%d" % first, 0]))
            if rng.random() < 0.3:
                ops.append(("att", [dev2, ref, 0]))
        if not stranger and rng.random() < 0.7:
            ops.append(("pub", [2 * a, ref]))
        for _ in range(rng.randint(2, 4)):
            ops.append(("pub", [2 * b, bref]))
        sc.ops = ops
        plan = []

        def act(rng, sc, mv, shape=shape, a=a, b=b, c=c, ref=ref, bref=bref, stranger=stranger, dev2=dev2, tk=tk):
            rd, rc, last, loaded = pn_marks(mv, tk, a)
            o = []
            if rng.random() < 0.3 and rc < last and not stranger and mv is not None and mv.attached(2 * a, tk):
                o.append(("note", [2 * a, ref, "recv", rng.randint(rc + 1, max(rc + 1, last - 1))]))   # a genuine partial acknowledgement first
            if shape == "unsub":
                o.append(("unsub", [2 * a, ref]))
            elif shape == "gunsub" and not stranger:
                o.append(rng.choice([("unsub", [2 * a, ref]), ("evict", [2 * b, "g1", a])]))
            elif shape == "detached":
                o.append(("det", [2 * a, ref]))
                if mv is not None and mv.attached(dev2, tk) and rng.random() < 0.5:
                    o.append(("det", [dev2, ref]))
            elif shape == "perm":
                if rng.random() < 0.6:
                    o.append(("want", [2 * a, ref, rng.choice([29, 29, 27, 21])]))     # a gives up R / W / R+P: JWPA / JRPA / JWA
                else:
                    o.append(("given", [2 * b, bref, a, rng.choice([29, 29, 27])]))    # b takes R / W away from a
            return o
        plan.append(act)
        for j in range(rng.randint(3, 6)):
            def probe(rng, sc, mv, j=j, shape=shape, a=a, b=b, ref=ref, bref=bref, dev2=dev2, tk=tk):
                rd, rc, last, loaded = pn_marks(mv, tk, a)
                o = []
                sids = [2 * a - 1, 2 * a - 1, 2 * a, dev2]
                sid = sids[0] if j == 0 else rng.choice(sids)
                att = mv is not None and mv.attached(sid, tk)
                r = rng.random()
                if att and r < 0.5:
                    what = rng.choice(["read", "kp", "kp", "read", "xx"])
                    seq = 0 if (what == "kp" and rng.random() < 0.85) else pn_aim(rng, rc, rd, last, rng.random() < 0.6)
                    o.append(("note", [sid, ref, what, seq]))
                else:
                    o.append(("note", [sid, ref, "recv", pn_aim(rng, rd, rc, last, j == 0 or rng.random() < 0.65)]))
                if rng.random() < 0.2:
                    o.append(o[0])                    # the same note again
                return o

            def after(rng, sc, mv, shape=shape, a=a, b=b, ref=ref, bref=bref, dev2=dev2, tk=tk):
                rd, rc, last, loaded = pn_marks(mv, tk, b)
                r = rng.random()
                o = []
                if r < 0.25:
                    o.append(("pub", [2 * b, bref]))
                elif r < 0.40 and rc < last:
                    o.append(("note", [2 * b, bref, rng.choice(["recv", "read"]), rng.randint(rc + 1, last)]))
                elif r < 0.47:
                    o.append(("note", [2 * b, bref, "kp", 0]))
                elif r < 0.57:
                    o.append(("att", [rng.choice([2 * a, dev2]), ref, 0]))      # a comes back (re-subscribes when it had left)
                elif r < 0.64:
                    o.append((rng.choice(["det", "att"]), [rng.choice([2 * a - 1, 2 * b - 1]), "me"] + [0]))
                elif r < 0.70:
                    sx = rng.choice([2 * a, dev2, 2 * b])
                    o.append(("det", [sx, ref if sc.sessions[sx] == a else bref]))
                elif r < 0.75:
                    o.append(("want", [2 * b, bref, rng.choice([23, 31, 29])]))   # b mutes / un-mutes / gives up R
                elif r < 0.79:
                    o.append(("disc", [rng.choice([2 * a - 1, dev2])]))
                return o
            plan += [probe, after]
        plan.append(lambda rng, sc, mv: [("unloadall", [])])
        scns.append(sc)
        plans[sc.id] = plan
    for r in range(max(len(p) for p in plans.values())):
        lines = []
        for sc in scns:
            lines += sc.lines()
        rc_, out, err = ctx.run_model("c09x", lines)
        flat = []
        for o in out:
            flat += o.split("\n")
        model = pn_parse(flat)
        for sc in scns:
            if r < len(plans[sc.id]):
                blocks = model.get(sc.id) or []
                mv = PNView(blocks[-1]) if blocks else None
                new = plans[sc.id][r](rng, sc, mv)
                sc.ops = list(sc.ops) + [(k, [str(x) for x in a]) for k, a in new]
    for sc in scns:
        sc.ops = [(k, [str(x) for x in a]) for k, a in sc.ops]
    return scns


def pn_run_impl(ctx, scns, tag="pn"):
    import os
    import subprocess
    import vlib
    fin = os.path.join(ctx.work, "scn_%s.in" % tag)
    fout = os.path.join(ctx.work, "scn_%s.impl" % tag)
    with open(fin, "w") as f:
        for sc in scns:
            f.write("\n".join(sc.lines()) + "\n")
    if os.path.exists(fout):
        os.remove(fout)
    env = dict(vlib.GOENV, VERIF_IN=fin, VERIF_OUT=fout)
    p = subprocess.run([os.path.join(vlib.BUILD, "maindrv.test"), "-test.run", "^TestVerifC09xPresNotes$", "-test.count=1", "-test.timeout=3000s"],
                       stdout=subprocess.PIPE, stderr=subprocess.STDOUT, env=env, cwd=os.path.join(vlib.REPO, "server"), timeout=3400)
    out = p.stdout.decode("utf8", "replace")
    lines = open(fout).read().split("\n") if os.path.exists(fout) else []
    log = "\n".join(l for l in out.split("\n") if not (len(l) > 3 and l[0] in "IWE" and l[1:3] == "20"))
    return p.returncode, pn_parse(lines), log


def pn_run_model(ctx, scns):
    lines = []
    for sc in scns:
        lines += sc.lines()
    rc, out, err = ctx.run_model("c09x", lines)
    flat = []
    for o in out:
        flat += o.split("\n")
    return rc, pn_parse(flat), err


def pn_diff(i, m, is_note):
    """C10's projection (frames, replies, tables, counters, rows) plus C09's: marks in cache and store, lastID / seqid,
    and for a note every {info} frame with its From"""
    from props import c10
    d = c10.diff_op(i, m)
    if sorted(i.get("marks", [])) != sorted(m.get("marks", [])):
        d.append(("marks", [x for x in i["marks"] if x not in m["marks"]], [x for x in m["marks"] if x not in i["marks"]]))
    if is_note:
        import re
        fi = sorted(re.sub(r" seq=\S+", "", x) for x in i.get("info", []))
        fm = sorted(m.get("info", []))
        if fi != fm:
            d.append(("info", [x for x in fi if x not in fm], [x for x in fm if x not in fi]))
    return d


def pres_notes(ctx):
    """Clauses 'a mark moves only when its user ... sends a note while subscribed with read permission', 'every invalid
    note is dropped without any reply or side effect', 'never the originating session', 'name the true sender and the
    recipient's own name for the topic' on p2p / group topics with unsubscribed (deleted) parties and with sessions
    attached to 'me' only: judged on the presence slice (coq/Sys/Pres.v, theorems c09_pres_* of PropC09.v) with the C10
    driver's scenarios and sessions (zz_verif_c09x_test.go adds full {info} frames, adapter calls, marks)."""
    from props import c10
    quick = ctx.tier == "quick"
    if ctx.replay:
        rp = json.load(open(ctx.replay))["replay"]
        if not (isinstance(rp, dict) and rp.get("pres_part")):
            return
        sc = c10.Scn("replay")
        import re
        sc.nusers = int(re.search(r"users=(\d+)", rp["head"][0]).group(1))
        sc.sessions = {int(l.split()[1]): int(l.split()[2]) for l in rp["head"][1:]}
        sc.ops = [(o[0], [str(x) for x in o[1]]) for o in rp["ops"]]
        scns = [sc]
    else:
        scns = [s for s in c10.fixed_cases() if s.profile == "rm"]
        scns += pn_gen(ctx, 120 if quick else 1500)
        for i in range(30 if quick else 500):
            scns.append(c10.gen_rm(ctx.rng, "rm%d" % i))
        for sc in scns:
            sc.ops = [(k, [str(x) for x in a]) for k, a in sc.ops]
    import time
    t0 = time.time()
    rc, impl, log = pn_run_impl(ctx, scns)
    t_impl = time.time() - t0
    bad = next((sc for sc in scns if sc.id not in impl or len(impl[sc.id]) != len(sc.ops)), None)
    if rc != 0 or bad is not None:
        ctx.violation("monitor", "server-crashed", "the server process died or stopped answering in the presence-notes part (scenario %s): %s"
                      % (bad.id if bad else "?", log[-1200:]),
                      {"pres_part": True, "head": bad.head if bad else [], "ops": [list(o) for o in bad.ops] if bad else []})
        return
    rcm, model, err = pn_run_model(ctx, scns)

    def mon(sc, blocks):
        res = pn_monitor(sc, [PNView(b) for b in blocks])
        for k, b in enumerate(blocks):
            if b["hang"]:
                res.append(("hang", k, b["hang"]))
        return res
    fails = {}
    classes = {}
    for sc in scns:
        for law, k, detail in mon(sc, impl[sc.id]):
            fails.setdefault(law, []).append((sc, k, detail))
    known = {f["key"] for f in ctx.load_findings() if f["property"] == ctx.pid}
    nshrunk = 0
    for law, lst in fails.items():
        sc, k, detail = min(lst, key=lambda x: x[1])
        small = sc.clone(sc.ops[:k + 1])
        if nshrunk < 4 and not ctx.replay and len(small.ops) > 4 and law not in known:
            nshrunk += 1

            def still_bad(c, law=law):
                rc2, im2, _ = pn_run_impl(ctx, [c], tag="pnshrink")
                return rc2 == 0 and c.id in im2 and len(im2[c.id]) == len(c.ops) and any(l == law for l, _, _ in mon(c, im2[c.id]))
            small = T.shrink(ctx, small, still_bad, budget=10 if quick else 60)
        ctx.violation("monitor", law, "law %s fails on the implementation's trace (presence-notes part, %d cases this run): %s" % (law, len(lst), detail),
                      {"pres_part": True, "head": small.head, "ops": [list(o) for o in small.ops], "law": law, "detail": detail, "cases_failing": len(lst)})
    mism, unmodelled = [], 0
    if rcm != 0:
        ctx.violation("proof", "runner-crashed", "model runner (c09x) failed: " + err[-1200:], {"theorem_or_obligation": "model runner c09x"})
    else:
        for sc in scns:
            io, mo = impl[sc.id], model.get(sc.id, [])
            if len(io) != len(mo):
                mism.append((sc, -1, [("shape", len(io), len(mo))]))
                continue
            for k in range(len(io)):
                if mo[k]["unmodelled"]:
                    unmodelled += 1
                    break
                d = pn_diff(io[k], mo[k], sc.ops[k][0] == "note")
                if d:
                    mism.append((sc, k, d))
                    break
        if mism and not [l for l in fails if l not in known]:
            sc, k, d = min(mism, key=lambda x: x[1])
            base = sc.clone(sc.ops[:k + 1]) if k >= 0 else sc
            ctx.violation("corr", "correspondence-pres-" + (sc.ops[k][0] if k >= 0 else "shape"),
                          "presence model and implementation disagree on %d of %d note scenarios (frames, {info} From, marks in cache and store, tables, rows "
                          "at quiescence); first: op %d %s: %s; no law failure on this run's histories"
                          % (len(mism), len(scns), k, sc.ops[k] if k >= 0 else "", json.dumps(d, default=str)[:900]),
                          {"correspondence": "C09 projection of the presence slice at quiescence", "pres_part": True, "head": base.head,
                           "ops": [list(o) for o in base.ops], "diff": d})
    # measured distribution of the notes, on the implementation's trace
    dist, cells = {}, {"unsubscribed_seq_in_(recv,lastID]": 0, "accepted_recv_from_session_on_me_only": 0,
                       "accepted_recv_from_session_attached_to_nothing": 0, "info_frames_on_me": 0, "info_frames_in_topic": 0}
    notes = 0
    for sc in scns:
        views = [PNView(b) for b in impl[sc.id]]
        prev = PNView(None)
        for k, v in enumerate(views):
            kind, args = sc.ops[k]
            if kind == "note":
                notes += 1
                if v.b["skipped"]:
                    key = ("not sent (read/kp from a detached session)", "-")
                else:
                    sid, ref, what, seq = int(args[0]), args[1], args[2], int(args[3])
                    u = sc.sessions[sid]
                    tk = c10.rel_topic(u, ref)
                    cls, why = pn_note_class(prev, sid, u, tk, what, seq)
                    onme = prev.attached(sid, "m%d" % u)
                    ontop = prev.attached(sid, tk)
                    moved = prev.ms.get((tk, u)) != v.ms.get((tk, u))
                    outcome = ("stored" if moved else "") + (" relayed" if v.info else "") or \
                        ("nobody to relay to" if (cls == "valid" and what == "kp") else "dropped silently")
                    key = ("%s%s" % (cls, (": " + why.split(" (")[0].split(" is ")[0]) if why else ""),
                           "%s, %s" % ("attached" if ontop else ("on 'me' only" if onme else "attached to nothing"), outcome.strip()))
                    if cls == "unsubscribed" and what == "recv" and tk in prev.topics:
                        r = prev.rows.get((tk, u))
                        if prev.mc.get((tk, u), prev.ms.get((tk, u), (0, 0)))[1] < seq <= prev.lc.get(tk, 0):
                            cells["unsubscribed_seq_in_(recv,lastID]"] += 1
                    if cls == "valid" and what == "recv" and not ontop:
                        cells["accepted_recv_from_session_on_me_only" if onme else "accepted_recv_from_session_attached_to_nothing"] += 1
                    cells["info_frames_on_me"] += sum(1 for i in v.info if i[1] == "me")
                    cells["info_frames_in_topic"] += sum(1 for i in v.info if i[1] != "me")
                dist.setdefault(key[0], {})
                dist[key[0]][key[1]] = dist[key[0]].get(key[1], 0) + 1
            prev = v
    empty = [c for c, n in cells.items() if n == 0]
    if empty and not ctx.replay:
        ctx.notes.append("presence-notes part: required cells not visited this run: %s" % empty)
    for a_ in ("presence-notes part: lossless network (no queue of hub.routeSrv / hub.routeCli / Topic.serverMsg / Topic.clientMsg overflows)",
               "presence-notes part: one handler at a time per topic; per-(sender,destination) FIFO"):
        if a_ not in ctx.assumptions:
            ctx.assumptions.append(a_)
    ctx.coverage["pres_notes"] = {
        "scenarios": len(scns), "operations": sum(len(sc.ops) for sc in scns), "note_requests": notes,
        "law_failures": {l: len(v) for l, v in fails.items()}, "correspondence_mismatches": len(mism),
        "histories_compared_up_to_an_unmodelled_request": unmodelled, "impl_wall_s": round(t_impl, 1),
        "note_distribution": {"how": "every {note} of the part, classified on the implementation's state before it (demanded handling: reason) x (where the session was attached, observed outcome)",
                              "by_demanded_handling": dist, "required_cells": cells},
        "rule": "removal histories of C10 (fixed f_*_removed, profile rm) + model-guided note scenarios (tools/props/c09.py pn_gen): users a, b (+c), "
                "observer session on 'me', worker session, a second device; p2p topic (or a group owned by b); a publishes once, b 2-4 times; then a "
                "unsubscribes / leaves or is evicted from the group / was never invited / detaches / gives up R or W while b keeps the topic loaded; "
                "probes: {note recv} from a's observer, worker and second device with seq aimed from the extracted model's marks inside (recv, lastID] "
                "and at recv, recv-1, 0, -1, 1, lastID+1, far, read; read / typing / unknown-kind notes from attached sessions; duplicates; interleaved "
                "with b's publishes and notes, a's re-subscription, mute/un-mute, attach/detach/disconnect of observers; final unload of every idle topic",
        "trusted_base": ["harness/overlay/server/zz_verif_c09x_test.go + zz_verif_c10_test.go (pScn), harness/runner/r_c09x.ml + r_pres.ml, "
                         "python laws of tools/props/c09.py pn_monitor; presence-model scope and the lossless-network hypothesis as stated for C10"]}


def run(ctx):
    quick = ctx.tier == "quick"
    ok, _ = ctx.build_runner()
    ok2, _ = ctx.build_main()
    if ok and ok2:
        relay_audience(ctx)
        pres_notes(ctx)
        from props import c09load
        c09load.load_marks(ctx)
    if ctx.replay:
        rp = json.load(open(ctx.replay)).get("replay")
        if isinstance(rp, dict) and (rp.get("pres_part") or rp.get("relay_part") or rp.get("loadmarks_part")):
            # the replay belongs to one of the slice parts: only that part (and the proofs) is re-run
            import vlib
            ctx.coq_props(())
            vlib.proof_violation(ctx)
            ctx.finish()

    def guided(ctx, total):
        return gen_guided(ctx, 110 if quick else 1500)

    def cov(scns, impl):
        d = distribution(scns, impl)
        if d["note_distribution"]["empty_required_cells"]:
            ctx.notes.append("note distribution: required cells not visited this run: %s" % d["note_distribution"]["empty_required_cells"])
        return d
    statelib.run_stateful(
        ctx, [("msg", 0.0, 0.4), ("msg", 0.12, 0.15), ("perm", 0.0, 0.1)], monitor,
        dict(ops=None, frame=frame_f, line=line_f, keys=("frames", "store", "cache", "calls")),
        rule="(a) seeded random histories over one group topic: 2-5 users, 1-2 sessions each, seeded subscriptions with assorted want/given; ops pub/note(read|recv|kp|junk, seq around [-1,lastID+1])/get*/delmsg/leave/sub/unload/restart, 6-22 ops; a share with single store faults/crashes; (b) model-guided note scenarios (tools/props/c09.py gen_guided): the extracted model is stepped alongside generation; the subject's marks are driven to read < recv < lastID with gaps >= 2 (also read = recv, read = recv = lastID, no marks, stored read > recv reloaded) by publishes from another user followed by recv/read notes, then notes of both kinds with seq aimed at -n, 0, 1, read-1, read, read+1, between, recv-1, recv, recv+1, lastID-1, lastID, lastID+1, far beyond - from an attached session, the user's second session, a session that never attached, users without R / without W / without both / without a subscription - plus duplicates, typing notes, unknown kinds, single store faults, interleaved with get desc/sub, publishes, deletions, mode changes, leave/attach, unload and restart; non-trivial = at least one accepted mutating request; distinct by (ops, replies)",
        trusted=["projection compared for C09 after every request: info frames, marks in desc/sub frames and 202 acks, stored and cached read/recv per user, topic seqid/lastid, number of adapter calls"],
        extra_scns=guided, extra_cov=cov)
