"""C09 read/received marks: theorems in coq/Props/PropC09.v over Sys/Topic.v (note,
publish, load); correspondence + monitor through the topic-history driver."""
from props import statelib
from props.statelib import eff

NOTE_OPS = {"note", "pub", "sub", "leave", "getdesc", "getsub", "unload", "restart", "delmsg", "setsub", "delsub"}


def monitor(sc, views):
    res = []
    prev = None
    life = {}      # user -> lifetime counter (bumped when the subscription row is deleted / recreated)
    for k, v in enumerate(views):
        fault, kind, args = sc.ops[k]
        actor = sc.sessions.get(args[0]) if args else None
        seqid = v.topic.get("seqid", 0)
        # bounds, everywhere the marks are stored or reported
        for u, s in v.subs.items():
            if s["deleted"]:
                continue
            if not (0 <= s["read"] <= s["recv"] <= seqid):
                if 0 <= s["read"] <= seqid and 0 <= s["recv"] <= seqid and s["read"] > s["recv"]:
                    res.append(("stored-read-le-recv", k, "user %d stored read=%d > recv=%d" % (u, s["read"], s["recv"])))
                else:
                    res.append(("stored-marks-bounds", k, "user %d stored read=%d recv=%d latest=%d" % (u, s["read"], s["recv"], seqid)))
        if v.loaded:
            lastid = v.cache.get("lastid", 0)
            for u, p in v.cusers.items():
                if not (0 <= p["read"] <= p["recv"] <= lastid):
                    law = "cached-read-le-recv" if (0 <= p["read"] <= lastid and 0 <= p["recv"] <= lastid) else "cached-marks-bounds"
                    res.append((law, k, "user %d cached read=%d recv=%d lastid=%d" % (u, p["read"], p["recv"], lastid)))
        for sid, t in v.frames:
            if t.startswith("desc "):
                d = statelib.kvs(t)
                if d["acs"] != "-/-" and not (0 <= int(d["read"]) <= int(d["recv"]) <= max(int(d["seq"]), 0) or int(d["seq"]) == 0 and int(d["read"]) == 0 and int(d["recv"]) == 0):
                    res.append(("reported-marks-bounds", k, "desc to session %d: %s" % (sid, t)))
            elif t.startswith("sub "):
                for row in t.split()[1:]:
                    f = row.split(":")
                    rd, rc = int(f[2]), int(f[3])
                    if not (0 <= rd <= rc <= seqid):
                        law = "reported-read-le-recv" if (0 <= rd <= seqid and 0 <= rc <= seqid) else "reported-marks-bounds"
                        res.append((law, k, "{meta sub} to session %d reports user %s read=%d recv=%d latest=%d" % (sid, f[0], rd, rc, seqid)))
        if prev is not None:
            for u, s in v.subs.items():
                p = prev.subs.get(u)
                if p is None or s["deleted"] or p["deleted"]:
                    continue
                recreated = (kind in ("sub", "setsub") and (s["read"], s["recv"], s["delid"]) == (0, 0, 0) and
                             (u not in prev.cusers if prev.loaded else False))
                if (s["read"] < p["read"] or s["recv"] < p["recv"]) and not recreated:
                    res.append(("marks-monotone", k, "user %d marks moved back: read %d->%d recv %d->%d" % (u, p["read"], s["read"], p["recv"], s["recv"])))
                if (s["read"], s["recv"]) != (p["read"], p["recv"]) and not recreated:
                    acked = [t for sid, t in v.frames if t.startswith("ctrl 202")]
                    if kind == "pub" and actor == u and acked:
                        n = int(statelib.kvs(acked[0])["seq"])
                        if (s["read"], s["recv"]) != (n, n):
                            res.append(("publisher-marks-jump", k, "publisher's marks are %d/%d after message %d" % (s["read"], s["recv"], n)))
                    elif kind == "note" and actor == u:
                        if "R" not in eff(p["want"], p["given"]):
                            res.append(("note-needs-read", k, "mark of user %d moved by a note without R" % u))
                    else:
                        res.append(("mark-moved-by-other", k, "marks of user %d changed by %s of user %s" % (u, kind, actor)))
        # info audience
        infos = [(sid, t) for sid, t in v.frames if t.startswith("info ")]
        if kind == "note" and prev is not None:
            what, seq = args[1], int(args[2])
            origin = args[0]
            amode = eff(prev.subs.get(actor, {}).get("want", ""), prev.subs.get(actor, {}).get("given", "")) if actor in prev.subs and not prev.subs[actor]["deleted"] else ""
            valid = (what in ("read", "recv") and 0 < seq <= prev.topic.get("seqid", 0) and "R" in amode) or \
                    (what == "kp" and seq == 0 and "W" in amode)
            if origin in prev.csess and (what not in ("read", "recv", "kp") or (what in ("read", "recv") and seq <= 0) or (what == "kp" and seq != 0) \
               or (what in ("read", "recv") and seq > prev.topic.get("seqid", 0))):
                # invalid by value: no reply, no side effect
                if v.frames or v.pres:
                    res.append(("invalid-note-silent", k, "invalid note %s seq=%d produced output %s" % (what, seq, v.frames + v.pres)))
                if v.b["store"] != prev.b["store"]:
                    res.append(("invalid-note-silent", k, "invalid note %s seq=%d changed the store" % (what, seq)))
            if what == "kp" and "W" not in amode and infos:
                res.append(("kp-needs-write", k, "typing note relayed from a user without W"))
            for sid, t in infos:
                d = statelib.kvs(t)
                ru = prev.csess.get(sid)
                rmode = eff(prev.cusers.get(ru, {}).get("want", ""), prev.cusers.get(ru, {}).get("given", "")) if ru in prev.cusers else ""
                if sid == origin:
                    res.append(("info-not-to-origin", k, "relayed note echoed to the originating session %d" % sid))
                if ru is None:
                    res.append(("info-attached-only", k, "relayed note reached session %d which is not attached" % sid))
                elif "R" not in rmode:
                    res.append(("info-readers-only", k, "relayed note reached session %d of user %d without R" % (sid, ru)))
                if what == "kp" and ru == actor:
                    res.append(("kp-not-to-typist", k, "typing note reached session %d of the typist" % sid))
                if int(d["from"]) != actor:
                    res.append(("info-true-sender", k, "relayed note names user %s, sent by %s" % (d["from"], actor)))
        elif infos:
            res.append(("info-only-from-notes", k, "info frames produced by %s" % kind))
        prev = v
    return res


def frame_f(t):
    return t.startswith("info ") or t.startswith("desc ") or t.startswith("sub ") or t.startswith("ctrl 202")


def line_f(kind, l):
    import re
    if kind == "store":
        if l.startswith("sub "):
            return re.sub(r" del=\S+", "", re.sub(r"^(sub \d+) \S+", r"\1", l))
        if l.startswith("topic "):
            return l.split(" delid=")[0]
        return None
    if l.startswith("user "):
        return re.sub(r" del=\S+", "", re.sub(r" online=\S+", "", re.sub(r"^(user \d+) \S+", r"\1", l)))
    if l.startswith("lastid"):
        return l.split(" delid=")[0]
    return None


def run(ctx):
    statelib.run_stateful(
        ctx, [("msg", 0.0, 0.6), ("msg", 0.12, 0.2), ("perm", 0.0, 0.2)], monitor,
        dict(ops=None, frame=frame_f, line=line_f, keys=("frames", "store", "cache")),
        rule="seeded random histories over one group topic: 2-5 users, 1-2 sessions each, seeded subscriptions with assorted want/given; ops pub/note(read|recv|kp|junk, seq around [-1,lastID+1])/get*/delmsg/leave/sub/unload/restart, 6-22 ops; a share with single store faults/crashes; non-trivial = at least one accepted mutating request; distinct by (ops, replies)",
        trusted=["projection compared for C09: info frames, marks in desc/sub frames and 202 acks, stored and cached read/recv per user, topic seqid/lastid"])
